#!/usr/bin/env python3
"""Regenerates /verif/MANIFEST.json from the table below (kept in one place so it stays valid)."""
import json, os
ROOT = os.path.dirname(os.path.dirname(os.path.abspath(__file__)))
props = [json.loads(l) for l in open(os.path.join(ROOT, "properties.jsonl"))]

S_NOTE = ("Trusted: rustc, z3 4.8.12, the symx engine (term arena, SMT emission, explorer) and its exactness analysis; the harness oracle. "
          "Assumed: inputs on the stated integer/dyadic grid, shapes and budgets as listed in evidence; rayon with one worker; "
          "rounded (division/sqrt) and uninterpreted (exp/ln) terms are counted in evidence and carry tolerances.")

CLAIMS = {
 "C07": dict(
    text="Bounded model checking of the real linfa-nn code instantiated with a symbolic scalar: every feasible control-flow path of index build + query is enumerated by concolic search (z3 decides each branch flip), and on each path the brute-force oracle obligations are discharged by the solver for all inputs of the path. Exhaustive for all integer point sets |x|<=1024 at the listed small shapes (n<=4 in 1-D, n<=3 in 2-D in the thorough tier), k below/at/above n, leaf sizes 1-2, L1/Linf (L2 via rdistance for k-d tree and linear scan). Counterexamples are replayed natively with f64.",
    technique="symbolic-scalar concolic execution of the compiled generic code + SMT (z3, LIRA) per path; native f64 replay",
    design_ref="DESIGN.md §2, §4 C07"),
 "C03": dict(
    text="Symbolic execution of the real blanket Predict impls, composing wrappers and eight fitted predictor families on symbolic query rows: outputs are terms over the inputs, so 'the same value for the same row in any batch, order, duplication, layout (row/column-major, strided view) and calling form' is decided structurally (identical hash-consed term = bit-identical IEEE value) or, where ndarray re-associates a sum, by z3 up to a relative 1e-9; all control-flow paths of predict over the bounded query grid are enumerated (exhaustive at the listed shapes unless evidence says otherwise). MultiClassModel arg-max is enumerated over solver-chosen probability grids.",
    technique="symbolic-scalar concolic execution + term identity / SMT (z3) per path; native f64 replay",
    design_ref="DESIGN.md §4 C03"),
 "C12": dict(
    text="Partial. The real logistic fits (binary and multinomial, argmin L-BFGS on f64) are executed for every label vector over a 3-4 letter alphabet (labels are symbolic class labels; the solver enumerates all feasible paths of label coding, error handling and decisions), on four concrete feature families (1-2 columns, centred / offset / badly scaled), alpha in {0, 1/8, 1, 8}, with and without intercept. On every path: error iff the class count is wrong, reported class set == training labels, probabilities in [0,1] (rows summing to one), predicted class == what probability and threshold / arg-max imply, and the gradient of the documented penalised negative log-likelihood recomputed from first principles vanishes (<= 1e-3). Tweedie GLM: all configurations power {0,1,1.5,2,3} x link x intercept x alpha x three data families are enumerated by the solver on concrete data (support errors, predictions in the link's range, stationarity of 1/2(deviance+alpha|w|^2) by central differences of the textbook deviance; identity/logit links with power 0 only). Features are not symbolic (both crates are tied to primitive floats); probabilities at extreme inputs are outside the claim.",
    technique="concolic enumeration of label vectors (symbolic labels, z3) over the real fit; per-path numeric stationarity oracle; native replay",
    design_ref="DESIGN.md §4 C12"),
 "C01": dict(
    text="Symbolic execution of the real fold / iter_fold / sample_chunks / cross_validate(_single) code for every shape 2<=k<=n<=12 (quick: n<=7), 1-2 feature columns, Ix1 and Ix2 targets, owned datasets and views, 1-2 models: every record/target cell is a distinct symbolic input that linfa only moves, so partition, block positions, record-target pairing and restoration after in-place folding are decided by term identity on the single path of each shape; cross-validation scores are symbolic terms (mean of solver-chosen per-fold evaluation values) checked by z3 (|score*k - sum| <= 1e-6), and injected fit/eval failures (solver-chosen fold and model) must surface as that error.",
    technique="symbolic-scalar execution of the compiled generic code (term identity) + SMT (z3) for the score arithmetic; native f64 replay",
    design_ref="DESIGN.md §4 C01"),
 "C02": dict(
    text="Same machinery for the dataset operations: each cell/weight/name carries an identity, each operation (ratio split owned/view over ~300 f32 ratios incl. ulp neighbours, shuffle/bootstrap with a solver-scripted RNG so that every draw sequence is a path, with_labels, one_vs_all, chunking, sample/target/feature iteration, map_targets, view, into_single_target, to_owned, label counts) is run alone for n<=8 (12 thorough) and composed in all ordered pairs (n<=5) and triples (n<=3-4); outputs must be exactly the documented selection with record, target, weight and names of one original sample/column. Label-based operations run on symbolic labels (all label vectors enumerated by the solver).",
    technique="symbolic-scalar execution (term identity), solver-guided enumeration of RNG scripts and label vectors (z3); native replay",
    design_ref="DESIGN.md §4 C02"),
 "C20": dict(
    text="Partial (hash order and seeds; thread schedules are outside). Every listed estimator (k-means with the default seed / a fixed seed, decision tree, Gaussian and multinomial naive Bayes, elastic net, OLS, min-max scaler, linear SVM) is built from its public default constructor and fitted 3-8 times inside one run on the same symbolic data - each fit creates fresh std HashMaps with fresh random SipHash keys - and all learned quantities must be the *same terms* (hash-consed, associativity-sensitive: a reduction whose order follows map iteration yields a different term) and all predictions equal, on every feasible path of the fits at the listed tiny shapes. Tree-specific harnesses additionally pin impurity bits and tied-leaf predictions.",
    technique="symbolic-scalar concolic execution with repeated fits per path; term identity as bit-identity oracle; z3 for path enumeration",
    design_ref="DESIGN.md §4 C20"),
 "C14": dict(
    text="Bounded model checking of the real decision-tree fit / predict code on symbolic integer features (n<=5 rows, 1-2 features, 2-3 classes, concrete label patterns and small integer weights enumerated per job; Gini and entropy; max_depth None/1/2, min_weight_split/leaf, min_impurity_decrease swept): every feasible path of the sorted sweep and recursion is enumerated (z3), and on each path the fitted tree is walked through the public accessors and recomputed from the training rows: depth limits, two children per split, reached and side weights, reported impurity decrease == recomputed decrease of the criterion and >= the threshold, every training row predicted as the label of its fit-time leaf, leaf label is a most frequent one, only training labels predicted, importances >= 0 summing to one. Rounding of split midpoints is outside the symbolic grid and is covered by concrete adjacent-float instances (adj=40 jobs).",
    technique="symbolic-scalar concolic execution of the compiled generic code + SMT (z3) per path; native f64 replay",
    design_ref="DESIGN.md §4 C14"),
 "C04": dict(
    engine="kani",
    replay="python3 hk/run_kani.py replay {path}",
    text="Bounded model checking with Kani 0.68 / CBMC 6.11 (CaDiCaL) of the compiled real guards: one proof harness per parameter builder (34 quick, 56 thorough; k-means, DBSCAN, OPTICS, GMM, elastic net single/multi-task, logistic binary/multinomial, Tweedie, Platt, SVM, decision tree, both naive Bayes, FTRL, three PLS variants, t-SNE, FastICA, diffusion map, both random projections, hierarchical clustering, count vectoriser numeric conditions) makes every numeric field kani::any() at full width (all finite bit patterns, -0.0 excluded), builds the parameters through the public builder API and asserts: check_ref is Ok for every value inside the documented range and Err for every value outside it (oracle transcribed from doc comments and #[error] texts; values the documentation leaves ambiguous are claimed by neither side and listed), check and check_ref agree on verdict and variant, getters are unchanged, the error blames a parameter that is out of range. The blanket Fit / FitWith / Transformer impls are checked on a mock ParamGuard (invalid: exactly check_ref's error, trainer entered 0 times; valid: identical to the checked form). Unwinding assertions on; both sides of each iff have a satisfied cover; counterexamples are replayed natively with cargo kani playback before being reported.",
    technique="Kani/CBMC bounded model checking (SAT, CaDiCaL) of the compiled guards over all bit patterns; concrete playback replay",
    note="Trusted: Kani 0.68, CBMC 6.11, CaDiCaL; the documented-range oracle. Stubs: regex::Regex::new (count vectoriser), rayon bridges (thorough real-builder harnesses), listed per harness in evidence. Assumed: finite non-NaN floats, -0.0 excluded; unwind bounds per harness (unwinding assertions on). Timeout / OOM / ICE / unsatisfied cover are reported inconclusive, never as a pass.",
    design_ref="DESIGN.md §3, §4 C04"),
 "C05": dict(
    text="Regression metrics (max/mean/median absolute error, MSE, MSLE structure, MAPE, R2, explained variance; Array1/Array2/Dataset receivers, per column), silhouette score (two clusters, 1-D) and Pearson correlation run on symbolic integer vectors (n<=4-6); each result is tied to its textbook formula by z3 in cross-multiplied form (so that divisions/sqrt appear only as the terms linfa itself built), plus permutation invariance inside one run. The confusion matrix and everything derived from it (accuracy, precision, recall, F-beta, MCC, one-vs-all / one-vs-one splits) run on every pair of symbolic label vectors (n<=4, <=3 classes, usize/bool/String labels, all four call forms) and are recomputed from the label vectors on each path. ROC / AUC / log-loss take f32 probabilities, which cannot be symbolic scalars: every (score, label) vector over score grids with 3-9 levels incl. ties and the boundary scores 0 and 1 (n<=4 quick, 6 thorough) is enumerated by the solver and AUC == Mann-Whitney (ties 1/2), curve monotone from (0,0) to (1,1), log-loss == mean clipped negative log-likelihood are recomputed on each. Two recorded defects (explained_variance formula; transposed matrix for array.confusion_matrix(&dataset)) are reported as KNOWN-FINDING by dedicated jobs.",
    technique="symbolic-scalar concolic execution + SMT (z3, nonlinear obligations cross-multiplied); solver-guided enumeration of label vectors; native replay",
    design_ref="DESIGN.md §4 C05"),
 "C16": dict(
    text="Partial (whiteners are outside: SVD/Cholesky on the scalar do not close). LinearScaler (standard with/without mean/std, min-max with a symbolic range, max-abs) and NormScaler (l1, l2, max) are fitted on symbolic integer matrices (n<=4, p<=2) incl. constant, all-zero columns and rows as separate paths; z3 ties offsets/scales to the textbook mean / std / min / max, the transform to the affine map of offsets()/scales() on training and unseen rows, the postconditions (zero mean, unit variance in cross-multiplied form, range ends attained, unit norm, finite output), commutation with row reordering (term identity), metadata pass-through and the empty-input / flipped-range errors.",
    technique="symbolic-scalar concolic execution + SMT (z3); term identity for row-wise invariance; native replay",
    design_ref="DESIGN.md §4 C16"),
 "C09": dict(
    text="Partial (k-means++ / k-means|| initialisation and tolerance-based stopping of the real L2Dist concretise and are outside). The real k-means fit / predict / transform run on symbolic integer data (n<=5, k<=3, d<=2) with Precomputed or seeded Random initialisation, L1 and squared-L2 reduced distances: every new point is assigned to a centroid at minimal reduced distance and transform returns that distance (ties free); one Lloyd step satisfies c_new*(count+1) == c_old + sum of assigned points for some nearest assignment; the squared cost with budget m+1 does not exceed the cost with budget m (decided for k=1 n=3 and k=2 n=2, otherwise proved up to lemma steps or evaluated on every path witness - stated non-exhaustive in evidence); reported inertia and cluster counts describe the returned centroids, also across restarts (counts sum to n; two restarts never give a higher inertia than one).",
    technique="symbolic-scalar concolic execution + SMT (z3, per-query timeouts on nonlinear obligations); native f64 replay",
    design_ref="DESIGN.md §4 C09"),
 "C15": dict(
    text="Gaussian and multinomial naive Bayes: fit on the whole symbolic dataset vs every fit_with chain over all splits into <=3 contiguous batches (n<=5, concrete label patterns incl. class-incomplete batches): class set, counts, priors, per-class means, variances / feature counts and log-probabilities equal the textbook estimates (cross-multiplied obligations, z3), and predict maximises the joint log-likelihood recomputed from the model's own statistics. Mini-batch k-means fit_with: running-mean recurrence with cumulative counts and the converged / not-converged verdict. FTRL: z and n recurrences of update and weights == 0 iff |z| <= l1 on symbolic state.",
    technique="symbolic-scalar concolic execution + SMT (z3); native f64 replay",
    design_ref="DESIGN.md §4 C15"),
 "C06": dict(
    text="Dense kernels (linear exactly; polynomial with integer degree as exact products, fractional degree and Gaussian through uninterpreted pow/exp whose argument terms are tied to the inputs) on symbolic integer records n<=4, d<=2: every entry equals the kernel function of its two rows, symmetry, unit Gaussian diagonal, and size / sum / diagonal / column / upper triangle / dot agree with the matrix. Sparse kernels with all three neighbour indices: the stored pattern is the symmetrised k-nearest-neighbour graph plus the diagonal under some tie-break (non-branching formulas over squared distances), stored values as dense. Hierarchical clustering on a kernel of symbolic similarities (kodama runs on the symbolic scalar): all samples labelled, exactly min(c,n) clusters, single linkage with a threshold == connected components of the below-threshold graph (boundary s == threshold exercised exactly), complete linkage necessary conditions; n<=4. Positive semidefiniteness is outside.",
    technique="symbolic-scalar concolic execution + SMT (z3, uninterpreted exp/ln/pow with monotonicity axioms); native replay",
    design_ref="DESIGN.md §4 C06"),
 "C19": dict(
    text="Every serialisable type whose scalar is generic is produced by its real constructor or a real fit on tiny symbolic data (the symbolic scalar serialises its term handle, so bincode and JSON round trips move terms losslessly): k-means, DBSCAN/OPTICS parameters and analysis, OLS, elastic net single/multi-task, decision tree, both naive Bayes, FTRL, scalers, linear/polynomial SVM, Tweedie model, nearest-neighbour selectors and metrics, parameter sets with symbolic hyper-parameters on both sides of every validity bound, error enums. Obligations per explored path: round trip succeeds, re-serialisation is byte/document identical, restored == original, every public accessor returns identical terms, predictions/transforms of a fresh symbolic row are identical, check() verdict equal, refit from restored parameters identical. Types tied to f64 (logistic, GMM, whiteners, isotonic, vectorisers, epsilon-SVR) get a concrete f64 round trip in the same binary (marked concrete in evidence, not solver-decided). Kernel types cannot be serialised at all (missing derive on KernelInner) and PCA/PLS/ICA/t-SNE crates are not linked: outside.",
    technique="symbolic-scalar concolic execution with serde round trips; term identity as bit-identity oracle; z3 for path enumeration",
    design_ref="DESIGN.md §4 C19"),
 "C11": dict(
    text="Partial / mostly bug hunting: least-squares fits divide and iterate, so z3's nonlinear real arithmetic proves the obligations only at the smallest shapes (OLS n=2, p=1; some centred elastic-net n=2 cases); elsewhere every explored path is evaluated on its concrete witness (IEEE) with dyadic tolerances and the run is reported non-exhaustive. OLS (linfa-linalg QR on the scalar): residual orthogonal to every feature column and the ones column on full-rank data. Elastic net / lasso / ridge and the multi-task variant (p<=2, n<=3, penalties and l1 ratios on dyadic grids): KKT in w, exact zeros under the l1 threshold, duality gap >= 0, and - on centred features or without intercept - stationarity in the intercept and 'no perturbation beats the gap'. The intercept defect on un-centred features is reported as KNOWN-FINDING by dedicated jobs.",
    technique="symbolic-scalar concolic execution + SMT (z3 NRA with per-query timeouts), witness evaluation; native f64 replay",
    design_ref="DESIGN.md §4 C11"),
 "C13": dict(
    text="SMO solver at state level through the guarded re-export of the Permutable kernel types (swap keeps every per-position attribute with its sample incl. box bounds; write-back through solver-chosen involutive and non-involutive permutations, classification and regression folding; rho for the nu formulation finite and between the class-wise KKT bounds; do_shrinking never panics; epsilon-SVR assembled as fit_epsilon does) and end to end through the public Fit impls for C-SVC (unequal class weights, shrinking on and off), nu-SVC and one-class with linear and quadratic kernels on n<=4 points: box bounds per class weight, equality constraint, KKT within eps, decision value == sum alpha_i K(x_i,q) - rho from the published coefficients, label == sign, nsupport, finite rho. Exhaustive for 24 (point set, label pattern) combinations with concrete dyadic points and symbolic class weights; symbolic points are bug hunting under per-query timeouts. Gaussian kernel, nu-regression, Platt calibration are outside.",
    technique="symbolic-scalar concolic execution + SMT (z3); native f64 replay",
    design_ref="DESIGN.md §4 C13"),
 "C08": dict(
    text="Two layers. Integration: the real Dbscan / Optics transforms with the three real neighbour indices (leaf sizes 1, 2 and default) on symbolic integer points (1-D n<=4 quick / 5 thorough, 2-D n<=3) with a symbolic tolerance, L1 / Linf (L2 in 1-D through rdistance), min_points 2..n+1, tolerance != / == / unconstrained w.r.t. the pairwise distances; the oracle is the definition recomputed from the coordinate terms: labelled iff core or within tolerance of a core point, co-clustering of core points == density connectivity, border points carry a reaching core point's label, labels 0..c-1; OPTICS: each sample once, core distance == distance to the min_points-th neighbour (cardinality encoding, solver obligation), reachability undefined or max(core(o), d(o,p)) for a core o within tolerance listed no later, core distances independent of the index kind. Contract: the same obligations with a mock index answering from a symbolic distance table in row / reversed / sorted / solver-chosen order (n<=6 DBSCAN, n<=4 OPTICS), so visiting-order effects are explored as paths. Zero-feature inputs are a recorded finding.",
    technique="symbolic-scalar concolic execution + SMT (z3); solver-chosen answer orders; native f64 replay",
    design_ref="DESIGN.md §4 C08"),
}
NA = {
 "C10": "not applicable to solver-based checking within reach: a Gaussian-mixture fit is k-means initialisation + Cholesky factorisations + an EM loop with exp/ln in every step and a data-dependent iteration count; with exp/ln uninterpreted the fitted weights/covariances are unconstrained terms, so positivity, normalisation and the precision-covariance inverse relation cannot be decided, and z3's nonlinear real arithmetic does not get through one EM step (DESIGN.md C10). Only GmmParams::check_ref is covered, under C04.",
 "C17": "not applicable: the vectorisers compile a regex inside check_ref, normalise unicode and count into HashMap<String, _>; none of this is generic over the scalar (Engine S has nothing to make symbolic) and regex compilation / SipHash over symbolic strings is far outside CBMC's reach (DESIGN.md C17). The numeric guard conditions are covered under C04.",
 "C18": "not applicable: PCA is implemented for f64 only on top of a LOBPCG truncated SVD with a random start (iterative, sqrt/division chains, eigenvalue optimality statement); neither engine can execute it symbolically within any useful bound (DESIGN.md C18). Parameter / empty-input errors are covered under C04.",
}

checks = []
for p in props:
    pid = p["id"]
    if pid in CLAIMS:
        c = CLAIMS[pid]
        checks.append(dict(
            property_id=pid,
            quick_cmd="python3 check.py %s --tier quick" % pid,
            thorough_cmd="python3 check.py %s --tier thorough" % pid,
            evidence_file="evidence/%s.json" % pid,
            replay_cmd_template=c.get("replay", "python3 check.py --replay {path}"),
            engine=c.get("engine", "symx"),
            level_claimed=dict(category="model_checking", text=c["text"], design_ref=c["design_ref"]),
            level_note=c.get("note", S_NOTE),
            technique=c["technique"]))
na = [dict(property_id=p["id"], reason=NA.get(p["id"], "check not built yet (build phase in progress)")) for p in props if p["id"] not in CLAIMS]
hooks_commits = [l.strip() for l in open(os.path.join(ROOT, "hooks_commits.txt"))] if os.path.exists(os.path.join(ROOT, "hooks_commits.txt")) else []
m = dict(version=1,
         setup_cmd="python3 check.py --build",
         hooks=dict(guard="rust_ml_linfa_verif", enable="RUSTFLAGS='--cfg rust_ml_linfa_verif' (set in /verif/.cargo/config.toml for the harness builds)",
                    baseline_off_cmd="cd /repo && cargo test --workspace --no-fail-fast --offline", source_commits=hooks_commits, add_only=True),
         engines=[dict(name="symx", path="symx/ + hs/", serves_properties=[p for p in sorted(CLAIMS) if CLAIMS[p].get("engine", "symx") == "symx"], kind_free_text="symbolic-scalar (concolic) execution of linfa's generic code with z3 over a pipe"),
                  dict(name="kani", path="hk/", serves_properties=[p for p in sorted(CLAIMS) if CLAIMS[p].get("engine") == "kani"], kind_free_text="Kani 0.68 / CBMC proof harnesses over concretely typed kernels")],
         checks=checks, notes="see DESIGN.md; known_findings.json lists recorded and fixed defects", not_applicable=na)
json.dump(m, open(os.path.join(ROOT, "MANIFEST.json"), "w"), indent=1)
print("MANIFEST.json: %d checks, %d not_applicable" % (len(checks), len(na)))

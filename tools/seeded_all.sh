#!/bin/bash
# confirm + detect (sandbox) for the given seeded ids, sequentially
cd /verif
for id in "$@"; do
  timeout 3000 python3 tools/seeded.py confirm $id
  timeout 3600 python3 tools/seeded.py detect $id --sandbox
done

#!/usr/bin/env python3
"""Seeded-change bookkeeping.

  seeded.py import <src_dir> <ID> <PROP> <crate> <demo_dest>   copy patch/demo/meta of a sub-agent into /verif/seeded/<ID>/
  seeded.py confirm <ID>       in a scratch worktree of /repo: patch applies, existing tests of the crate pass, demo fails;
                               without the patch the demo passes
  seeded.py detect <ID> [--sandbox]   run the registered quick check of the property against the change.
                               default: apply to /repo itself, run, undo (git checkout).  --sandbox: use a scratch
                               worktree + a copy of /verif whose path dependencies point at it (for use while
                               other work is building against /repo).
All results are appended to /verif/seeded/<ID>/meta.json under "ran".
"""
import json, os, shutil, subprocess, sys, time

ROOT = os.path.dirname(os.path.dirname(os.path.abspath(__file__)))
SEEDED = os.path.join(ROOT, "seeded")
WT = "/tmp/seed-repo"
SV = "/tmp/seed-verif"
TGT = "/tmp/seed-target"


def sh(cmd, cwd=None, env=None, timeout=3000):
    e = dict(os.environ)
    e["CARGO_NET_OFFLINE"] = "true"
    if env:
        e.update(env)
    r = subprocess.run(cmd, shell=True, cwd=cwd, env=e, capture_output=True, text=True, timeout=timeout)
    return r.returncode, (r.stdout + r.stderr)


def meta(i):
    return json.load(open(os.path.join(SEEDED, i, "meta.json")))


def save(i, m):
    json.dump(m, open(os.path.join(SEEDED, i, "meta.json"), "w"), indent=1)


def fresh_worktree():
    sh("git -C /repo worktree remove --force %s" % WT)
    shutil.rmtree(WT, ignore_errors=True)
    rc, out = sh("git -C /repo worktree add --detach %s HEAD" % WT)
    assert rc == 0, out


def test_flags(m):
    return (" --features %s/serde" % m["crate"]) if m.get("features") == "serde" else ""


def add_dev_deps(m):
    """demos of serde changes need bincode as a temporary dev-dependency of the crate (not part of the patch)"""
    if m.get("features") != "serde":
        return
    ct = os.path.join(WT, os.path.dirname(os.path.dirname(m["demo_dest"])), "Cargo.toml")
    t = open(ct).read()
    if "bincode" not in t:
        if "[dev-dependencies]" in t:
            t = t.replace("[dev-dependencies]", "[dev-dependencies]\nbincode = \"1.3\"", 1)
        else:
            t += "\n[dev-dependencies]\nbincode = \"1.3\"\n"
        open(ct, "w").write(t)


def cmd_import(src, i, prop, crate, demo_dest):
    d = os.path.join(SEEDED, i)
    os.makedirs(d, exist_ok=True)
    shutil.copy(os.path.join(src, "patch.diff"), os.path.join(d, "patch.diff"))
    shutil.copy(os.path.join(src, "demo.rs"), os.path.join(d, "demo.rs"))
    m0 = json.load(open(os.path.join(src, "meta.json")))
    m = dict(id=i, breaks=prop, what=m0.get("what"), needs=m0.get("needs"), crate=crate, demo_dest=demo_dest, features=m0.get("features", ""),
             author="independent sub-agent given only the property text and a scratch worktree", author_notes=m0.get("tests_pass"), ran={})
    save(i, m)
    print("imported", i)


def cmd_confirm(i):
    m = meta(i)
    d = os.path.join(SEEDED, i)
    fresh_worktree()
    env = {"CARGO_TARGET_DIR": TGT}
    demo = os.path.join(WT, m["demo_dest"])
    os.makedirs(os.path.dirname(demo), exist_ok=True)
    shutil.copy(os.path.join(d, "demo.rs"), demo)
    add_dev_deps(m)
    fl = test_flags(m)
    res = {}
    rc, out = sh("timeout 2500 cargo test --offline -p %s%s --test demo_seeded" % (m["crate"], fl), cwd=WT, env=env)
    res["demo_on_clean_tree"] = "passes" if rc == 0 else "FAILS"
    rc, out = sh("git apply %s" % os.path.join(d, "patch.diff"), cwd=WT)
    res["patch_applies"] = rc == 0
    if rc == 0:
        # the demo itself is a test target of the crate: judge the existing suite without it
        os.remove(demo)
        rc, out = sh("timeout 2500 cargo test --offline -p %s" % m["crate"], cwd=WT, env=env)
        if rc == 0 and fl:
            rc, out2 = sh("timeout 2500 cargo test --offline -p %s%s" % (m["crate"], fl), cwd=WT, env=env)
            out += out2
        res["existing_tests_with_change"] = "pass" if rc == 0 else "FAIL"
        res["existing_tests_tail"] = [l for l in out.splitlines() if l.startswith("test result")][-4:]
        shutil.copy(os.path.join(d, "demo.rs"), demo)
        rc, out = sh("timeout 2500 cargo test --offline -p %s%s --test demo_seeded" % (m["crate"], fl), cwd=WT, env=env)
        res["demo_with_change"] = "fails" if rc != 0 else "PASSES"
    res["repo_head"] = sh("git -C /repo log --format=%h -1")[1].strip()
    m["ran"]["confirm"] = res
    save(i, m)
    sh("git -C /repo worktree remove --force %s" % WT)
    ok = res.get("demo_on_clean_tree") == "passes" and res.get("patch_applies") and res.get("existing_tests_with_change") == "pass" and res.get("demo_with_change") == "fails"
    print(i, "CONFIRMED" if ok else "NOT CONFIRMED", res)
    return ok


def cmd_detect(i, sandbox):
    m = meta(i)
    d = os.path.join(SEEDED, i)
    prop = m["breaks"]
    t0 = time.time()
    if sandbox:
        fresh_worktree()
        rc, out = sh("git apply %s" % os.path.join(d, "patch.diff"), cwd=WT)
        assert rc == 0, out
        sh("rm -rf %s && mkdir -p %s && rsync -a --exclude 'target*' --exclude .git --exclude replays --exclude seeded /verif/ %s/" % (SV, SV, SV))
        sh("grep -rl '/repo' %s --include=Cargo.toml | xargs sed -i 's#\"/repo#\"%s#g'" % (SV, WT))
        if not os.path.exists(os.path.join(SV, "target")):
            sh("cp -r /verif/target %s/target" % SV)
        rc, out = sh("timeout 3000 python3 check.py %s --tier quick" % prop, cwd=SV)
        sh("git -C /repo worktree remove --force %s" % WT)
    else:
        rc, out = sh("git -C /repo status --porcelain")
        assert out.strip() == "", "/repo has uncommitted changes"
        rc, out = sh("git -C /repo apply %s" % os.path.join(d, "patch.diff"))
        assert rc == 0, out
        try:
            rc, out = sh("timeout 3000 python3 check.py %s --tier quick" % prop, cwd=ROOT)
        finally:
            sh("git -C /repo checkout -- .")
    lines = [l for l in out.splitlines() if l.startswith("VIOLATION") or l.startswith("  harness") or l.startswith("INCONCLUSIVE") or l.startswith(prop + " quick")]
    res = dict(check="python3 check.py %s --tier quick" % prop, exit=rc, detected=(rc == 1), sandbox=sandbox, wall_s=round(time.time() - t0, 1), output=lines[:8],
               repo_head=sh("git -C /repo log --format=%h -1")[1].strip())
    m["ran"]["detect"] = res
    save(i, m)
    print(i, "DETECTED" if rc == 1 else "MISSED (exit %d)" % rc, lines[:3])
    return rc == 1


if __name__ == "__main__":
    a = sys.argv[1:]
    if a[0] == "import":
        cmd_import(*a[1:6])
    elif a[0] == "confirm":
        sys.exit(0 if cmd_confirm(a[1]) else 1)
    elif a[0] == "detect":
        sys.exit(0 if cmd_detect(a[1], "--sandbox" in a) else 1)

#!/bin/bash
# usage: sweep.sh <name> : runs every manifest quick_cmd sequentially like the probe does (evidence removed first)
cd /verif
export CARGO_NET_OFFLINE=true GOPROXY=off PIP_NO_INDEX=1 VERIF_SEED=1 VERIF_TIER=quick
out=target/scratch/sweep_$1; mkdir -p $out
for id in $(jq -r '.checks[].property_id' MANIFEST.json); do
  cmd=$(jq -r ".checks[]|select(.property_id==\"$id\")|.quick_cmd" MANIFEST.json)
  rm -f evidence/$id.json
  bash -c "$cmd" > $out/$id.log 2>&1; echo "exit=$?" >> $out/$id.log
  cp evidence/$id.json $out/$id.json 2>/dev/null
  echo "$id $(tail -1 $out/$id.log) $(date +%T)" >> $out/summary.txt
done
echo done >> $out/summary.txt

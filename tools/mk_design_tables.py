#!/usr/bin/env python3
"""Regenerates the findings and seeded-change tables of DESIGN.md from known_findings.json and seeded/*/meta.json."""
import json, os, glob, re
ROOT = os.path.dirname(os.path.dirname(os.path.abspath(__file__)))
k = json.load(open(os.path.join(ROOT, "known_findings.json")))["findings"]
rows = ["| id | property | status | /repo commit | harness (role) | what fails |", "|---|---|---|---|---|---|"]
for f in k:
    what = f["what"]
    what = re.sub(r"^fixed: property=\S+ \S+ ", "", what)
    role = f["harness"] + (" " + json.dumps(f["params"], separators=(",", ":")) if f.get("params") else "")
    rows.append("| %s | %s | %s | %s | `%s` | %s |" % (f["id"], f["property"], f["status"], f.get("commit") or "—", role, what.replace("|", "\\|")))
fx = sum(1 for f in k if f["status"] == "fixed")
kn = sum(1 for f in k if f["status"] == "known")
ftab = "%d findings: %d repaired by a `fix:` commit in /repo, %d recorded as known (reason in the last column).\n\n" % (len(k), fx, kn) + "\n".join(rows)

srows = ["| id | breaks | what the change does | needs | detected by | result |", "|---|---|---|---|---|---|"]
for d in sorted(glob.glob(os.path.join(ROOT, "seeded", "S*"))):
    m = json.load(open(os.path.join(d, "meta.json")))
    det = m.get("ran", {}).get("detect", {})
    conf = m.get("ran", {}).get("confirm", {})
    by = ""
    for l in det.get("output", []):
        mm = re.search(r"harness (\S+)", l)
        if mm:
            by = mm.group(1)
            break
    ok = conf.get("demo_with_change") == "fails" and conf.get("existing_tests_with_change") == "pass" and conf.get("demo_on_clean_tree") == "passes"
    res = ("confirmed; " if ok else "NOT confirmed; ") + ("DETECTED" if det.get("detected") else ("missed" if det else "not run"))
    srows.append("| %s | %s | %s | %s | `%s` | %s |" % (m["id"], m["breaks"], (m.get("what") or "")[:260].replace("|", "\\|").replace("\n", " "), (m.get("needs") or "")[:200].replace("|", "\\|").replace("\n", " "), by, res))
for d in sorted(glob.glob(os.path.join(ROOT, "seeded", "rejected", "S*"))):
    m = json.load(open(os.path.join(d, "meta.json")))
    srows.append("| %s | (%s) | %s | %s | — | not kept: %s |" % (m["id"], m["breaks"], (m.get("what") or "")[:200].replace("|", "\\|").replace("\n", " "), (m.get("needs") or "")[:120].replace("|", "\\|").replace("\n", " "), (m.get("disposition") or "")[:300].replace("|", "\\|")))
stab = "\n".join(srows)
p = os.path.join(ROOT, "DESIGN.md")
s = open(p).read()
s = re.sub(r"<!-- FINDINGS-BEGIN -->.*?<!-- FINDINGS-END -->", "<!-- FINDINGS-BEGIN -->\n" + ftab + "\n<!-- FINDINGS-END -->", s, flags=re.S)
if "<!-- SEEDED-BEGIN -->" in s:
    s = re.sub(r"<!-- SEEDED-BEGIN -->.*?<!-- SEEDED-END -->", "<!-- SEEDED-BEGIN -->\n" + stab + "\n<!-- SEEDED-END -->", s, flags=re.S)
open(p, "w").write(s)
print("tables regenerated: %d findings, %d seeded" % (len(k), len(srows) - 2))

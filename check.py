#!/usr/bin/env python3
"""Driver of the /verif checks.

  check.py <PROPERTY> [--tier quick|thorough] [--seed N]      run every harness registered for the property
  check.py --replay <file>                                    re-execute a recorded counterexample natively
  check.py --build                                            build the harness binaries from /repo's working tree

Exit 0: the property held on everything explored (KNOWN-FINDING lines may be printed).
Exit 1: `VIOLATION property=<id> replay=<path>` — reproduced natively against the real code.
Exit 2: inconclusive (engine error, a counterexample that does not replay, inexact arithmetic) — never a verdict.
"""
import json, os, subprocess, sys, time, hashlib, shutil, threading, random

ROOT = os.path.dirname(os.path.abspath(__file__))
HS = os.path.join(ROOT, "target", "release", "hs")
SCRATCH = os.path.join(ROOT, "target", "scratch")
CORES = int(os.environ.get("VERIF_CORES", "16"))
# second opinion (fresh context per query) on every obligation the primary solver reports as proved
SOLVER2 = shutil.which("z3-new") and "z3-new"

sys.path.insert(0, ROOT)


def env():
    e = dict(os.environ)
    e["CARGO_NET_OFFLINE"] = "true"
    e["RAYON_NUM_THREADS"] = "1"
    e["SYMX_SCRATCH"] = SCRATCH
    e.pop("RUSTFLAGS", None)  # flags come from /verif/.cargo/config.toml (incl. --cfg rust_ml_linfa_verif)
    return e


_build_lock = os.path.join(ROOT, "target", ".build.lock")


def build(verbose=False):
    """(re)build hs from /repo's current working tree; cargo decides what is stale"""
    os.makedirs(os.path.join(ROOT, "target"), exist_ok=True)
    import fcntl
    with open(_build_lock, "w") as lk:
        fcntl.flock(lk, fcntl.LOCK_EX)
        t0 = time.time()
        r = subprocess.run(["cargo", "build", "--release", "-p", "hs"], cwd=ROOT, env=env(), capture_output=True, text=True)
        if r.returncode != 0:
            sys.stdout.write(r.stdout[-4000:])
            sys.stdout.write(r.stderr[-8000:])
            print("INCONCLUSIVE: harness build failed against /repo's current tree")
            sys.exit(2)
        if verbose:
            print("build ok in %.1fs" % (time.time() - t0))


def run_job(job, tier, seed, outdir):
    h, p = job["h"], job.get("p", {})
    tag = hashlib.sha1((h + json.dumps(p, sort_keys=True)).encode()).hexdigest()[:10]
    out = os.path.join(outdir, "%s-%s.json" % (h, tag))
    cmd = [HS, "run", h] + ["%s=%s" % (k, v) for k, v in sorted(p.items())]
    cmd += ["--max-secs", str(job.get("secs", 60)), "--max-paths", str(job.get("paths", 1000000)), "--qto", str(job.get("qto", 5000 if tier == "quick" else 30000)), "--out", out]
    if job.get("jobs", 1) > 1:
        cmd += ["--jobs", str(job["jobs"])]
    if seed:
        cmd += ["--seed", str(seed)]
    if job.get("xproc"):
        cmd += ["--witnesses", str(job["xproc"])]
    if job.get("closure", True):
        cmd += ["--closure"]
    if SOLVER2 and job.get("solver2", True):
        cmd += ["--solver2", SOLVER2]
    if job.get("probe"):
        # budgeted bug-hunting run on an instance that cannot close: spread the explored paths (seeded)
        cmd += ["--random-pop", str(1 + seed)]
    t0 = time.time()
    try:
        e = env()
        if job.get("obs_reltol"):
            # the harness multiplies 2-D arrays: f64 goes through matrixmultiply's kernels, the symbolic scalar through plain
            # loops; the witness validation then compares floating-point outputs to this relative tolerance
            e["SYMX_OBS_RELTOL"] = str(job["obs_reltol"])
        r = subprocess.run(cmd, cwd=ROOT, env=e, capture_output=True, text=True, timeout=job.get("secs", 60) * 2 + 120)
        rc, err = r.returncode, r.stderr[-2000:]
    except subprocess.TimeoutExpired:
        rc, err = -9, "driver timeout"
    res = None
    if rc == 0 and os.path.exists(out):
        try:
            res = json.load(open(out))
        except Exception as ex:  # noqa
            err = "bad json: %s" % ex
    xp = None
    if res is not None and job.get("xproc") and res["report"].get("witnesses"):
        xp = cross_process(job, res["report"]["witnesses"], outdir, tag)
    return dict(job=job, rc=rc, err=err, res=res, wall=time.time() - t0, xproc=xp)


def cross_process(job, witnesses, outdir, tag):
    """re-execute the path witnesses natively (f64) in fresh processes - fresh per-process SipHash keys -
    under rayon pools of 1 and 8 threads; outputs must equal the exploration's shadow outputs bit for bit"""
    inp = os.path.join(outdir, "wit-%s.json" % tag)
    json.dump([w[0] for w in witnesses], open(inp, "w"))
    want = [w[1] for w in witnesses]
    bad, runs = [], 0
    for threads in (1, 8, 3):
        e = env()
        e["RAYON_NUM_THREADS"] = str(threads)
        cmd = [HS, "observe", job["h"], inp] + ["%s=%s" % (k, v) for k, v in sorted(job.get("p", {}).items())]
        try:
            r = subprocess.run(cmd, cwd=ROOT, env=e, capture_output=True, text=True, timeout=300)
            got = json.loads(r.stdout.strip().splitlines()[-1])
        except Exception as ex:  # noqa
            bad.append(dict(threads=threads, error=str(ex)[:200]))
            continue
        runs += 1
        for i, (g, w) in enumerate(zip(got, want)):
            if g != w:
                bad.append(dict(threads=threads, inputs=witnesses[i][0], got=g, want=w))
                break
    # the same with a fixed non-dyadic offset added to every input (SYMX_JITTER): sums are then inexact and an
    # accumulation order that depends on threads or hash keys shows in the last bits.  No reference values exist
    # for these inputs: the processes are compared with each other.
    first = None
    for threads in (1, 1, 8, 3):
        e = env()
        e["RAYON_NUM_THREADS"] = str(threads)
        e["SYMX_JITTER"] = "1"
        cmd = [HS, "observe", job["h"], inp] + ["%s=%s" % (k, v) for k, v in sorted(job.get("p", {}).items())]
        try:
            r = subprocess.run(cmd, cwd=ROOT, env=e, capture_output=True, text=True, timeout=300)
            got = json.loads(r.stdout.strip().splitlines()[-1])
        except Exception as ex:  # noqa
            bad.append(dict(threads=threads, jitter=True, error=str(ex)[:200]))
            continue
        runs += 1
        if first is None:
            first = got
            continue
        for i, (g, w) in enumerate(zip(got, first)):
            if g != w:
                bad.append(dict(threads=threads, jitter=True, inputs=witnesses[i][0], got=g, want=w))
                break
    return dict(witnesses=len(witnesses), processes=runs, mismatches=bad)


def schedule(jobs, tier, seed, outdir):
    """run jobs with at most CORES worker processes in flight (a job with jobs=m counts m)"""
    results = [None] * len(jobs)
    lock = threading.Condition()
    free = [CORES]
    order = sorted(range(len(jobs)), key=lambda i: -jobs[i].get("secs", 60) * jobs[i].get("jobs", 1))

    def worker(i):
        w = min(jobs[i].get("jobs", 1), CORES)
        with lock:
            while free[0] < w:
                lock.wait()
            free[0] -= w
        try:
            results[i] = run_job(jobs[i], tier, seed, outdir)
        finally:
            with lock:
                free[0] += w
                lock.notify_all()

    ts = [threading.Thread(target=worker, args=(i,)) for i in order]
    for t in ts:
        t.start()
    for t in ts:
        t.join()
    return results


def load_known():
    p = os.path.join(ROOT, "known_findings.json")
    if not os.path.exists(p):
        return []
    return json.load(open(p)).get("findings", [])


def match_known(known, prop, harness, params, check):
    """a recorded finding suppresses exactly one (harness, region parameters, failing obligation) role"""
    for k in known:
        if k.get("status") != "known" or k["property"] != prop or k["harness"] != harness:
            continue
        if k.get("check") and k["check"] != check:
            continue
        if all(params.get(a) == b for a, b in k.get("params", {}).items()):
            return k
    return None


def main():
    args = sys.argv[1:]
    if not args:
        print(__doc__)
        sys.exit(2)
    if args[0] == "--build":
        build(True)
        return
    if args[0] == "--replay":
        build()
        r = subprocess.run([HS, "replay", args[1]], cwd=ROOT, env=env())
        sys.exit(r.returncode)
    prop = args[0]
    tier = os.environ.get("VERIF_TIER", "quick")
    seed = int(os.environ.get("VERIF_SEED", "0") or 0)
    i = 1
    while i < len(args):
        if args[i] == "--tier":
            tier = args[i + 1]
            i += 2
        elif args[i] == "--seed":
            seed = int(args[i + 1])
            i += 2
        else:
            print("bad argument", args[i])
            sys.exit(2)
    import registry
    if prop not in registry.REG:
        print("no check registered for", prop)
        sys.exit(2)
    t0 = time.time()
    build()
    jobs = registry.REG[prop][tier] if tier in registry.REG[prop] else registry.REG[prop]["quick"]
    extra = getattr(registry, "EXTRA", {}).get(prop)
    # The thorough tier is scaled to a wall-clock budget (VERIF_THOROUGH_MIN minutes per property, default 20):
    # every job keeps its shape (sizes, parameters), only the time it may spend exploring shrinks, never below the
    # 20 s floor.  Jobs that close earlier stop earlier; jobs cut short are reported non-exhaustive.
    budget_scale = 1.0
    if tier == "thorough":
        cap_min = float(os.environ.get("VERIF_THOROUGH_MIN", "20"))
        est_min = sum(j.get("secs", 60) * j.get("jobs", 1) for j in jobs) / CORES / 60.0
        if est_min > cap_min:
            budget_scale = cap_min / est_min
            jobs = [dict(j, secs=max(20, int(j.get("secs", 60) * budget_scale))) for j in jobs]
    outdir = os.path.join(SCRATCH, "%s-%s-%d" % (prop, tier, os.getpid()))
    os.makedirs(outdir, exist_ok=True)
    results = schedule(jobs, tier, seed, outdir)
    known = load_known()

    viol, inconclusive, known_hits = [], [], []
    agg = dict(paths=0, paths_with_obligations=0, queries=0, sat=0, unsat=0, unknown=0, solver_time_s=0.0, obligations_checked=0,
               obligations_by_solver=0, obligations_on_path=0, undecided_obligations=0, undecided_flips=0, witness_validated=0, witness_mismatch=0,
               concretised=0, inexact=0, exact_terms=0, rounded_terms=0, uf_terms=0, rounded_compares=0, uf_compares=0, signed_zero=0,
               div0_paths=0, sqrt_neg_paths=0, unsupported_paths=0, assume_rejected_runs=0, diverged_runs=0, runs=0, pending_work=0, unrealised_flips=0, ieee_boundary_models=0)
    per_h, functions, locations, samples, assumptions = [], set(), set(), [], set()
    agg_x = dict(witnesses=0, processes=0)
    closure = dict(proved=0, failed=0, unknown=0, skipped=0)
    second = dict(asked=0, skipped=0, disagreements=0)
    all_exh = True
    for r in results:
        job = r["job"]
        label = "%s %s" % (job["h"], " ".join("%s=%s" % kv for kv in sorted(job.get("p", {}).items())))
        if r["res"] is None:
            inconclusive.append("%s: engine failed (rc=%s) %s" % (label, r["rc"], r["err"][-300:]))
            all_exh = False
            continue
        res = r["res"]
        rep = res["report"]
        for k in agg:
            agg[k] += rep.get(k, 0)
        functions.update(res.get("functions", []))
        assumptions.update(res.get("assumptions", []))
        locations.update(rep.get("locations", []))
        all_exh &= bool(rep["exhaustive"])
        allow = set(job.get("allow", []))
        per_h.append(dict(harness=job["h"], params=job.get("p", {}), exhaustive=rep["exhaustive"], paths=rep["paths"], queries=rep["queries"],
                          solver_time_s=round(rep["solver_time_s"], 2), wall_s=round(rep["wall_s"], 2), pending_work=rep["pending_work"],
                          obligations=rep["obligations_checked"], unknown=rep["unknown"], var_domains=rep.get("var_domains", []), max_trace_len=rep["max_trace_len"],
                          rounded_terms=rep["rounded_terms"], uf_terms=rep["uf_terms"], shards=rep.get("shards", 1), closure=rep.get("closure", ""),
                          not_covered=dict(undecided_flips=rep.get("undecided_flips", 0), unrealised_flips=rep.get("unrealised_flips", 0), diverged_runs=rep.get("diverged_runs", 0),
                                           ieee_boundary_models=rep.get("ieee_boundary_models", 0), undecided_obligations=rep.get("undecided_obligations", 0))))
        for s in rep.get("samples", [])[:1]:
            samples.append(dict(harness=job["h"], params=job.get("p", {}), inputs=dict(zip([d.split(" in ")[0] for d in rep.get("var_domains", [])], s["inputs"])), branch_decisions=s["trace_len"], obligations=sorted(set(s["obligations"]))[:6]))
        cl = rep.get("closure", "")
        ckey = "proved" if cl.startswith("proved") else ("failed" if cl.startswith("failed") else ("unknown" if cl.startswith("unknown") else "skipped"))
        closure[ckey] += 1
        closure["inputs_on_explored_paths_under_ieee_only"] = closure.get("inputs_on_explored_paths_under_ieee_only", 0) + rep.get("closure_ieee_only", 0)
        if ckey == "failed":
            inconclusive.append("%s: closure check failed - the explorer missed a path: %s" % (label, cl))
        second["asked"] += rep.get("second_opinions", 0)
        second["skipped"] += rep.get("second_opinion_skipped", 0)
        second["disagreements"] += len(rep.get("solver_disagreements", []))
        if rep["witness_mismatch"]:
            inconclusive.append("%s: symbolic shadow and native execution disagree on %d path witnesses: %s" % (label, rep["witness_mismatch"], rep["notes"][:1]))
        if rep["inexact"] and "inexact" not in allow:
            inconclusive.append("%s: %d inexact terms (magnitude bound of the domain exceeded)" % (label, rep["inexact"]))
        if rep["concretised"] and "concretised" not in allow:
            inconclusive.append("%s: %d concretisations of symbolic scalars" % (label, rep["concretised"]))
        if rep["unsupported_paths"]:
            inconclusive.append("%s: unsupported operation on %d paths: %s" % (label, rep["unsupported_paths"], rep["unsupported_msgs"]))
        if rep["solver_errors"]:
            inconclusive.append("%s: solver errors %s" % (label, rep["solver_errors"][:2]))
        if rep["div0_paths"] and "div0" not in allow:
            inconclusive.append("%s: %d paths divide by a symbolic zero (harness must assume it away or expect it)" % (label, rep["div0_paths"]))
        if rep["sqrt_neg_paths"] and "sqrtneg" not in allow:
            inconclusive.append("%s: %d paths take the square root of a negative term" % (label, rep["sqrt_neg_paths"]))
        xp = r.get("xproc")
        if xp:
            agg_x["witnesses"] += xp["witnesses"]
            agg_x["processes"] += xp["processes"]
            for b in xp["mismatches"]:
                if "error" in b:
                    inconclusive.append("%s: cross-process replay failed: %s" % (label, b["error"]))
                else:
                    viol.append((dict(check="outputs bit-identical in a fresh process (RAYON_NUM_THREADS=%d%s)" % (b["threads"], ", inputs offset by SYMX_JITTER=1" if b.get("jitter") else ""), inputs=b["inputs"], input_names=[d.split(" in ")[0] for d in rep.get("var_domains", [])],
                                      message="native outputs %s differ from %s" % (b["got"][:6], b["want"][:6]), found_by="cross-process replay of a path witness"), job))
        for c in rep["unconfirmed_candidates"]:
            inconclusive.append("%s: counterexample candidate for '%s' did not reproduce natively (inputs %s)" % (label, c["check"], c["inputs"]))
        for v in rep["violations"]:
            k = match_known(known, prop, job["h"], job.get("p", {}), v["check"])
            if k:
                known_hits.append((k, v, job))
            else:
                viol.append((v, job))

    # expected findings that did not show up are reported (not an error: the defect may have been fixed)
    rc = 0
    os.makedirs(os.path.join(ROOT, "replays", prop), exist_ok=True)
    seen_known = set()
    for k, v, job in known_hits:
        if k["id"] not in seen_known:
            seen_known.add(k["id"])
            print("KNOWN-FINDING: property=%s %s [%s %s: '%s' fails, e.g. inputs %s]" % (prop, k["what"], job["h"], job.get("p", {}), v["check"], dict(zip(v["input_names"], v["inputs"]))))
    dev_hs = None
    for n, (v, job) in enumerate(viol):
        path = os.path.join(ROOT, "replays", prop, "%s-%d.json" % (job["h"], n))
        json.dump(dict(property=prop, harness=job["h"], params=job.get("p", {}), inputs=v["inputs"], input_names=v["input_names"], check=v["check"], message=v["message"], found_by=v["found_by"]), open(path, "w"), indent=1)
        # the exploration and the first replay ran in the release profile (what users link); the first
        # violations are also replayed in the dev profile (debug assertions, overflow checks)
        dev = ""
        if n < 2 and os.environ.get("VERIF_DEV_REPLAY", "1") == "1":
            if dev_hs is None:
                b = subprocess.run(["cargo", "build", "-p", "hs"], cwd=ROOT, env=env(), capture_output=True, text=True)
                dev_hs = os.path.join(ROOT, "target", "debug", "hs") if b.returncode == 0 else ""
            if dev_hs:
                try:
                    r = subprocess.run([dev_hs, "replay", path], cwd=ROOT, env=env(), capture_output=True, text=True, timeout=600)
                    dev = "; dev profile: " + ("reproduced" if r.returncode == 1 else "NOT reproduced (rc %d)" % r.returncode)
                except Exception as ex:  # noqa
                    dev = "; dev profile: replay failed (%s)" % str(ex)[:80]
        print("VIOLATION property=%s replay=%s" % (prop, path))
        print("  harness %s %s: obligation '%s' fails on %s (%s; reproduced natively in the release profile%s)" % (job["h"], job.get("p", {}), v["check"], dict(zip(v["input_names"], v["inputs"])), v["message"][:200], dev))
        rc = 1
    if inconclusive and rc == 0:
        rc = 2
    for m in inconclusive:
        print("INCONCLUSIVE:", m)

    extra_ev = None
    if extra:
        extra_ev = extra(tier, seed)  # e.g. Kani harnesses of the same property
        if extra_ev.get("violations"):
            for vline in extra_ev["violations"]:
                print(vline)
            rc = 1
        elif extra_ev.get("inconclusive") and rc == 0:
            rc = 2
            for m in extra_ev["inconclusive"]:
                print("INCONCLUSIVE:", m)

    wall = time.time() - t0
    ev = dict(
        property_id=prop, tier=tier, seed=seed, level="model_checking", wall_s=round(wall, 2), violations=len(viol),
        coverage=dict(
            job_time_budget_scale=round(budget_scale, 3),
            states=max(agg["paths"], 1), transitions=max(agg["queries"], 1), traces_validated_against_impl=agg["witness_validated"],
            evaluations=max(agg["queries"], 1), distinct_nontrivial=agg["paths_with_obligations"],
            obligations=agg["obligations_checked"], discharged=agg["obligations_by_solver"] + agg["obligations_on_path"],
            rule="states = distinct feasible control-flow paths of the real code on the symbolic scalar (one path condition each); transitions/evaluations = SMT queries answered (branch flips + obligation queries); distinct_nontrivial = paths on which at least one obligation was checked; traces_validated = path witnesses re-executed with native f64 whose outputs matched the symbolic shadow bit for bit",
            exhaustive=bool(all_exh and not inconclusive and not viol),
            samples=samples[:8],
            engine="symx (symbolic-scalar execution of the compiled real code, z3 %s)" % subprocess.run(["z3", "--version"], capture_output=True, text=True).stdout.strip(),
            functions_encoded=sorted(functions), source_lines_with_symbolic_operations=len(locations), source_files_touched=sorted(set(l.rsplit(":", 1)[0] for l in locations)),
            solver=dict(queries=agg["queries"], sat=agg["sat"], unsat=agg["unsat"], unknown=agg["unknown"], time_s=round(agg["solver_time_s"], 2)),
            obligations_by_solver=agg["obligations_by_solver"], obligations_decided_on_path=agg["obligations_on_path"],
            terms=dict(exact=agg["exact_terms"], rounded=agg["rounded_terms"], uninterpreted=agg["uf_terms"], inexact=agg["inexact"], rounded_compares=agg["rounded_compares"], uf_compares=agg["uf_compares"], signed_zero_forks=agg["signed_zero"], concretised=agg["concretised"]),
            excluded_paths=dict(assume_rejected_runs=agg["assume_rejected_runs"], div_by_zero=agg["div0_paths"], sqrt_negative=agg["sqrt_neg_paths"]),
            not_covered=dict(
                pending_work_items=agg["pending_work"], undecided_flips=agg["undecided_flips"], undecided_obligations=agg["undecided_obligations"],
                unrealised_flips=agg["unrealised_flips"], diverged_runs=agg["diverged_runs"], ieee_boundary_models=agg["ieee_boundary_models"],
                note="what this run did NOT settle (none of it is counted as work above; any non-zero entry makes the harness non-exhaustive, never a pass for that region): "
                     "pending_work_items = branch flips with a model still queued when a job's wall-clock budget ended; undecided_flips = flip queries the solver gave up on within the "
                     "per-query time limit; undecided_obligations = obligation queries it gave up on (not in 'discharged'); ieee_boundary_models = flip models that, evaluated with IEEE "
                     "operations, sit on the other side of a rounded comparison even after four blocked retries; diverged_runs = concrete runs that left the path prefix their model was "
                     "solved for (mostly those boundary models); unrealised_flips = requested paths not reached because of that.  Budgets and per-query limits are wall-clock, so on jobs "
                     "that do not close these counts (and the number of paths reached) vary by a few per cent - the small ones by a few units - between runs with the same seed; per "
                     "harness they are listed under harnesses[].not_covered."),
            harnesses=per_h, known_findings_seen=sorted(seen_known), inconclusive=inconclusive[:10],
            second_solver=dict(second, solver=SOLVER2 or "none", note="every path whose obligations the primary solver (z3 4.8.12, incremental within one run) reports as proved is re-asked, self-contained and in a fresh context, to a second solver (z3 5.1); a model from the second solver is treated as a counterexample candidate and replayed natively; skipped for path conditions with sqrt / uninterpreted terms"),
            closure_check=dict(closure, note="per harness run that closed: fresh solver proves domain /\\ not(pc_1 \\/ ... \\/ pc_n) unsat, i.e. every input of the domain follows an explored path; skipped for runs that did not close, whose path conditions mention sqrt / uninterpreted terms, or whose input variables differ between paths; a counter-model of that query is re-run on the real code and only counts as a missed path if its trace is not one of the explored ones (with rounded terms in a path condition exact arithmetic and IEEE can put an input on different sides of a decision): inputs_on_explored_paths_under_ieee_only counts those"),
            cross_process_replays=dict(path_witnesses=agg_x["witnesses"], fresh_processes=agg_x["processes"], note="native f64 re-execution of path witnesses in fresh processes (new SipHash keys) under rayon pools of 1, 8 and 3 threads; outputs compared bit for bit with the exploration's; then again (pools 1, 1, 8, 3) with a fixed non-dyadic offset on every input (SYMX_JITTER=1), those processes compared with each other"),
        ),
        assumptions=sorted(assumptions) + ["bounded: shapes, input grid and budgets as listed per harness; outside them nothing is claimed",
                                           "exact terms are proved < 2^53 by interval analysis so real arithmetic = IEEE f64 on the grid; rounded/uninterpreted terms are counted above",
                                           "rayon pool of one thread; z3 answers trusted"],
    )
    if extra_ev:
        ev["coverage"]["kani"] = extra_ev.get("coverage", {})
        if agg["paths"] == 0:
            # Kani-only property: nothing came from Engine S
            ev["coverage"]["states"] = 0
            ev["coverage"]["transitions"] = 0
            ev["coverage"]["evaluations"] = max(extra_ev.get("obligations", 0), 1)
            ev["coverage"]["distinct_nontrivial"] = extra_ev.get("states", 0)
            ev["coverage"]["engine"] = extra_ev.get("coverage", {}).get("engine", "kani")
            ev["coverage"]["rule"] = extra_ev.get("coverage", {}).get("rule", ev["coverage"]["rule"])
            ev["coverage"]["exhaustive"] = not extra_ev.get("violations") and not extra_ev.get("inconclusive")
        for h in extra_ev.get("coverage", {}).get("harnesses", [])[:6]:
            ev["coverage"]["samples"].append(dict(kani_harness=h.get("name"), builder=h.get("builder"), documented_ranges=h.get("documented_ranges"), verdict=h.get("verdict"), checks=h.get("checks"), covers=h.get("covers")))
        ev["coverage"]["states"] += extra_ev.get("states", 0)
        ev["coverage"]["transitions"] += extra_ev.get("transitions", 0)
        ev["coverage"]["obligations"] += extra_ev.get("obligations", 0)
        ev["coverage"]["discharged"] += extra_ev.get("discharged", 0)
        ev["coverage"]["functions_encoded"] = sorted(set(ev["coverage"]["functions_encoded"]) | set(extra_ev.get("functions", [])))
    os.makedirs(os.path.join(ROOT, "evidence"), exist_ok=True)
    json.dump(ev, open(os.path.join(ROOT, "evidence", prop + ".json"), "w"), indent=1)
    shutil.rmtree(outdir, ignore_errors=True)
    print("%s %s: %d paths, %d queries (%.1fs solver), %d obligations, exhaustive=%s, wall %.1fs -> exit %d" % (prop, tier, agg["paths"], agg["queries"], agg["solver_time_s"], agg["obligations_checked"], ev["coverage"]["exhaustive"], wall, rc))
    sys.exit(rc)


if __name__ == "__main__":
    main()

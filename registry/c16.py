from registry import job

STD, NO_MEAN, NO_STD, NEITHER, MINMAX, MAXABS = 0, 1, 2, 3, 4, 5
L1, L2, LMAX = 1, 2, 3

# obligation groups of c16.linear (the engine sends all obligations of a path in one query; one job per group
# keeps the non-linear ones decidable):
#   part 0: 1 offset, 2 scale of a constant column, 3 scale * spread == 1, 4 std^2 == Var (standard only),
#           5 transform == affine map, 6 unseen row        (+ metadata / identical-row checks, decided on the path)
#   part 1: 11 mean, 12 spread / unit-interval minimum / max-abs, 13 constant column / unit-interval maximum,
#           14 min-max output == min + u (max - min)
P0 = {STD: (1, 2, 3, 4, 5, 6), NO_MEAN: (1, 2, 3, 4, 5, 6), NO_STD: (1, 2, 5, 6), NEITHER: (1, 2, 5, 6), MINMAX: (1, 2, 3, 5, 6), MAXABS: (1, 2, 3, 5, 6)}
P1 = {STD: (11, 12, 13), NO_MEAN: (11, 12, 13), NO_STD: (11, 12), NEITHER: (11, 12), MINMAX: (12, 13, 14), MAXABS: (12,)}


QTO = 20000  # per-query timeout (ms): single non-linear obligations take up to a few seconds under load


def linear(n, p, method, split, secs=60, jobs=1, **kw):
    """split: 'part' = one job per part, 'ob' = one job per obligation group"""
    out = []
    kw = dict(kw, qto=QTO)
    if split == "part":
        out.append(job("c16.linear", secs=secs, jobs=jobs, n=n, p=p, method=method, part=0, **kw))
        out.append(job("c16.linear", secs=secs, jobs=jobs, n=n, p=p, method=method, part=1, **kw))
    else:
        for g in P0[method]:
            out.append(job("c16.linear", secs=secs, jobs=jobs, n=n, p=p, method=method, part=0, ob=g, **kw))
        for g in P1[method]:
            out.append(job("c16.linear", secs=secs, jobs=jobs, n=n, p=p, method=method, part=1, ob=g, **kw))
    return out


quick = [job("c16.errors", secs=10)]
for method in (STD, NO_MEAN, NO_STD, NEITHER, MAXABS):
    for (n, p) in ((1, 1), (2, 1), (2, 2)):
        quick += linear(n, p, method, "part")
    for (n, p) in ((3, 1), (4, 1), (3, 2)):
        quick += linear(n, p, method, "ob")
# min-max: symbolic range (incl. min == max and the rejected min > max); paths = orderings of every column
for (n, p) in ((1, 1), (2, 1), (3, 1), (2, 2)):
    quick += linear(n, p, MINMAX, "part")
quick += linear(4, 1, MINMAX, "ob", secs=120, jobs=2)
quick += linear(3, 2, MINMAX, "ob", secs=120, jobs=2, range=1)
# norm scaler: ob 1 unit norm directly, 2 output * N == input, 3 N is the norm of the input row
# (2 and 3 give the unit norm and the direction for every shape; the direct l2 form with three or more
# features is beyond z3 and is not run)
def norm_jobs(n, p, norm, secs=60):
    groups = (2, 3) if ((norm == L2 and p >= 3) or p >= 4) else (1, 2, 3)
    return [job("c16.norm", secs=secs, qto=QTO, n=n, p=p, norm=norm, ob=g) for g in groups]


for norm in (L1, L2, LMAX):
    quick.append(job("c16.norm", secs=60, qto=QTO, n=1, p=1, norm=norm))
    for (n, p) in ((2, 2), (3, 2), (2, 3)):
        quick += norm_jobs(n, p, norm)

# rows of very small and very large norm (entries = integers times 2^scale, still exact)
for norm in (L1, L2, LMAX):
    for scale in (-60, -30, 20):
        quick.append(job("c16.norm", secs=60, qto=QTO, n=1, p=2, norm=norm, scale=scale, B=8))
        quick.append(job("c16.norm", secs=60, qto=QTO, n=2, p=1, norm=norm, scale=scale, B=8))

# entries whose squares under- or overflow (2^-1030, 2^520): the norms themselves are representable
# ("inexact": subnormal / huge products are outside the exactness analysis; obligations carry tolerances)
for norm in (L1, L2, LMAX):
    for scale in (-1030, 520):
        quick.append(job("c16.norm", secs=60, qto=QTO, allow=("inexact",), n=1, p=2, norm=norm, scale=scale, B=8))
        quick.append(job("c16.norm", secs=60, qto=QTO, allow=("inexact",), n=2, p=1, norm=norm, scale=scale, B=8))

# columns far from the origin (integers shifted by 2^27 / 2^40): postconditions recomputed from the outputs
for method in (STD, MINMAX, MAXABS):
    quick.append(job("c16.far_from_origin", secs=60, qto=QTO, allow=("inexact",), n=3, method=method, offs=27))
    quick.append(job("c16.far_from_origin", secs=90, qto=QTO, allow=("inexact",), n=4, method=method, offs=40))

# recorded defect role: an all-zero row is divided by its zero norm (NaN) -- "keeps all output finite" fails
defects = [job("c16.norm", secs=30, n=2, p=2, norm=norm, zero=0) for norm in (L1, L2, LMAX)]

thorough = list(quick)
# (measured: at n = 5 z3 no longer relates ndarray's running-mean variance to the moment sums, and the direct
# max-abs postcondition and the cross-multiplied unit-variance form are undecided on some paths at n = 4, p = 2;
# those instances are not registered)
for method in (STD, NO_MEAN, NO_STD, NEITHER, MAXABS):
    thorough += [j for j in linear(4, 2, method, "ob", secs=300) if not (method in (MAXABS, STD, NO_MEAN) and j["p"].get("ob") == 12)]
for method in (NO_STD, NEITHER):
    thorough += linear(5, 1, method, "ob", secs=300)
thorough += linear(3, 2, MINMAX, "ob", secs=600, jobs=4)
thorough += linear(4, 2, MINMAX, "ob", secs=900, jobs=8, range=1)
thorough += linear(5, 1, MINMAX, "ob", secs=600, jobs=4)
for norm in (L1, L2, LMAX):
    for (n, p) in ((4, 2), (3, 3), (2, 4)):
        thorough += norm_jobs(n, p, norm, secs=300)

quick += defects
thorough += defects

REG = {"C16": {"quick": quick, "thorough": thorough}}

"""Registry of harness instances per property and tier.  Each job: h (harness), p (parameters),
secs (wall budget), jobs (processes the exploration is sharded over), allow (events that do not
make the run inconclusive)."""
import importlib, pkgutil, os

REG = {}
EXTRA = {}


def job(h, secs=60, jobs=1, allow=(), paths=1000000, qto=None, xproc=0, probe=False, obs_reltol=None, **p):
    d = dict(h=h, p=p, secs=secs, jobs=jobs, allow=list(allow), paths=paths)
    if obs_reltol:
        d["obs_reltol"] = obs_reltol
    if xproc:
        d["xproc"] = xproc
    if probe:
        d["probe"] = True
    if qto:
        d["qto"] = qto
    return d


for m in pkgutil.iter_modules([os.path.dirname(__file__)]):
    try:
        mod = importlib.import_module("registry." + m.name)
    except Exception as ex:  # a broken registry file must not take the other properties down
        import sys
        print("registry: cannot load %s: %s" % (m.name, ex), file=sys.stderr)
        continue
    REG.update(getattr(mod, "REG", {}))
    EXTRA.update(getattr(mod, "EXTRA", {}))

from registry import job

KM_DEFAULT, KM_L1, TREE, GNB, MNB, ENET, OLS, SCALER, SVM = range(9)
quick = [
    # default k-means builder (seed 42, L2): the convergence test goes through L2Dist::distance, which
    # concretises; both fits of one run see the same shadow value, so identity between fits is unaffected
    job("c20.twice", xproc=40, secs=120, jobs=4, allow=("concretised",), model=KM_DEFAULT, n=3, d=1, reps=3),
    job("c20.twice", xproc=40, secs=120, jobs=4, model=KM_L1, n=3, d=1, reps=3),
]
for pattern in (0b0110, 0b0011, 0b0101, 0b1110):
    quick.append(job("c20.twice", xproc=40, secs=60, model=TREE, n=3, d=1, reps=6, pattern=pattern))
    quick.append(job("c20.twice", xproc=40, secs=90, jobs=2, model=TREE, n=4, d=1, reps=6, pattern=pattern))
    quick.append(job("c20.twice", xproc=40, secs=60, model=MNB, n=3, d=2, reps=6, pattern=pattern))
quick.append(job("c20.twice", xproc=40, secs=60, model=SCALER, n=3, d=2, reps=3))
quick.append(job("c20.twice", xproc=40, secs=60, allow=("div0",), model=OLS, n=3, d=1, reps=3))
quick.append(job("c20.twice", xproc=40, secs=60, allow=("inexact",), model=ENET, n=2, d=1, reps=2, qto=2000))

# k-means on 600-2100 rows (the only estimator with rayon-parallel loops): one symbolic row, witnesses replayed under
# rayon pools of 1, 8 and 3 threads, with and without the non-dyadic input offsets
for metric in (3, 4):
    quick.append(job("c09.lloyd_wide", xproc=8, secs=60, allow=("inexact",), n=600, k=2, d=1, sym=1, m=2, metric=metric))
    quick.append(job("c09.lloyd_wide", xproc=8, secs=90, allow=("inexact",), n=2100, k=3, d=2, sym=1, metric=metric))

thorough = list(quick)
for pattern in (0b0110, 0b0011, 0b0101, 0b01110, 0b10010):
    thorough.append(job("c20.twice", xproc=40, secs=600, jobs=8, model=TREE, n=5, d=1, reps=8, pattern=pattern))
    thorough.append(job("c20.twice", xproc=40, secs=600, jobs=8, model=TREE, n=4, d=2, reps=8, pattern=pattern))
    thorough.append(job("c20.twice", xproc=40, secs=300, jobs=2, allow=("inexact",), model=GNB, n=3, d=1, reps=4, pattern=pattern, qto=3000))
thorough.append(job("c20.twice", xproc=40, secs=600, jobs=8, model=KM_L1, n=4, d=1, reps=3))
thorough.append(job("c20.twice", xproc=40, secs=300, jobs=4, model=ENET, n=3, d=1, reps=3, qto=3000))
thorough.append(job("c20.twice", xproc=40, secs=300, jobs=4, model=SVM, n=3, d=1, reps=3, qto=3000))

# tree-specific reproducibility harnesses (hs/src/c14.rs): tied leaves, impurity bits
try:
    from registry.c20_tree import JOBS_C20_TREE
    quick += JOBS_C20_TREE["quick"]
    thorough += JOBS_C20_TREE["thorough"]
except Exception as ex:  # noqa
    import sys
    print("registry: c20_tree not merged: %s" % ex, file=sys.stderr)

REG = {"C20": {"quick": quick, "thorough": thorough}}

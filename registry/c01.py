from registry import job

# C01: every shape is one job (contents are symbolic tags that linfa only moves: one path per shape,
# k*m paths when the solver picks the failing (fold, model)).
# nt = 0: Ix1 targets; nt = c > 0: Ix2 targets with c columns.  view = 1: read-only view (fold) /
# mutable view (iter_fold, cross_validate).


def shapes(nmax):
    return [(n, k) for n in range(2, nmax + 1) for k in range(2, n + 1)]


def jobs_for(n, k, deep):
    js = []
    # fold: owned / view, Ix1 / single-column Ix2
    js.append(job("c01.fold", secs=30, n=n, k=k, nf=1, nt=0, view=0))
    js.append(job("c01.fold", secs=30, n=n, k=k, nf=2, nt=0, view=1))
    js.append(job("c01.fold", secs=30, n=n, k=k, nf=2, nt=1, view=0))
    js.append(job("c01.fold", secs=30, n=n, k=k, nf=1, nt=1, view=1))
    # iter_fold (+ sample_chunks): owned / mutable view, Ix1 / Ix2 with 1 and 2 columns
    js.append(job("c01.iter_fold", secs=30, n=n, k=k, nf=1, nt=0, view=0))
    js.append(job("c01.iter_fold", secs=30, n=n, k=k, nf=2, nt=0, view=1))
    js.append(job("c01.iter_fold", secs=30, n=n, k=k, nf=2, nt=2, view=0))
    js.append(job("c01.iter_fold", secs=30, n=n, k=k, nf=1, nt=2, view=1))
    js.append(job("c01.iter_fold", secs=30, n=n, k=k, nf=1, nt=1, view=0))
    # cross validation: 1 and 2 models, Ix1 / Ix2 (2 columns), owned / mutable view
    js.append(job("c01.cv", secs=60, n=n, k=k, nf=1, nt=0, m=2, view=0))
    js.append(job("c01.cv", secs=60, n=n, k=k, nf=2, nt=2, m=2, view=1))
    js.append(job("c01.cv", secs=60, n=n, k=k, nf=1, nt=2, m=1, view=0))
    js.append(job("c01.cv", secs=60, n=n, k=k, nf=2, nt=0, m=1, view=1))
    js.append(job("c01.cv_single", secs=60, n=n, k=k, nf=1, m=2))
    # injected failures: the solver picks the failing (fold, model)
    js.append(job("c01.cv_err", secs=120, n=n, k=k, nf=1, nt=0, m=2, view=0, fail=1))
    js.append(job("c01.cv_err", secs=120, n=n, k=k, nf=1, nt=2, m=2, view=1, fail=2))
    if deep or n <= 5:
        js.append(job("c01.cv_err", secs=300, n=n, k=k, nf=1, nt=0, m=2, view=1, fail=3))
        js.append(job("c01.cv_err", secs=120, n=n, k=k, nf=2, nt=2, m=3, view=0, fail=1))
        js.append(job("c01.cv_err", secs=120, n=n, k=k, nf=2, nt=0, m=1, view=0, fail=2))
    return js


# fold() on multi-column targets (see report: fold_size is computed from targets.len(), i.e. n*nt)
fold_mt_quick = [job("c01.fold", secs=30, n=n, k=k, nf=1, nt=2, view=v) for (n, k, v) in ((4, 2, 0), (4, 4, 1), (5, 3, 0), (6, 3, 1))]

quick = [job("c01.iter_fold_panics", secs=30, n=4, nf=2), job("c01.iter_fold_panics", secs=30, n=2, nf=2)]
for (n, k) in shapes(7):
    quick += jobs_for(n, k, False)
quick += fold_mt_quick

thorough = [job("c01.iter_fold_panics", secs=30, n=4, nf=2), job("c01.iter_fold_panics", secs=30, n=2, nf=2), job("c01.iter_fold_panics", secs=30, n=12, nf=2)]
for (n, k) in shapes(12):
    thorough += jobs_for(n, k, True)
# (every shape fails the same way; a sample of shapes is enough to keep the finding visible)
thorough += fold_mt_quick + [job("c01.fold", secs=30, n=n, k=k, nf=2, nt=2, view=0) for (n, k) in ((2, 2), (7, 2), (9, 4), (12, 5), (12, 12))] + [job("c01.fold", secs=30, n=6, k=2, nf=1, nt=3, view=1)]

REG = {"C01": {"quick": quick, "thorough": thorough}}

from registry import job

quick, thorough = [], []
for data in range(4):
    for alpha in range(4):
        for icpt in (0, 1):
            if alpha == 0 and data in (1, 3):
                continue  # alpha = 0 is claimed on non-separable data only; the separability test is 1-D
            quick.append(job("c12.binary", secs=120, n=4, data=data, alpha=alpha, intercept=icpt))
            thorough.append(job("c12.binary", secs=900, jobs=4, n=6, data=data, alpha=alpha, intercept=icpt))
            if alpha > 0:
                # badly scaled features (data=3) converge slowly: the iteration budget must be large enough
                # (with 500..5000 iterations L-BFGS stops at its budget and returns a non-stationary best point)
                iters = 200000 if data == 3 else 5000
                quick.append(job("c12.multinomial", secs=240, n=4, data=data, alpha=alpha, intercept=icpt, iters=iters))
                thorough.append(job("c12.multinomial", secs=1800, jobs=4, n=6, data=data, alpha=alpha, intercept=icpt, labels=4, iters=iters))
quick.append(job("c12.binary", secs=120, n=5, data=0, alpha=0, intercept=1))
quick.append(job("c12.binary", secs=120, n=5, data=1, alpha=2, intercept=1))
quick.append(job("c12.multinomial", secs=120, n=5, data=1, alpha=2, intercept=1, iters=5000))
quick.append(job("c12.tweedie", secs=300, n=6))
quick.append(job("c12.tweedie", secs=300, n=7))
thorough = quick + thorough

REG = {"C12": {"quick": quick, "thorough": thorough}}

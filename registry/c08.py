from registry import job

BALL, KD, LIN, ALL = 0, 1, 2, -1
L1, L2, LINF = 1, 2, 3
# c08.optics / c08.optics_contract obligation groups (bit mask `part`)
STRUCT, CORE, REACH, ORDER = 1, 2, 4, 8
ROW, REV, ASC, DESC, PERM = 0, 1, 2, 3, 4  # answer order of the mock index

quick = []

# ---- DBSCAN, integration layer -----------------------------------------------------------------
# all three real indices in one run (+ index independence), every min_points 2..n+1
for mp in (2, 3, 4):
    quick.append(job("c08.dbscan", secs=60, n=3, d=1, mp=mp, kind=ALL, metric=L1))
quick.append(job("c08.dbscan", secs=60, n=3, d=1, mp=2, kind=ALL, metric=LINF))
quick.append(job("c08.dbscan", secs=60, n=1, d=1, mp=2, kind=ALL, metric=L1))
quick.append(job("c08.dbscan", secs=60, n=2, d=1, mp=2, kind=ALL, metric=L1))
quick.append(job("c08.dbscan", secs=60, n=2, d=2, mp=2, kind=ALL, metric=L1))
quick.append(job("c08.dbscan", secs=60, n=2, d=2, mp=3, kind=ALL, metric=LINF))
# tolerance never / at least once exactly equal to an inter-point distance (ties=1 above covers both)
for ties in (0, 2):
    quick.append(job("c08.dbscan", secs=60, n=3, d=1, mp=2, kind=ALL, metric=L1, ties=ties))
    quick.append(job("c08.dbscan", secs=60, n=3, d=1, mp=3, kind=ALL, metric=L1, ties=ties))
# n = 4, 1-D, one index per run
for mp in (2, 3, 4, 5):
    quick.append(job("c08.dbscan", secs=60, n=4, d=1, mp=mp, kind=LIN, metric=L1))
quick.append(job("c08.dbscan", secs=120, jobs=8, n=4, d=1, mp=3, kind=KD, metric=L1))
quick.append(job("c08.dbscan", secs=180, jobs=8, n=4, d=1, mp=2, kind=BALL, metric=L1))
# n = 5, 1-D, linear scan
quick.append(job("c08.dbscan", secs=120, jobs=4, n=5, d=1, mp=3, kind=LIN, metric=L1))
# 2-D
for mp in (2, 3):
    quick.append(job("c08.dbscan", secs=60, n=3, d=2, mp=mp, kind=LIN, metric=L1))
quick.append(job("c08.dbscan", secs=60, n=3, d=2, mp=2, kind=LIN, metric=LINF))
quick.append(job("c08.dbscan", secs=120, jobs=4, n=3, d=2, mp=2, kind=KD, metric=L1))
# (ball tree at n = 3: from_batch's single leaf is centred on sum/3, a rounded term; leaf=2 keeps the arithmetic exact)
quick.append(job("c08.dbscan", secs=180, jobs=8, n=3, d=2, mp=3, kind=BALL, metric=L1, leaf=2))
# L2 through rdistance (linear scan, k-d tree); the ball tree's bound concretises (l2_dist) -> not run
quick.append(job("c08.dbscan", secs=60, n=3, d=1, mp=2, kind=LIN, metric=L2))
quick.append(job("c08.dbscan", secs=60, qto=20000, n=3, d=2, mp=2, kind=LIN, metric=L2, B=64))
quick.append(job("c08.dbscan", secs=120, qto=30000, n=4, d=1, mp=3, kind=LIN, metric=L2, B=64))
quick.append(job("c08.dbscan", secs=120, n=3, d=1, mp=2, kind=KD, metric=L2, B=16, qto=20000))
# real tree structure (leaf size 1 instead of from_batch's 16)
quick.append(job("c08.dbscan", secs=120, jobs=2, n=3, d=1, mp=2, kind=KD, metric=L1, leaf=1))
quick.append(job("c08.dbscan", secs=120, jobs=2, n=3, d=1, mp=2, kind=BALL, metric=L1, leaf=1))

# ---- DBSCAN, contract layer (symbolic metric table, mock index, answer order) -------------------
for order in (ROW, REV, ASC, DESC, PERM):
    quick.append(job("c08.dbscan_contract", secs=60, n=3, mp=2, order=order))
for mp in (2, 3, 4):
    quick.append(job("c08.dbscan_contract", secs=120, jobs=2, n=4, mp=mp, order=PERM))
quick.append(job("c08.dbscan_contract", secs=120, jobs=4, qto=30000, n=4, mp=3, order=ASC))
quick.append(job("c08.dbscan_contract", secs=120, jobs=4, qto=30000, n=4, mp=3, order=DESC))
quick.append(job("c08.dbscan_contract", secs=60, n=4, mp=3, order=REV, tri=0))
for order in (ROW, REV):
    quick.append(job("c08.dbscan_contract", secs=120, jobs=2, n=5, mp=3, order=order))

# ---- OPTICS, integration layer ---------------------------------------------------------------------
# k-d tree / ball tree: structure + core distance + reachability formula; linear scan: structure + reachability
# (its core-distance value is finding F1, below)
for mp in (2, 3, 4):
    quick.append(job("c08.optics", secs=60, n=3, d=1, mp=mp, kind=KD, metric=L1, part=STRUCT | CORE | REACH))
    quick.append(job("c08.optics", secs=60, n=3, d=1, mp=mp, kind=BALL, metric=L1, part=STRUCT | CORE | REACH))
    quick.append(job("c08.optics", secs=60, n=3, d=1, mp=mp, kind=LIN, metric=L1, part=STRUCT | REACH))
quick.append(job("c08.optics", secs=60, n=3, d=1, mp=2, kind=KD, metric=LINF, part=STRUCT | CORE | REACH))
quick.append(job("c08.optics", secs=60, n=2, d=2, mp=2, kind=KD, metric=L1, part=STRUCT | CORE | REACH))
quick.append(job("c08.optics", secs=60, n=2, d=2, mp=2, kind=BALL, metric=LINF, part=STRUCT | CORE | REACH))
quick.append(job("c08.optics", secs=60, n=3, d=1, mp=2, kind=KD, metric=L1, part=STRUCT | CORE | REACH, ties=0))
quick.append(job("c08.optics", secs=60, n=3, d=1, mp=2, kind=KD, metric=L1, part=STRUCT | CORE | REACH, ties=2))
quick.append(job("c08.optics", secs=120, jobs=4, n=4, d=1, mp=3, kind=LIN, metric=L1, part=STRUCT | REACH))
quick.append(job("c08.optics", secs=240, jobs=16, n=4, d=1, mp=2, kind=KD, metric=L1, part=STRUCT | CORE | REACH))
# core distances do not depend on the index: k-d tree vs ball tree
for mp in (2, 3):
    quick.append(job("c08.optics_index", secs=60, n=3, d=1, mp=mp, pair=0, metric=L1))

# ---- OPTICS, contract layer --------------------------------------------------------------------------
for mp in (2, 3):
    quick.append(job("c08.optics_contract", secs=60, n=3, mp=mp, order=ASC, part=STRUCT | CORE | REACH))
    for order in (ROW, REV, DESC, PERM):
        quick.append(job("c08.optics_contract", secs=60, n=3, mp=mp, order=order, part=STRUCT | REACH))
quick.append(job("c08.optics_contract", secs=120, jobs=4, n=4, mp=2, order=ASC, part=STRUCT | CORE | REACH))
quick.append(job("c08.optics_contract", secs=120, jobs=4, n=4, mp=3, order=REV, part=STRUCT | REACH))

# ---- zero features --------------------------------------------------------------------------------------
for kind in (BALL, KD, LIN):
    quick.append(job("c08.zero_features", secs=30, n=3, mp=2, kind=kind, part=1))
    quick.append(job("c08.zero_features", secs=30, n=3, mp=4, kind=kind, part=1))

# ---- obligations that FAIL on the unchanged tree: one job per (finding, role); the explorer stops at the
#      first violation, so these are cheap.  Suggested known_findings.json roles are (harness, params, check):
# F1  OPTICS core distance assumes a distance-sorted range answer (set_core_distance: neighbors.get(min_points-1));
#     the linear scan answers in row order
findings = [
    job("c08.optics", secs=60, n=3, d=1, mp=2, kind=LIN, metric=L1, part=CORE),
    job("c08.optics_index", secs=60, n=3, d=1, mp=2, pair=1, metric=L1),
    job("c08.optics_index", secs=60, n=3, d=1, mp=2, pair=2, metric=L1),
    job("c08.optics_contract", secs=60, n=3, mp=2, order=REV, part=CORE),
    job("c08.optics_contract", secs=60, n=3, mp=2, order=PERM, part=CORE),
    # F2  the sample that starts an expansion is queued with reachability = its own core distance and may be listed
    #     after neighbours whose reachability was derived from it
    job("c08.optics", secs=60, n=3, d=1, mp=2, kind=KD, metric=L1, part=ORDER),
    job("c08.optics", secs=60, n=3, d=1, mp=2, kind=BALL, metric=L1, part=ORDER),
    job("c08.optics", secs=60, n=3, d=1, mp=2, kind=LIN, metric=L1, part=ORDER),
    job("c08.optics_contract", secs=60, n=3, mp=2, order=ASC, part=ORDER),
    # F3  zero features: n >= min_points coincident samples are all reported as noise / without core distance
    job("c08.zero_features", secs=30, n=3, mp=2, kind=KD, part=2),
    job("c08.zero_features", secs=30, n=3, mp=2, kind=KD, part=4),
]
quick += findings

# =======================================================================================================
thorough = list(quick)
# DBSCAN n = 4, 1-D: every index, every min_points, L1 and Linf
for mp in (2, 3, 4, 5):
    for kind in (KD, BALL):
        thorough.append(job("c08.dbscan", secs=600, jobs=8, qto=60000, n=4, d=1, mp=mp, kind=kind, metric=L1))
    thorough.append(job("c08.dbscan", secs=600, jobs=8, qto=60000, n=4, d=1, mp=mp, kind=KD, metric=LINF))
    thorough.append(job("c08.dbscan", secs=120, n=4, d=1, mp=mp, kind=LIN, metric=LINF))
# DBSCAN n = 5, 1-D, linear scan, every min_points
for mp in (2, 3, 4, 5, 6):
    thorough.append(job("c08.dbscan", secs=300, jobs=4, n=5, d=1, mp=mp, kind=LIN, metric=L1))
thorough.append(job("c08.dbscan", secs=300, jobs=4, n=5, d=1, mp=3, kind=LIN, metric=L1, ties=0))
thorough.append(job("c08.dbscan", secs=300, jobs=4, n=5, d=1, mp=3, kind=LIN, metric=L1, ties=2))
# (L2 in 2-D at n = 4 and L2 with the k-d tree in 2-D: z3 times out on the non-linear path conditions -> not registered)
# DBSCAN 2-D
for mp in (2, 3, 4):
    thorough.append(job("c08.dbscan", secs=300, jobs=4, n=3, d=2, mp=mp, kind=KD, metric=L1))
    thorough.append(job("c08.dbscan", secs=600, jobs=8, qto=60000, n=3, d=2, mp=mp, kind=BALL, metric=L1, leaf=2))
    thorough.append(job("c08.dbscan", secs=900, jobs=16, qto=60000, n=3, d=2, mp=mp, kind=KD, metric=LINF))
for mp in (2, 3, 4, 5):
    thorough.append(job("c08.dbscan", secs=600, jobs=8, n=4, d=2, mp=mp, kind=LIN, metric=L1))
# real trees (leaf size 1) in 2-D at n = 3 and in 1-D at n = 4
thorough.append(job("c08.dbscan", secs=900, jobs=16, qto=60000, n=3, d=2, mp=2, kind=KD, metric=L1, leaf=1))
thorough.append(job("c08.dbscan", secs=900, jobs=16, qto=60000, n=3, d=2, mp=2, kind=BALL, metric=L1, leaf=1))
# all three indices in one run at n = 4 (index independence stated inside one path)
thorough.append(job("c08.dbscan", secs=900, jobs=16, qto=60000, n=4, d=1, mp=2, kind=ALL, metric=L1))
thorough.append(job("c08.dbscan", secs=900, jobs=16, qto=60000, n=4, d=1, mp=3, kind=KD, metric=L1, leaf=1))
thorough.append(job("c08.dbscan", secs=900, jobs=16, qto=60000, n=4, d=1, mp=3, kind=BALL, metric=L1, leaf=2))
# DBSCAN contract layer: every answer order at n = 4, solver-chosen permutation at n = 5, row orders at n = 6
for mp in (2, 3, 4, 5):
    for order in (ASC, DESC):
        thorough.append(job("c08.dbscan_contract", secs=300, jobs=4, qto=60000, n=4, mp=mp, order=order))
    thorough.append(job("c08.dbscan_contract", secs=300, jobs=2, n=4, mp=mp, order=PERM))
thorough.append(job("c08.dbscan_contract", secs=1200, jobs=16, n=5, mp=3, order=PERM))
for mp in (2, 3, 4):
    thorough.append(job("c08.dbscan_contract", secs=600, jobs=8, n=6, mp=mp, order=REV))
# OPTICS n = 4, 1-D, every index and min_points
for mp in (2, 3, 4, 5):
    thorough.append(job("c08.optics", secs=900, jobs=16, qto=60000, n=4, d=1, mp=mp, kind=KD, metric=L1, part=STRUCT | CORE | REACH))
    thorough.append(job("c08.optics", secs=900, jobs=16, qto=60000, n=4, d=1, mp=mp, kind=BALL, metric=L1, part=STRUCT | CORE | REACH))
    thorough.append(job("c08.optics", secs=300, jobs=4, n=4, d=1, mp=mp, kind=LIN, metric=L1, part=STRUCT | REACH))
thorough.append(job("c08.optics", secs=900, jobs=16, qto=60000, n=3, d=2, mp=2, kind=KD, metric=L1, part=STRUCT | CORE | REACH))
# OPTICS n = 5, 1-D, linear scan (13.7k paths; the sorted-answer indices do not close at n = 5)
thorough.append(job("c08.optics", secs=2400, jobs=16, qto=60000, n=5, d=1, mp=3, kind=LIN, metric=L1, part=STRUCT | REACH))
thorough.append(job("c08.optics_index", secs=900, jobs=16, qto=60000, n=4, d=1, mp=2, pair=0, metric=L1))
# OPTICS contract layer
for mp in (2, 3, 4):
    thorough.append(job("c08.optics_contract", secs=600, jobs=8, n=4, mp=mp, order=ASC, part=STRUCT | CORE | REACH))
    for order in (ROW, DESC, PERM):
        thorough.append(job("c08.optics_contract", secs=600, jobs=8, n=4, mp=mp, order=order, part=STRUCT | REACH))


# ---- wide / shallow instances: one or two symbolic points among fixed ones (code paths selected by the number of
#      samples or by the size of a neighbourhood), fixed tolerance
wide = []
for kind in (0, 1, 2):
    wide.append(job("c08.optics", secs=60, n=12, sym=1, mp=3, tolc=100, kind=kind, B=16))
    wide.append(job("c08.optics", secs=60, n=14, sym=1, mp=2, tolc=40, kind=kind, B=16))
    wide.append(job("c08.dbscan", secs=60, n=18, sym=1, mp=3, tolc=3, kind=kind, B=24))
    wide.append(job("c08.dbscan", secs=60, n=20, sym=1, mp=3, tolc=6, kind=kind, B=24))
    wide.append(job("c08.dbscan", secs=60, n=24, sym=1, mp=4, tolc=8, kind=kind, B=32))
wide.append(job("c08.optics", secs=90, n=12, sym=2, mp=2, tolc=9, kind=2, B=16))
wide.append(job("c08.optics", secs=90, n=11, sym=2, mp=3, tolc=100, kind=1, B=16))
wide.append(job("c08.dbscan", secs=90, n=18, sym=2, mp=3, tolc=4, kind=2, B=24))
wide.append(job("c08.dbscan", secs=60, n=33, sym=1, mp=3, tolc=5, kind=-1, B=40))
quick += wide
thorough += wide
# ball tree jobs: see registry/c07.py (the sphere bound carries a slack of a few ulps since /repo d8cfbed)
for _j in quick + thorough:
    _uses_ball = (_j["h"] == "c08.dbscan" and _j["p"].get("kind", -1) in (0, -1)) or (_j["h"] == "c08.optics" and _j["p"].get("kind", 1) == 0) or (_j["h"] == "c08.optics_index" and _j["p"].get("pair", 0) in (0, 2))
    if _uses_ball and "inexact" not in _j["allow"]:
        _j["allow"].append("inexact")
REG = {"C08": {"quick": quick, "thorough": thorough}}

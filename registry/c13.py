from registry import job

# obligation groups (bit mask `only`)
# c13.csvc / c13.nusvc: 1 box, 2 equality, 4 KKT, 8 decision value + label, 16 nsupport, 32 no panic, 64 finite rho
BOX, EQ, KKT, DEC, NSUP, NOPANIC, FINITE = 1, 2, 4, 8, 16, 32, 64
ALL = 127
# c13.swap: 1|2|4 feasibility/KKT after solve(), 8 target(pos), 16 bound(pos), 32 gradient through max_violating_pair
S_TARGET, S_BOUND, S_GRAD = 8, 16, 32

# alpha is a rational function of the inputs.  With concrete points whose pairwise differences are powers
# of two (quad_coef = (x_i - x_j)^2 for the linear kernel) every division is exact, all terms are exact and
# linear in the symbolic class weights: these jobs close exhaustively in seconds.  Other point sets / symbolic
# points give rounded terms: ties between the real and the IEEE value of a branch condition show up as
# `unrealised_flips` and non-linear flips as `undecided_flips`; such jobs are bug hunting only.
# "inexact": interval bounds of long SMO runs exceed 2^53 although the values do not; those terms are treated
# as rounded (fail closed) and every obligation carries a tolerance.
AL = ("inexact",)
ALD = ("inexact", "div0")  # nu-SVC divides the coefficients by r

DYADIC = ((0, 1, 2), (1, 3, 5), (-2, 0, 2), (2, 1, 3))
PATS3 = (1, 2, 3, 4, 5, 6)

quick = []
# ---- SolverState bookkeeping -------------------------------------------------------------------------
for pat in (5, 3):
    quick.append(job("c13.swap", secs=60, n=3, pat=pat, ub=0, nsw=2, only=S_TARGET | S_BOUND | S_GRAD))       # equal bounds: all hold
    quick.append(job("c13.swap", secs=60, n=3, pat=pat, ub=1, nsw=2, only=S_TARGET | S_GRAD))                 # unequal bounds: target, gradient hold
quick.append(job("c13.swap", secs=60, n=4, pat=5, ub=0, nsw=1, only=S_TARGET | S_BOUND | S_GRAD))
quick.append(job("c13.swap", secs=30, n=3, pat=5, ub=1, nsw=1, only=S_BOUND))                                 # D1: swap() does not swap `bounds`
# solve() on a swapped state (shrinking off): same problem, same solution
for pat in (5, 3, 6):
    quick.append(job("c13.swap", secs=60, allow=AL, n=3, pat=pat, ub=0, nsw=2, inv=1, solve=1, only=7))
quick.append(job("c13.swap", secs=60, allow=AL, n=3, pat=5, ub=0, nsw=1, solve=1, only=7, symx=1, epsk=2, qto=500))
quick.append(job("c13.swap", secs=30, allow=AL, n=3, pat=5, ub=1, nsw=1, inv=1, solve=1, only=7))             # D1, behavioural
# write-back of alpha through active_set
quick.append(job("c13.writeback", secs=30, n=3, nsw=2, inv=1))
quick.append(job("c13.writeback", secs=30, n=4, nsw=2, inv=1))
quick.append(job("c13.writeback", secs=30, n=2, nsw=2, inv=1, reg=1))
quick.append(job("c13.writeback", secs=30, n=3, nsw=2, inv=0))                                                # D2: inverse permutation
quick.append(job("c13.writeback", secs=30, n=2, nsw=2, inv=0, reg=1))                                         # D2, regression folding
# rho of a nu-constrained state
for pat in (3, 5):
    quick.append(job("c13.rho_nu", secs=30, n=4, pat=pat, region=1))
quick.append(job("c13.rho_nu", secs=30, n=4, pat=3, region=0))                                                # D4: max instead of min for ub
# do_shrinking
quick.append(job("c13.shrink", secs=30, n=3, pat=5))                                                          # D5: loop bound evaluated once

# ---- C-SVC end to end, shrinking off: everything must hold --------------------------------------------
for xs in DYADIC:
    for pat in PATS3:
        quick.append(job("c13.csvc", secs=60, allow=AL, n=3, pat=pat, symx=0, symw=1, x0=xs[0], x1=xs[1], x2=xs[2], shrink=0, only=ALL))
quick.append(job("c13.csvc", secs=60, allow=AL, n=3, pat=5, symx=0, symw=1, x0=0, x1=1, x2=2, shrink=0, only=ALL, epsk=12))
quick.append(job("c13.csvc", secs=60, allow=AL, n=2, pat=1, symx=0, symw=1, x0=1, x1=3, shrink=0, only=ALL))
quick.append(job("c13.csvc", secs=90, allow=AL, n=3, pat=5, symx=0, symw=1, x0=0, x1=1, x2=2, shrink=0, only=ALL, kern=2))
quick.append(job("c13.csvc", secs=90, allow=AL, n=3, pat=2, symx=0, symw=1, x0=1, x1=2, x2=4, shrink=0, only=ALL))
quick.append(job("c13.csvc", secs=120, allow=AL, n=4, pat=6, symx=0, symw=1, x0=0, x1=1, x2=2, x3=3, shrink=0, only=ALL, epsk=10))
quick.append(job("c13.csvc", secs=120, allow=AL, n=4, pat=5, symx=0, symw=1, x0=0, x1=1, x2=2, x3=4, shrink=0, only=ALL))
# symbolic points, concrete (unequal) class weights
quick.append(job("c13.csvc", secs=60, allow=AL, n=2, pat=1, symx=1, cp=8, cn=2, shrink=0, only=ALL))
quick.append(job("c13.csvc", secs=60, allow=AL, n=2, pat=1, symx=1, cp=1, cn=4, shrink=0, only=ALL, kern=2, qto=1000))
for pat in (5, 3):
    quick.append(job("c13.csvc", secs=120, allow=AL, qto=300, n=3, pat=pat, symx=1, cp=8, cn=2, shrink=0, only=ALL, div=4))
# ---- C-SVC end to end, shrinking on: one job per obligation group (several defects, see the report) ------
for only in (BOX, EQ, KKT, DEC, NSUP, NOPANIC, FINITE):
    quick.append(job("c13.csvc", secs=60, allow=AL, n=3, pat=5, symx=0, symw=1, x0=0, x1=1, x2=2, shrink=1, only=only))
for only in (BOX, EQ, FINITE):
    quick.append(job("c13.csvc", secs=90, allow=AL, n=4, pat=5, symx=0, symw=1, x0=0, x1=1, x2=2, x3=4, shrink=1, only=only))
quick.append(job("c13.csvc", secs=60, allow=AL, n=3, pat=5, symx=0, symw=1, x0=0, x1=1, x2=2, shrink=1, only=DEC, kern=2))

# ---- nu-SVC end to end ------------------------------------------------------------------------------------
quick.append(job("c13.nusvc", secs=60, allow=ALD, qto=500, n=2, pat=1, nu=2, symx=1, only=BOX | EQ | KKT))
quick.append(job("c13.nusvc", secs=60, allow=ALD, qto=500, n=3, pat=5, nu=2, symx=1, sep=1, only=BOX | EQ | KKT, div=3))
# the same labels on points whose classes interleave (optimal margin zero): recorded finding F42
quick.append(job("c13.nusvc", secs=30, allow=ALD, n=3, pat=5, nu=2, symx=0, x0=4, x1=3, x2=-7, only=BOX | EQ))
quick.append(job("c13.nusvc", secs=60, allow=ALD, qto=500, n=2, pat=1, nu=2, symx=1, only=DEC, kern=2))
quick.append(job("c13.nusvc", secs=30, allow=ALD, qto=500, n=2, pat=1, nu=2, symx=1, only=DEC, kern=0))       # D8: linear hyperplane not divided by r
quick.append(job("c13.nusvc", secs=30, allow=ALD, qto=500, n=4, pat=5, nu=2, symx=1, distinct=1, only=FINITE))           # D4 end to end
# ---- one-class ------------------------------------------------------------------------------------------------
quick.append(job("c13.oneclass", secs=60, allow=AL, qto=500, n=2, nu=2))
quick.append(job("c13.oneclass", secs=60, allow=AL, qto=500, n=3, nu=2))
quick.append(job("c13.oneclass", secs=60, allow=AL, qto=500, n=3, nu=3, kern=2))
# ---- epsilon-SVR at SolverState level ----------------------------------------------------------------------------
quick.append(job("c13.svr", secs=60, allow=AL, n=2, symx=0, x0=0, x1=1))
quick.append(job("c13.svr", secs=60, allow=AL, n=3, symx=0, x0=0, x1=1, x2=2))
quick.append(job("c13.svr", secs=90, allow=AL, n=3, symx=0, x0=1, x1=3, x2=5))
quick.append(job("c13.svr", secs=150, allow=AL, n=3, symx=0, x0=-2, x1=0, x2=2, c=8, loss=1))
quick.append(job("c13.svr", secs=60, allow=AL, qto=500, n=2, symx=1))
# epsilon-SVR with shrinking on (the linear term p differs per variable here, unlike in classification)
quick.append(job("c13.svr", secs=120, allow=AL, n=3, symx=0, x0=0, x1=1, x2=2, shrink=1))
quick.append(job("c13.svr", secs=120, allow=AL, n=3, symx=0, x0=1, x1=3, x2=5, shrink=1))
quick.append(job("c13.svr", secs=150, allow=AL, n=3, symx=0, x0=-2, x1=0, x2=2, c=8, loss=1, shrink=1))

# regression through the public parameter API (f64 fit; the solver enumerates C, loss epsilon / nu, targets, kernel,
# shrinking).  which=1 (nu-regression) is a recorded defect region: the nu constraint is not enforced (F44)
quick.append(job("c13.svr_params", secs=120, which=0))
quick.append(job("c13.svr_params", secs=120, which=1))
thorough = list(quick)
for pat in (5, 3, 6, 9):
    thorough.append(job("c13.swap", secs=300, jobs=4, n=4, pat=pat, ub=0, nsw=2, only=S_TARGET | S_BOUND | S_GRAD))
    thorough.append(job("c13.swap", secs=300, jobs=4, allow=AL, n=4, pat=pat, ub=0, nsw=2, inv=1, solve=1, only=7))
thorough.append(job("c13.writeback", secs=120, n=4, nsw=3, inv=1))
thorough.append(job("c13.writeback", secs=120, n=3, nsw=3, inv=1, reg=1))
for pat in (3, 5, 6, 9, 10, 12):
    thorough.append(job("c13.rho_nu", secs=120, n=4, pat=pat, region=1))
for xs in ((0, 1, 2, 3), (0, 1, 2, 4), (-3, -1, 1, 2), (1, 1, 2, 3)):
    for pat in (3, 5, 6, 9, 10, 12, 1, 14):
        thorough.append(job("c13.csvc", secs=300, jobs=2, allow=AL, n=4, pat=pat, symx=0, symw=1, x0=xs[0], x1=xs[1], x2=xs[2], x3=xs[3], shrink=0, only=ALL, epsk=7))
for xs in DYADIC:
    for pat in PATS3:
        thorough.append(job("c13.csvc", secs=300, allow=AL, n=3, pat=pat, symx=0, symw=1, x0=xs[0], x1=xs[1], x2=xs[2], shrink=0, only=ALL, epsk=20))
        thorough.append(job("c13.csvc", secs=300, allow=AL, n=3, pat=pat, symx=0, symw=1, x0=xs[0], x1=xs[1], x2=xs[2], shrink=0, only=ALL, kern=2, epsk=7))
for pat in PATS3:
    for cp, cn in ((4, 4), (8, 1), (1, 16)):
        thorough.append(job("c13.csvc", secs=300, allow=AL, qto=1000, n=3, pat=pat, symx=1, cp=cp, cn=cn, shrink=0, only=ALL, div=6))
for nu in (1, 2, 4):
    thorough.append(job("c13.nusvc", secs=300, jobs=2, allow=ALD, qto=2000, n=3, pat=5, nu=nu, symx=1, sep=1, only=BOX | EQ | KKT, div=6))
    thorough.append(job("c13.oneclass", secs=300, jobs=2, allow=AL, qto=2000, n=3, nu=nu, div=0))
    thorough.append(job("c13.oneclass", secs=300, jobs=2, allow=AL, qto=2000, n=4, nu=nu))
for xs in DYADIC:
    thorough.append(job("c13.svr", secs=300, allow=AL, n=3, symx=0, x0=xs[0], x1=xs[1], x2=xs[2], epsk=10))
    thorough.append(job("c13.svr", secs=300, allow=AL, n=3, symx=0, x0=xs[0], x1=xs[1], x2=xs[2], kern=2, c=2, loss=4))
thorough.append(job("c13.svr", secs=600, jobs=4, allow=AL, n=4, symx=0, x0=0, x1=1, x2=2, x3=3))

REG = {"C13": {"quick": quick, "thorough": thorough}}

# Entries proposed for known_findings.json (genuine defects, each reproduced natively with plain f64; see the report)
SUGGESTED_KNOWN_FINDINGS = [
    {"property": "C13", "harness": "c13.swap", "params": {"ub": 1, "only": S_BOUND}, "check": "swap.bound(pos) is the box bound of the sample now at pos",
     "what": "SolverState::swap (solver_smo.rs:190-198) swaps gradient, gradient_fixed, alpha, p, active_set, kernel indices and targets but not `bounds`; bound(pos)/update() then clip with the other sample's C (only visible with unequal class weights)"},
    {"property": "C13", "harness": "c13.swap", "params": {"ub": 1, "solve": 1}, "check": None,
     "what": "same defect, behavioural: solve() after one swap with unequal bounds returns an infeasible / non-KKT point"},
    {"property": "C13", "harness": "c13.writeback", "params": {"inv": 0}, "check": "writeback.alpha_out[sample] == alpha_in[sample] (regression: alpha_i - alpha_{i+n})",
     "what": "solve() writes back alpha_out[i] = alpha[active_set[i]] (solver_smo.rs:846-848), the inverse of the permutation (libsvm: alpha_out[active_set[i]] = alpha[i]); wrong as soon as the accumulated swaps are not an involution, e.g. swap(0,1); swap(1,2): alpha_in (1,2,3) -> (3,1,2)"},
    {"property": "C13", "harness": "c13.rho_nu", "params": {"region": 0}, "check": "rho_nu.calculate_rho is finite",
     "what": "calculate_rho_nu (solver_smo.rs:746, 757) accumulates the upper bounds with F::max starting from +inf, so ub stays +inf and a class without free vectors gives r = inf, rho = inf/NaN"},
    {"property": "C13", "harness": "c13.shrink", "params": {}, "check": "shrink.do_shrinking does not panic",
     "what": "do_shrinking(_nu) iterates `for i in 0..self.nactive()` (solver_smo.rs:653, 681) with the bound evaluated once while nactive shrinks inside the loop; positions beyond the new nactive are shrunk again and `self.nactive -= 1` underflows (debug: overflow panic, release: index out of bounds)"},
    {"property": "C13", "harness": "c13.csvc", "params": {"shrink": 1}, "check": None,
     "what": "shrinking on: KKT / decision value / panic / non-finite rho; causes: loop bound above, missing `nactive = ntotal` after reconstruct_gradient in solve() (solver_smo.rs:801-803), gradient_fixed never maintained because `ui`/`uj` are read after the alpha update (solver_smo.rs:344-345), reconstruct_gradient tests alpha[i] for alpha[j] (solver_smo.rs:222), and the linear hyperplane uses the permuted self.target(i) with the un-permuted alpha (solver_smo.rs:878)"},
    {"property": "C13", "harness": "c13.nusvc", "params": {"kern": 0, "only": DEC}, "check": "nusvc.decision value == sum_i alpha_i K(x_i, q) - rho from the published coefficients",
     "what": "classification::fit_nu (classification.rs:149-159) divides alpha and rho by r but not the pre-combined linear hyperplane, so weighted_sum / predict of a linear nu-SVC use w*r; x=(7,6), y=(+,-), nu=0.5: decision(6.5) = -9.75 instead of 0, decision(10) = -8 (label false) instead of 7"},
    {"property": "C13", "harness": "c13.nusvc", "params": {"only": FINITE}, "check": "nusvc.rho and the coefficients are finite",
     "what": "calculate_rho_nu defect end to end: x=(0,1,3,4), y=(-,-,+,+), nu=0.5 returns alpha = 0, rho = NaN"},
]

from registry import job

BALL, KD, LIN = 0, 1, 2
L1, L2, LINF = 1, 2, 3

quick = [job("c07.errors", secs=10)]
# k-nearest, 1-D, every index kind, L1 and Linf, k below / at / above n, leaf sizes 1 and 2
for kind in (BALL, KD, LIN):
    for metric in (L1, LINF):
        for k in (0, 1, 2, 3, 4):
            quick.append(job("c07.knn", secs=60, n=3, d=1, k=k, kind=kind, metric=metric, leaf=1))
        quick.append(job("c07.knn", secs=60, n=3, d=1, k=2, kind=kind, metric=metric, leaf=2))
        quick.append(job("c07.knn", secs=60, n=2, d=2, k=1, kind=kind, metric=metric, leaf=1))
    quick.append(job("c07.knn", secs=60, n=1, d=1, k=2, kind=kind, metric=L1, leaf=1))
# metrics whose reduced distance differs from the distance: a linear one (2*L1) on every index kind, and a
# Euclidean one with L2Dist's structure computed on the scalar (the ball tree x L2Dist itself concretises)
SCALED_L1, SYM_L2, HALF_L1 = 4, 5, 6
for kind in (BALL, KD, LIN):
    quick.append(job("c07.knn", secs=60, n=3, d=1, k=2, kind=kind, metric=HALF_L1, leaf=1))
    quick.append(job("c07.knn", secs=60, n=3, d=1, k=1, kind=kind, metric=HALF_L1, leaf=2))
    quick.append(job("c07.knn", secs=60, n=2, d=2, k=1, kind=kind, metric=HALF_L1, leaf=2))
    quick.append(job("c07.knn", secs=60, n=3, d=1, k=2, kind=kind, metric=SCALED_L1, leaf=1))
    quick.append(job("c07.knn", secs=60, n=3, d=1, k=1, kind=kind, metric=SCALED_L1, leaf=2))
    quick.append(job("c07.knn", secs=60, n=2, d=2, k=1, kind=kind, metric=SCALED_L1, leaf=1))
quick.append(job("c07.range", secs=90, jobs=2, n=3, d=1, metric=SCALED_L1, leaf=1))
quick.append(job("c07.range", secs=90, n=3, d=1, metric=SCALED_L1, leaf=2))
quick.append(job("c07.range", secs=90, jobs=2, n=3, d=1, metric=HALF_L1, leaf=2))
# Euclidean structure on quarter-integer coordinates: distances below 1, where r^2 < r
quick.append(job("c07.knn", secs=120, jobs=2, n=3, d=1, k=1, kind=BALL, metric=SYM_L2, leaf=2, B=6, shift=2, qto=3000))
quick.append(job("c07.knn", secs=120, jobs=2, n=3, d=1, k=1, kind=BALL, metric=SYM_L2, leaf=2, B=4, qto=3000))
quick.append(job("c07.knn", secs=120, jobs=2, n=3, d=1, k=2, kind=BALL, metric=SYM_L2, leaf=1, B=4, qto=3000))
# wide but shallow: many dimensions, two or three points (distance code paths that depend on the dimension)
for d in (3, 9, 17):
    for metric in (L1, L2, LINF):
        quick.append(job("c07.knn", secs=60, qto=3000, n=2, d=d, k=1, kind=LIN, metric=metric, leaf=1, B=64))
quick.append(job("c07.knn", secs=60, qto=3000, n=3, d=9, k=2, kind=LIN, metric=L2, leaf=1, B=64))
quick.append(job("c07.knn", secs=60, qto=3000, probe=True, n=2, d=9, k=1, kind=KD, metric=L2, leaf=1, B=64))
quick.append(job("c07.range", secs=60, qto=3000, n=2, d=9, metric=L1, leaf=1, B=64, kind=LIN))
# L2 through rdistance (k-d tree, linear scan); the ball tree's bound concretises (l2_dist) -> not run
for kind in (KD, LIN):
    quick.append(job("c07.knn", secs=60, n=3, d=1, k=2, kind=kind, metric=L2, leaf=1))
quick.append(job("c07.knn", secs=120, jobs=4, n=4, d=1, k=2, kind=BALL, metric=L1, leaf=1))
quick.append(job("c07.knn", secs=60, n=4, d=1, k=2, kind=BALL, metric=L1, leaf=2))
quick.append(job("c07.knn", secs=60, n=4, d=1, k=2, kind=KD, metric=L1, leaf=1))
# range queries: the three kinds against the definition and against each other, incl. the border
for metric in (L1, LINF):
    quick.append(job("c07.range", secs=90, jobs=2, n=3, d=1, metric=metric, leaf=1))
    quick.append(job("c07.range", secs=90, n=2, d=1, metric=metric, leaf=2))
quick.append(job("c07.range", secs=120, jobs=4, n=2, d=2, metric=L1, leaf=1))

# radii that are rounded square roots (and the doubles next to them) over integer lattice points: concrete f64 runs of
# the three index kinds, membership decided exactly; the solver enumerates the 972 configurations (found F45)
quick.append(job("c07.boundary", secs=120))
quick.append(job("c07.boundary", secs=120, single=1))   # the f32 instantiation of the three indices
quick.append(job("c07.lp_lattice", secs=120))
thorough = list(quick)
for kind in (BALL, KD, LIN):
    for metric in (L1, LINF):
        thorough.append(job("c07.knn", secs=900, jobs=16, n=3, d=2, k=2, kind=kind, metric=metric, leaf=1))
        thorough.append(job("c07.knn", secs=600, jobs=16, n=4, d=1, k=3, kind=kind, metric=metric, leaf=1))
    thorough.append(job("c07.knn", secs=900, jobs=16, n=5, d=1, k=2, kind=kind, metric=L1, leaf=2))
for metric in (L1, LINF):
    thorough.append(job("c07.range", secs=900, jobs=16, n=3, d=2, metric=metric, leaf=1))
    thorough.append(job("c07.range", secs=900, jobs=16, n=4, d=1, metric=metric, leaf=1))

# The ball tree takes a few ulps off its sphere bound (/repo d8cfbed): (d + r) * 2^-49 is not representable together with
# integer distances, so those terms are classed as rounded ("inexact"); comparisons against them are counted in the
# evidence.  On the integer / quarter-integer grids of these jobs the slack (< 2^-37) cannot change any decision.
for _j in quick + thorough:
    if _j["h"] in ("c07.knn", "c07.range") and _j["p"].get("kind", -1) in (BALL, -1) and "inexact" not in _j["allow"]:
        _j["allow"].append("inexact")
REG = {"C07": {"quick": quick, "thorough": thorough}}

"""C20, decision-tree part (harnesses live in hs/src/c14.rs, cargo feature `c14`): the same data fitted `fits`
times inside one run — every fit builds fresh `HashMap`s, i.e. fresh SipHash keys, as fresh processes do — must
give the same tree.  Three roles that partition the inputs / the compared quantities:

  c20.tree_refit_identical              inputs on which no fitted tree has a leaf with tied classes:
                                        structure, thresholds (same term), training predictions
  c20.tree_tied_leaf_deterministic      inputs on which some fitted tree has a leaf with tied classes: the same
                                        (failed before /repo 20a64d1 "ties go to the smallest label"; holds since)
  c20.tree_impurity_bits_deterministic  as the first, plus impurity decreases and feature importances bit for bit
                                        (failed for >= 3 classes before /repo 6fc1817: gini_impurity / entropy summed
                                        f32 terms in HashMap order, e.g. class weights (3,1,1) gave 0.55999994 or 0.56)

Parameters as for c14.tree (see registry/c14.py) plus fits (default 24).
The integrator merges JOBS_C20_TREE into the C20 registry.
"""
from registry import job

B = 16


def r(h, secs=60, jobs=1, **p):
    p.setdefault("B", B)
    p.setdefault("canon", 0)
    return job("c20.tree_" + h, secs=secs, jobs=jobs, **p)


quick = []
for crit in (0, 1):
    for h in ("refit_identical", "tied_leaf_deterministic"):
        quick.append(r(h, n=3, d=1, classes=2, crit=crit))
        quick.append(r(h, secs=120, n=3, d=1, classes=3, crit=crit))
        quick.append(r(h, secs=120, jobs=2, n=4, d=1, classes=2, crit=crit))
        quick.append(r(h, secs=120, jobs=2, n=3, d=1, classes=2, crit=crit, wpat=-2, wmax=2))
    quick.append(r("impurity_bits_deterministic", secs=120, jobs=2, n=4, d=1, classes=2, crit=crit))
for h in ("refit_identical", "tied_leaf_deterministic"):
    quick.append(r(h, secs=120, jobs=4, n=3, d=2, classes=2))
    quick.append(r(h, secs=180, jobs=8, n=4, d=1, classes=3))
    quick.append(r(h, n=3, d=1, classes=2, depth=1))
    quick.append(r(h, n=3, d=1, classes=2, mws4=12))

thorough = list(quick)
for crit in (0, 1):
    for h in ("refit_identical", "tied_leaf_deterministic"):
        thorough.append(r(h, secs=1200, jobs=16, n=5, d=1, classes=3, crit=crit, canon=1))
        thorough.append(r(h, secs=1200, jobs=16, n=5, d=1, classes=2, crit=crit))
        thorough.append(r(h, secs=1200, jobs=16, n=4, d=1, classes=3, crit=crit, wpat=-2, wmax=2, canon=1))
        thorough.append(r(h, secs=2400, jobs=16, n=4, d=2, classes=2, crit=crit, canon=1))
    thorough.append(r("impurity_bits_deterministic", secs=900, jobs=16, n=5, d=1, classes=2, crit=crit))
    thorough.append(r("impurity_bits_deterministic", secs=900, jobs=16, n=4, d=1, classes=2, crit=crit, wpat=-2, wmax=3))

# three classes: impurity bits (class weights (1,1,3) for Gini and (3,3,4) for entropy were order dependent)
bits3 = [
    r("impurity_bits_deterministic", secs=120, jobs=2, n=3, d=1, classes=3, wpat=-2, wmax=3, canon=1),
    r("impurity_bits_deterministic", secs=60, n=3, d=1, classes=3, pattern=21, wpat=58, wmax=4, crit=1),  # labels 0,1,2 weights 3,3,4
    r("impurity_bits_deterministic", secs=180, jobs=8, n=4, d=1, classes=3, canon=1),
]
# fractional (tenths) sample weights: f32 sums of them are order dependent (the node's total weight was summed in
# hash-map order: F41)
frac = [
    r("impurity_bits_deterministic", secs=180, jobs=4, n=4, d=1, classes=3, wpat=-2, wmax=4, wdiv=10, canon=1),
    r("impurity_bits_deterministic", secs=180, jobs=4, n=4, d=1, classes=3, wpat=-2, wmax=4, wdiv=10, canon=1, crit=1),
    r("impurity_bits_deterministic", secs=120, jobs=2, n=3, d=1, classes=3, wpat=-2, wmax=7, wdiv=10, canon=1),
]
# larger nodes on concrete data (9 rows, 2 features, 3 classes, labels and tenth-weights from a seeded generator):
# one path each, 24 fits per path
for crit in (0, 1):
    for ws in range(40):
        frac.append(r("impurity_bits_deterministic", secs=30, n=9, d=2, classes=3, xseq=1, pattern=-3, wpat=-3, wseed=ws, wmax=9, wdiv=10, fits=24, crit=crit))
quick += bits3 + frac
thorough += bits3 + frac
thorough.append(r("impurity_bits_deterministic", secs=900, jobs=16, n=5, d=1, classes=3, wpat=-2, wmax=6, wdiv=10, canon=1))
thorough.append(r("impurity_bits_deterministic", secs=900, jobs=16, n=5, d=1, classes=3, canon=1))
thorough.append(r("impurity_bits_deterministic", secs=900, jobs=16, n=5, d=1, classes=3, canon=1, crit=1))
thorough.append(r("impurity_bits_deterministic", secs=900, jobs=16, n=3, d=1, classes=3, wpat=-2, wmax=4, crit=1))

REG = {}
JOBS_C20_TREE = {"quick": quick, "thorough": thorough}

from registry import job

quick = []
for n, d in ((0, 2), (1, 1), (3, 2), (4, 3)):
    quick.append(job("c03.forms", secs=20, n=n, d=d))
for n, d, m in ((3, 1, 2), (2, 2, 3), (1, 1, 1), (4, 1, 3), (0, 1, 2)):
    quick.append(job("c03.multi_target", secs=20, n=n, d=d, m=m))
quick.append(job("c03.multi_class", secs=60, n=2, m=3, levels=3))
quick.append(job("c03.multi_class", secs=60, n=1, m=4, levels=3))
quick.append(job("c03.platt_pairing", secs=20))
# real fitted predictors; concrete training data (non-dyadic fitted parameters => products are inexact,
# which is why arithmetic outputs are compared with a relative 1e-9)
for model in range(8):
    for nq, d in ((2, 1), (2, 2), (3, 3)):
        quick.append(job("c03.batches", secs=60, allow=("inexact",), model=model, nq=nq, d=d, nt=4))
# a large batch of concrete rows next to the symbolic ones (code paths selected by the batch size)
for model in range(7):
    quick.append(job("c03.batches", secs=60, allow=("inexact",), model=model, nq=1, d=2, nt=4, big=45))
for model in (0, 1, 2):
    quick.append(job("c03.batches_retyped", secs=60, qto=2000, allow=("inexact",), model=model, nq=1, d=2, big=45))
# predictors fitted with f64 and re-typed over the symbolic scalar through serde (PCA, PLS regression, GMM)
for model in (0, 1, 2):
    for nq, d in ((2, 2), (3, 3)):
        quick.append(job("c03.batches_retyped", secs=60, qto=2000, allow=("inexact",), model=model, nq=nq, d=d))
# symbolic training data: the model itself is a symbolic function of the data
quick.append(job("c03.batches", secs=120, jobs=4, model=0, nq=2, d=1, nt=3, symtrain=1, B=8))
quick.append(job("c03.batches", secs=120, model=3, nq=2, d=1, nt=3, symtrain=1, B=8))

thorough = list(quick)
thorough.append(job("c03.multi_class", secs=300, jobs=8, n=2, m=3, levels=5))
for model in range(8):
    thorough.append(job("c03.batches", secs=300, jobs=4, allow=("inexact",), model=model, nq=3, d=2, nt=6))
thorough.append(job("c03.batches", secs=600, jobs=16, model=0, nq=2, d=2, nt=3, symtrain=1, B=8))
thorough.append(job("c03.batches", secs=600, jobs=16, model=3, nq=2, d=2, nt=4, symtrain=1, B=8))

def _kani(tier, seed):
    import os, sys
    hk = os.path.join(os.path.dirname(os.path.dirname(os.path.abspath(__file__))), "hk")
    if hk not in sys.path:
        sys.path.insert(0, hk)
    import run_kani
    return run_kani.run("C03", tier, seed)


REG = {"C03": {"quick": quick, "thorough": thorough}}
EXTRA = {"C03": _kani}

from registry import job

MAX, MAE, MSE, MSLE, MEDIAN, MAPE, R2, EV = range(8)
ARR, DS_RECV, DS_ARG = 0, 1, 2
QTO = 20000  # per-query timeout (ms) for the jobs with non-linear obligations

quick, thorough = [], []

# ---- regression scores --------------------------------------------------------------------------------------
# ob: 1 formula, 2 auxiliary identity (r2 / explained variance, form 0), 3 transposition, 4 rotation; one job per
# group for the ratio scores (a conjunction of non-linear obligations is slow for the solver), all groups at once
# for the others.
def reg(n, m, secs=60, jobs=1, **kw):
    out = []
    if m in (R2, EV):
        allow = ("inexact",) if n & (n - 1) == 0 else ()  # linfa adds 1e-10 to an otherwise exact sum
        if n <= 4 and not kw.get("cols"):
            out.append(job("c05.regression", secs=secs, jobs=jobs, allow=allow, qto=QTO, n=n, m=m, **kw))
        else:
            for g in (1, 2, 3, 4):
                out.append(job("c05.regression", secs=secs, jobs=jobs, allow=allow, qto=QTO, n=n, m=m, ob=g, **kw))
    else:
        out.append(job("c05.regression", secs=secs, jobs=jobs, qto=QTO, n=n, m=m, **kw))
    return out


for m in (MAX, MAE, MSE, MSLE, MAPE):
    for n in (1, 2, 3, 4, 5):
        quick += reg(n, m)
    for recv in (DS_RECV, DS_ARG):
        quick += reg(3, m, recv=recv)
    for recv in (ARR, DS_RECV, DS_ARG):
        quick += reg(3, m, cols=2, recv=recv)
    thorough += reg(6, m) + reg(4, m, cols=2)
for n in (1, 2, 3, 4):
    quick += reg(n, MEDIAN)
quick += reg(5, MEDIAN, secs=120, jobs=4)
quick += reg(3, MEDIAN, cols=2) + reg(3, MEDIAN, recv=DS_RECV) + reg(3, MEDIAN, recv=DS_ARG)
thorough += reg(6, MEDIAN, secs=900, jobs=16) + reg(4, MEDIAN, cols=2, secs=900, jobs=16)
# long vectors, two symbolic rows among fixed ones (code paths selected by the length, e.g. inside sorting)
for n in (17, 18, 24, 33):
    quick += reg(n, MEDIAN, sym=2, secs=90)
for m in (MAX, MAE, MSE, MAPE):
    quick += reg(20, m, sym=2, secs=60)
thorough += reg(40, MEDIAN, sym=3, secs=600, jobs=4) + reg(65, MEDIAN, sym=2, secs=300)
for m in (R2, EV):
    for n in (2, 3, 4):
        quick += reg(n, m)
        # directly against the moment form without linfa's 1e-10
        if not (m == EV and n == 2):  # (undecided by z3 at n=2)
            quick.append(job("c05.regression", secs=60, qto=QTO, allow=("inexact",) if n != 3 else (), n=n, m=m, ob=1, form=1))
    for recv in (DS_RECV, DS_ARG):
        quick += reg(3, m, recv=recv)
    quick += reg(3, m, cols=2)
    thorough += reg(4, m, cols=2, secs=300)
# (measured: the explained-variance formula obligations are undecided by z3 from n = 5 on; not registered)
quick += reg(5, R2)
thorough += reg(6, R2, secs=300)

# ---- confusion matrix: every pair of label vectors of length n over k classes -----------------------------------
USIZE, BOOL, STRING = 0, 1, 2
quick.append(job("c05.cm_errors", secs=10))
for lab in (USIZE, BOOL, STRING):
    for n in (1, 2, 3, 4):
        quick.append(job("c05.confusion", secs=60, n=n, k=2, lab=lab))
for lab in (USIZE, STRING):
    for n in (1, 2, 3):
        quick.append(job("c05.confusion", secs=60, n=n, k=3, lab=lab))
for recv in (1, 2):  # array/array by value, dataset/&dataset
    quick.append(job("c05.confusion", secs=60, n=3, k=2, lab=BOOL, recv=recv))
    quick.append(job("c05.confusion", secs=60, n=3, k=3, lab=USIZE, recv=recv))
thorough.append(job("c05.confusion", secs=600, jobs=8, n=4, k=3, lab=USIZE))
thorough.append(job("c05.confusion", secs=600, jobs=8, n=4, k=3, lab=STRING))
thorough.append(job("c05.confusion", secs=600, jobs=4, n=5, k=2, lab=BOOL))
thorough.append(job("c05.confusion", secs=600, jobs=8, n=6, k=2, lab=USIZE))
thorough.append(job("c05.confusion", secs=600, jobs=8, n=4, k=3, lab=USIZE, recv=2))
thorough.append(job("c05.confusion", secs=600, jobs=8, n=3, k=4, lab=USIZE))

# ---- silhouette: two clusters (bit pattern), one dimension (path conditions linear through the |x_i - x_j| hint) ----
for pat in (0b0011, 0b0101, 0b0110):
    for g in (1, 2, 3):
        quick.append(job("c05.silhouette", secs=120, qto=QTO, n=4, d=1, pat=pat, ob=g))
    thorough.append(job("c05.silhouette", secs=600, n=4, d=1, pat=pat, ob=4))
quick.append(job("c05.silhouette", secs=120, qto=QTO, n=4, d=1, pat=0b0110, ob=6, perm=1))
# (measured: with n = 5 one or two of the ~150 branch-flip queries per job stay undecided at 30 s, so the exploration
# is not exhaustive; not registered.  Two dimensions: most flips undecided; not registered.)

# ---- Pearson ---------------------------------------------------------------------------------------------------
for (n, p) in ((2, 2), (3, 2), (4, 2), (3, 3), (4, 3)):
    quick.append(job("c05.pearson", secs=60, qto=QTO, n=n, p=p))
# (measured: from n = 5 on z3 no longer proves the moment identities of ndarray's running-mean variance; not registered)

# ---- recorded-defect roles (each fails on the unchanged tree; see the harness doc / known_findings) ----------------
defects = [
    # explained_variance subtracts mean(err) where n * mean(err)^2 belongs: wrong unless sum(err) is 0 or 1
    job("c05.regression", secs=30, n=3, m=EV, ob=1, region=1),
    # split_one_vs_one also pairs every class with itself: N(N+1)/2 matrices instead of the documented N(N-1)/2
    job("c05.confusion", secs=30, n=2, k=2, lab=USIZE, part=1),
    # array.confusion_matrix(&dataset) swaps the roles of prediction and ground truth: cells are (true, predicted)
    job("c05.confusion", secs=30, n=2, k=2, lab=USIZE, recv=3),
]

# ROC / AUC / log-loss over score grids (scores are f32 `Pr`: solver-enumerated grid points, not symbolic scalars)
for n, levels in ((2, 3), (3, 3), (3, 5), (4, 3)):
    for form in (0, 1):
        quick.append(job("c05.roc", secs=120, n=n, levels=levels, form=form))
quick.append(job("c05.roc", secs=240, jobs=4, n=4, levels=5))
for grid in (1, 2):   # different scores that are one ulp / 1e-9 apart
    quick.append(job("c05.roc", secs=120, n=3, levels=3, grid=grid))
    quick.append(job("c05.roc", secs=120, n=4, levels=3, grid=grid))
quick.append(job("c05.log_loss", secs=60, n=2, levels=5))
quick.append(job("c05.log_loss", secs=120, n=3, levels=5))
thorough.append(job("c05.roc", secs=1200, jobs=16, n=5, levels=5))
thorough.append(job("c05.roc", secs=1200, jobs=16, n=6, levels=3))
thorough.append(job("c05.roc", secs=1200, jobs=16, n=4, levels=9))
thorough.append(job("c05.log_loss", secs=600, jobs=8, n=4, levels=9))

thorough = quick + thorough
quick = quick + defects
thorough = thorough + defects

REG = {"C05": {"quick": quick, "thorough": thorough}}

from registry import job

LINEAR, POLY, GAUSS = 0, 1, 2
BALL, KD, LIN = 0, 1, 2
SINGLE, COMPLETE, AVERAGE, WEIGHTED, WARD, CENTROID, MEDIAN = range(7)

# BallTree x L2Dist: the ball's border distance goes through ndarray_stats::l2_dist (f64) and is counted as a
# concretisation.  The sparse kernel builds its index with linfa's default leaf size (16), so for n <= 16 the tree
# is a single leaf whose border distance is only ever compared with +inf / an empty result heap: the concretised
# value never reaches a branch or an output, so the exploration stays sound.
BALL_OK = ("concretised", "inexact")  # inexact: the ball tree's sphere bound carries a slack of a few ulps (/repo d8cfbed), see registry/c07.py

quick = [job("c06.hier_guard", secs=10)]

# ---- dense kernels: single path each (no comparison on the data); entries, symmetry, unit diagonal, all views
for (n, d) in ((1, 1), (2, 1), (3, 2), (4, 2), (4, 3)):
    m = 2 if n >= 3 else 1
    quick.append(job("c06.dense", secs=30, n=n, d=d, m=m, method=LINEAR, B=1024, R=1024))
    for deg in (0, 1, 2, 3):
        quick.append(job("c06.dense", secs=30, n=n, d=d, m=m, method=POLY, deg=deg, B=64, C=4, R=16))
    for deg2 in (1, 5):  # degree 1/2 and 5/2: uninterpreted power, base >= 0 assumed
        quick.append(job("c06.dense", secs=30, n=n, d=d, m=m, method=POLY, deg2=deg2, B=64, C=4, R=16))
    for epsk in (0, 1, 2, 3):  # symbolic bandwidth, 0.5 (the default), 4, 5 (rounded division)
        quick.append(job("c06.dense", secs=30, n=n, d=d, m=m, method=GAUSS, epsk=epsk, B=64, E=64, R=16))

# records far from the origin but close to each other (every coordinate shifted by 2^30): the Gaussian kernel depends
# on differences only.  "inexact": the interval analysis bounds (a - b)^2 by the magnitudes of a and b
for (n, d) in ((2, 1), (3, 1), (3, 2)):
    quick.append(job("c06.dense", secs=30, allow=("inexact",), n=n, d=d, m=1, method=GAUSS, epsk=0, offs=30, B=64, E=64, R=16))
quick.append(job("c06.dense", secs=30, allow=("inexact",), n=2, d=2, m=1, method=GAUSS, epsk=1, offs=40, B=64, E=64, R=16))

# ---- sparse kernels, 1-D points: pattern = symmetrised k-NN graph + diagonal for every index kind
for kind in (KD, LIN):
    quick.append(job("c06.sparse", secs=30, n=2, d=1, k=1, kind=kind, method=LINEAR))
    for k in (1, 2):
        quick.append(job("c06.sparse", secs=60, n=3, d=1, k=k, kind=kind, method=LINEAR))
    for k in (1, 2, 3):
        quick.append(job("c06.sparse", secs=180, jobs=2, qto=20000, n=4, d=1, k=k, kind=kind, method=LINEAR))
    quick.append(job("c06.sparse", secs=180, jobs=2, qto=20000, n=4, d=1, k=1, kind=kind, method=GAUSS, epsk=0))
    quick.append(job("c06.sparse", secs=180, jobs=2, qto=20000, n=4, d=1, k=2, kind=kind, method=POLY, deg=2))
for k in (1, 2):
    quick.append(job("c06.sparse", secs=60, allow=BALL_OK, n=3, d=1, k=k, kind=BALL, method=LINEAR))
quick.append(job("c06.sparse", secs=60, allow=BALL_OK, n=3, d=1, k=1, kind=BALL, method=GAUSS, epsk=1))

# ---- agglomerative clustering on a kernel of symbolic similarities
for link in (SINGLE, COMPLETE, AVERAGE, WEIGHTED):
    for c in (0, 1, 2, 3, 4):
        quick.append(job("c06.hier_count", secs=30, n=3, c=c, linkage=link))
    quick.append(job("c06.hier_count", secs=30, n=1, c=2, linkage=link))
    quick.append(job("c06.hier_count", secs=30, n=2, c=1, linkage=link))
for link in (SINGLE, COMPLETE):
    for c in (1, 2, 3, 5):
        quick.append(job("c06.hier_count", secs=120, jobs=2, qto=20000, n=4, c=c, linkage=link))
    for n in (1, 2, 3):
        quick.append(job("c06.hier_threshold", secs=30, n=n, linkage=link))
    quick.append(job("c06.hier_threshold", secs=200, jobs=4, qto=20000, n=4, linkage=link))
# other linkages: only "first merge iff some pair is below the threshold"; n = 2 has no Lance-Williams update
quick.append(job("c06.hier_threshold", secs=30, n=2, linkage=AVERAGE))
quick.append(job("c06.hier_threshold", secs=30, n=2, linkage=WEIGHTED))


# hard (non-linear) flip queries occasionally need more than the tier's default 5 s, depending on the start input
for _j in quick:
    _j.setdefault("qto", 20000)

# ---- thorough: everything above, plus searches that do not close (reported as non-exhaustive, bug hunting only):
#  * ball tree, n = 4: comparisons of squared distances to the leaf centre (rounded) leave a few undecided flips
#  * 2-D points: sums of squares; z3 (incremental, mixed integer/real) answers unknown on some flips
#  * average / weighted / Ward / centroid / median linkage at n >= 3..4: merge dissimilarities are rounded
#    combinations of uninterpreted logarithms, some flips are not realisable by a concrete input
thorough = list(quick)
for k in (1, 2):
    thorough.append(job("c06.sparse", secs=300, jobs=4, allow=BALL_OK, n=4, d=1, k=k, kind=BALL, method=LINEAR))
for kind in (KD, LIN):
    for k in (1, 2):
        thorough.append(job("c06.sparse", secs=300, jobs=4, n=3, d=2, k=k, kind=kind, method=LINEAR, qto=2000))
for link in (AVERAGE, WEIGHTED, WARD):
    thorough.append(job("c06.hier_count", secs=120, n=4, c=2, linkage=link, qto=2000))
    thorough.append(job("c06.hier_count", secs=120, n=4, c=3, linkage=link, qto=2000))
for link in (WARD, CENTROID, MEDIAN):
    thorough.append(job("c06.hier_count", secs=60, n=3, c=2, linkage=link, qto=2000))
for link in (AVERAGE, WEIGHTED):
    thorough.append(job("c06.hier_threshold", secs=60, n=3, linkage=link))
    thorough.append(job("c06.hier_threshold", secs=300, jobs=4, n=4, linkage=link))
# finer similarity grid for the two linkages that close
for link in (SINGLE, COMPLETE):
    thorough.append(job("c06.hier_threshold", secs=600, jobs=8, qto=20000, n=4, linkage=link, shift=5))
    thorough.append(job("c06.hier_count", secs=300, jobs=4, qto=20000, n=4, c=2, linkage=link, shift=6))

REG = {"C06": {"quick": quick, "thorough": thorough}}

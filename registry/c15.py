"""C15 — incremental fitting.  Naive Bayes: one job per label vector (restricted-growth strings, i.e. up to
renaming of classes), every split into <= 3 contiguous batches inside the job; mini-batch k-means and FTRL
over small shapes.  Jobs that exercise a *recorded* defect region are appended only when
known_findings.json has an entry for them (status known -> KNOWN-FINDING, status fixed -> must verify)."""
import json, os
from registry import job


def rgs(n, classes):
    """label vectors in which class c first appears after classes 0..c-1 (one per partition into <= classes blocks)"""
    out = []

    def rec(prefix, used):
        if len(prefix) == n:
            out.append(list(prefix))
            return
        for c in range(min(used + 1, classes)):
            rec(prefix + [c], max(used, c + 1))
    rec([], 0)
    return out


def pat(labels, classes):
    return sum(l * classes ** i for i, l in enumerate(labels))


def recorded(harness, check_prefix):
    p = os.path.join(os.path.dirname(os.path.dirname(__file__)), "known_findings.json")
    try:
        fs = json.load(open(p)).get("findings", [])
    except Exception:
        return False
    return any(f.get("property") == "C15" and f.get("harness") == harness and f.get("check", "").startswith(check_prefix) for f in fs)


SIGMA = "gnb.fit_with: sigma is the per-class variance plus var_smoothing * largest feature variance"
POS = "nb_predict.incremental sigma is positive wherever the batch sigma is"

quick, thorough, findings = [], [], []

# ---- Gaussian NB.  vs=0: var_smoothing 0 (everything incl. the incremental variance must agree);
#      vs=3: var_smoothing 1/8 (ob=0: all statistics except the incremental variance)
# allow inexact: the interval analysis gives up on the deep dyadic chains of the pooled-variance update; such
# terms are then classed as rounded, and every gnb obligation carries a tolerance
GA = ("inexact",)


def cuts(n, maxcuts=2):
    return [m for m in range(1, 1 << (n - 1)) if bin(m).count("1") <= maxcuts]


for n, classes in ((3, 2), (4, 2), (4, 3), (5, 2)):
    for lab in rgs(n, classes):
        # n=5: one split per job (the obligations of all splits in one solver query time out)
        if n == 5:
            for vs in (0, 3):
                quick.append(job("c15.gnb", secs=90, qto=30000, allow=GA, n=n, d=1, classes=classes, pattern=pat(lab, classes), vs=vs, ob=0, part=1, B=8))
        for split in (cuts(n) if n == 5 else (-1,)):
            part = 2 if n == 5 else 0
            for vs in (0, 3):
                quick.append(job("c15.gnb", secs=60, allow=GA, n=n, d=1, classes=classes, pattern=pat(lab, classes), vs=vs, ob=0, split=split, part=part))
            quick.append(job("c15.gnb", secs=60, allow=GA, n=n, d=1, classes=classes, pattern=pat(lab, classes), vs=0, ob=1, split=split))
        if n == 4 and classes == 2:
            findings.append(job("c15.gnb", secs=60, allow=GA, n=n, d=1, classes=classes, pattern=pat(lab, classes), vs=3, ob=1))
# two features: the smoothing term takes the larger of two variances (quadratic comparisons) -> one split per job
for lab in rgs(3, 2):
    for split in (1, 2, 3):
        quick.append(job("c15.gnb", secs=90, qto=20000, allow=GA, n=3, d=2, classes=2, pattern=pat(lab, 2), vs=3, ob=0, split=split, B=8))
        quick.append(job("c15.gnb", secs=90, qto=20000, allow=GA, n=3, d=2, classes=2, pattern=pat(lab, 2), vs=0, ob=1, split=split, B=8))

# ---- multinomial NB (alpha 1 and 1/2)
for n, classes, d in ((3, 2, 2), (4, 2, 2), (4, 3, 2), (5, 2, 3)):
    for lab in rgs(n, classes):
        for a in (0, 1):
            quick.append(job("c15.mnb", secs=60, n=n, d=d, classes=classes, pattern=pat(lab, classes), a=a))

# ---- predictions maximise the posterior of the (checked) statistics; Gaussian: ln/division make the branch
#      flips of the arg-max undecidable for the solver in general -> explored as far as the solver gets
for lab in ([0, 1, 0], [0, 0, 1], [0, 1, 1]):
    quick.append(job("c15.nb_predict", secs=40, allow=("inexact",), n=3, d=1, classes=2, pattern=pat(lab, 2), kind=0, q=1))
    quick.append(job("c15.nb_predict", secs=40, n=3, d=2, classes=2, pattern=pat(lab, 2), kind=2, q=1))
    quick.append(job("c15.nb_predict", secs=40, n=3, d=2, classes=2, pattern=pat(lab, 2), kind=3, q=1, cut=1))
    quick.append(job("c15.nb_predict", secs=40, n=3, d=2, classes=2, pattern=pat(lab, 2), kind=3, q=1, cut=2))
quick.append(job("c15.nb_predict", secs=40, allow=("inexact",), n=4, d=1, classes=2, pattern=pat([0, 1, 0, 1], 2), kind=1, q=1, cut=2))
findings.append(job("c15.nb_predict", secs=40, allow=("inexact",), n=3, d=1, classes=2, pattern=pat([1, 0, 0], 2), kind=1, ob=1, cut=1))

# ---- mini-batch k-means
quick.append(job("c15.mbk", secs=150, qto=20000, jobs=2, nb=2, bs=2, k=2, d=1, metric=1))   # L1Dist, verdict checked
quick.append(job("c15.mbk", secs=150, qto=20000, nb=1, bs=3, k=2, d=1, metric=1))
quick.append(job("c15.mbk", secs=150, qto=20000, nb=1, bs=2, k=2, d=2, metric=1))
quick.append(job("c15.mbk", secs=120, jobs=4, nb=3, bs=2, k=2, d=1, metric=3))    # rdistance of L1, three batches
quick.append(job("c15.mbk", secs=120, nb=2, bs=3, k=2, d=1, metric=3))
quick.append(job("c15.mbk", secs=120, jobs=4, nb=2, bs=2, k=3, d=1, metric=3))
quick.append(job("c15.mbk", secs=120, nb=2, bs=2, k=2, d=1, metric=2, allow=("concretised",)))  # real L2Dist: payload only
quick.append(job("c15.mbk", secs=120, nb=1, bs=3, k=2, d=1, metric=2, allow=("concretised",)))

# ---- FTRL: Ftrl::update with given probabilities on a symbolic (z, n) state; fit_with == update(own predictions)
for labels, probs in ((0, 0), (1, 1), (1, 2), (0, 4), (1, 3)):
    quick.append(job("c15.ftrl", secs=60, n=1, d=1, mode=0, labels=labels, probs=probs))
for labels, probs in ((1, 7), (2, 11), (3, 5), (0, 13)):
    quick.append(job("c15.ftrl", secs=60, n=2, d=1, mode=0, labels=labels, probs=probs))
quick.append(job("c15.ftrl", secs=90, n=2, d=2, mode=0, labels=1, probs=7))
quick.append(job("c15.ftrl", secs=60, n=1, d=1, mode=0, labels=1, probs=1, l1_q=0, l2_q=0, beta=0, allow=("div0",)))  # no regularisation: n=0 divides by zero (path excluded)
quick.append(job("c15.ftrl", secs=60, n=1, d=1, mode=0, labels=0, probs=2, l1_q=4, l2_q=4, alpha_shift=3))
for labels in (0, 1):
    quick.append(job("c15.ftrl", secs=60, n=1, d=1, mode=1, labels=labels, allow=("concretised", "inexact")))
quick.append(job("c15.ftrl", secs=60, n=2, d=1, mode=1, labels=2, allow=("concretised", "inexact")))

thorough = list(quick)
for lab in rgs(5, 3):
    for vs in (0, 3):
        thorough.append(job("c15.gnb", secs=300, allow=GA, n=5, d=1, classes=3, pattern=pat(lab, 3), vs=vs, ob=0, maxcuts=4))
    thorough.append(job("c15.gnb", secs=300, allow=GA, n=5, d=1, classes=3, pattern=pat(lab, 3), vs=0, ob=1, maxcuts=4))
    thorough.append(job("c15.mnb", secs=120, n=5, d=3, classes=3, pattern=pat(lab, 3), a=1, maxcuts=4))
for lab in ([0, 1, 0, 1], [0, 0, 1, 1]):   # quadratic variance comparisons: flips mostly undecided, bug hunting only
    for split in (1, 2, 4, 3, 5, 6):
        thorough.append(job("c15.gnb", secs=300, allow=GA, n=4, d=2, classes=2, pattern=pat(lab, 2), vs=3, ob=0, split=split, B=8))
thorough.append(job("c15.mbk", secs=900, jobs=8, nb=3, bs=2, k=2, d=1, metric=1))
thorough.append(job("c15.mbk", secs=900, jobs=8, nb=2, bs=2, k=2, d=2, metric=3))
thorough.append(job("c15.mbk", secs=900, jobs=8, nb=3, bs=3, k=2, d=1, metric=3))
thorough.append(job("c15.mbk", secs=1500, jobs=16, nb=2, bs=3, k=3, d=1, metric=3))
thorough.append(job("c15.mbk", secs=600, jobs=4, nb=2, bs=2, k=2, d=1, metric=4))
for labels, probs in ((1, 1), (0, 2)):
    thorough.append(job("c15.ftrl", secs=600, n=1, d=1, mode=0, labels=labels, probs=probs, steps=2, after=1))
thorough.append(job("c15.ftrl", secs=600, jobs=4, n=2, d=2, mode=0, labels=2, probs=8, after=1))

if recorded("c15.gnb", SIGMA[:30]):
    quick += [j for j in findings if j["h"] == "c15.gnb"]
    thorough += [j for j in findings if j["h"] == "c15.gnb"]
if recorded("c15.nb_predict", POS[:30]):
    quick += [j for j in findings if j["h"] == "c15.nb_predict"]
    thorough += [j for j in findings if j["h"] == "c15.nb_predict"]

REG = {"C15": {"quick": quick, "thorough": thorough}}

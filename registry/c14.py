"""C14 — decision trees: well-formed, honour their limits, predict leaf majorities (harness c14.tree).

Parameters of c14.tree: n rows, d features, classes, crit (0 Gini, 1 entropy), depth (-1 = None, else Some(depth)),
mws4 / mwl4 = 4*min_weight_split / 4*min_weight_leaf, mid_e6 = 1e6*min_impurity_decrease, ltype (0 usize, 1 bool,
2 String labels), pattern (-1: labels chosen by the solver, every pattern is a path prefix; canon=1 keeps one
representative per renaming of classes), wpat (-1 no weights, -2 weights chosen by the solver in 1..wmax),
distinct=1 (pairwise distinct values per column), adj=e (features are the concrete doubles 2^e + i*ulp instead of
symbolic integers), B (features are integers in [-B,B]; B=16 by default because z3's
incremental core needs O(B) branch-and-bound steps to refute 0 < |xi-xj| < 1e-5 over integers, linfa's equal-value test).
"""
from registry import job

GINI, ENT = 0, 1
B = 16


def t(secs=60, jobs=1, **p):
    p.setdefault("B", B)
    p.setdefault("canon", 1)
    return job("c14.tree", secs=secs, jobs=jobs, **p)


quick = []
# both criteria x every kind of depth limit, 2 and 3 classes
for crit in (GINI, ENT):
    for depth in (-1, 0, 1, 2):
        quick.append(t(n=3, d=1, classes=2, crit=crit, depth=depth))
    quick.append(t(n=3, d=1, classes=3, crit=crit))
    quick.append(t(n=3, d=1, classes=2, crit=crit, ltype=1))
    quick.append(t(n=3, d=1, classes=3, crit=crit, ltype=2))
    # sample weights 1..2 chosen by the solver
    quick.append(t(n=3, d=1, classes=2, crit=crit, wpat=-2, wmax=2))
    # two features
    quick.append(t(secs=120, jobs=4, n=3, d=2, classes=2, crit=crit))
    # three classes, four rows
    quick.append(t(secs=120, jobs=4, n=4, d=1, classes=3, crit=crit))
# every label pattern (no symmetry reduction)
quick.append(t(n=3, d=1, classes=2, canon=0))
quick.append(t(secs=120, n=3, d=1, classes=3, canon=0))
quick.append(t(secs=120, jobs=2, n=3, d=1, classes=3, wpat=-2, wmax=3))
# the training rows again inside larger prediction batches (3 x 7 = 21, 3 x 15 = 45, 3 x 22 = 66 rows, 4 x 33 = 132)
for rep in (7, 15, 22):
    quick.append(t(n=3, d=1, classes=3, rep=rep))
quick.append(t(n=3, d=2, classes=2, rep=11, secs=120, jobs=4))
quick.append(t(secs=120, jobs=4, n=4, d=1, classes=3, rep=33))
# tiny shapes
quick.append(t(n=1, d=1, classes=2))
quick.append(t(n=2, d=1, classes=2))
quick.append(t(n=2, d=2, classes=2))
# four rows: limits on split / leaf weight and on the impurity decrease
for (mws4, mwl4, mid_e6) in ((8, 4, 10), (4, 4, 10), (12, 4, 10), (16, 8, 10), (8, 6, 10), (8, 8, 10), (8, 4, 250000), (8, 4, 500000), (12, 8, 125000)):
    quick.append(t(secs=120, n=4, d=1, classes=2, mws4=mws4, mwl4=mwl4, mid_e6=mid_e6))
quick.append(t(secs=120, n=4, d=1, classes=2, crit=ENT, depth=1))
quick.append(t(secs=120, n=4, d=1, classes=2, crit=ENT, depth=2, mwl4=8))
quick.append(t(secs=120, n=4, d=1, classes=2, wpat=5, wmax=2, mws4=12))  # weights 2,1,2,1
# five rows without ties between feature values
quick.append(t(secs=180, jobs=8, n=5, d=1, classes=2, distinct=1))
# bigger instances that still fit the quick budget
quick.append(t(secs=300, jobs=8, n=4, d=1, classes=2, wpat=-2, wmax=2))
quick.append(t(secs=400, jobs=16, n=5, d=1, classes=2))
# min_weight_leaf = 0 is accepted by the parameter guard ("no minimum"): fit must return a tree
# (failed before /repo f440bd5: panic `assertion failed: n_samples > 0.0`, algorithm.rs:676)
quick.append(t(n=3, d=1, classes=2, mwl4=0))
# fractional limits (a limit truncated to an integer would split a node reached by floor(limit) samples)
for mws4, mwl4 in ((10, 4), (14, 4), (9, 4), (8, 5), (8, 10)):
    quick.append(t(secs=120, n=4, d=1, classes=2, mws4=mws4, mwl4=mwl4))
quick.append(t(secs=180, jobs=2, n=5, d=1, classes=2, mws4=10, mwl4=6))
# concrete neighbouring doubles 2^e + i*ulp (outside the exact integer grid, so one concrete path per labelling):
# midpoints (a+b)/2 are rounded.  Rounded down to a: fit routes `a <= split` left and predict must do the same
# (failed before /repo e17f219).  Rounded up to b (odd a): `<= split` sent every row left, the right child was missing
# and the left child was fitted on the same rows again -- unbounded recursion / malformed tree (failed before 818cd50).
quick.append(t(secs=30, n=2, d=1, classes=2, adj=40))
quick.append(t(secs=30, n=3, d=1, classes=2, adj=40, depth=2))
quick.append(t(secs=30, n=3, d=1, classes=2, adj=40))
quick.append(t(secs=30, n=4, d=1, classes=3, adj=40, depth=3))
quick.append(t(secs=30, n=4, d=1, classes=3, adj=37, crit=ENT))
quick.append(t(secs=30, n=4, d=2, classes=2, adj=44, depth=2, crit=ENT))
quick.append(t(secs=60, n=5, d=1, classes=2, adj=50, wpat=-2, wmax=2))

thorough = list(quick)
for crit in (GINI, ENT):
    for depth in (-1, 2):
        thorough.append(t(secs=900, jobs=16, n=5, d=1, classes=2, crit=crit, depth=depth))
    thorough.append(t(secs=1500, jobs=16, n=5, d=1, classes=3, crit=crit))
    thorough.append(t(secs=2400, jobs=16, n=4, d=2, classes=2, crit=crit))
    thorough.append(t(secs=900, jobs=16, n=4, d=1, classes=2, crit=crit, wpat=-2, wmax=2))
    thorough.append(t(secs=900, jobs=16, n=4, d=1, classes=3, crit=crit, canon=0))
    thorough.append(t(secs=900, jobs=16, n=3, d=2, classes=3, crit=crit, wpat=-2, wmax=2))
    thorough.append(t(secs=900, jobs=16, n=4, d=2, classes=3, crit=crit, distinct=1))
    for ltype in (1, 2):
        thorough.append(t(secs=300, jobs=2, n=4, d=1, classes=2 if ltype == 1 else 3, crit=crit, ltype=ltype))
    # hyper-parameter grid on four rows
    for depth in (-1, 0, 1, 2):
        for mws4 in (4, 8, 12, 16):
            for mwl4 in (2, 4, 8):
                for mid_e6 in (10, 125000, 500000):
                    thorough.append(t(secs=300, n=4, d=1, classes=2, crit=crit, depth=depth, mws4=mws4, mwl4=mwl4, mid_e6=mid_e6))
thorough.append(t(secs=1800, jobs=16, n=4, d=1, classes=2, wpat=-2, wmax=3))
thorough.append(t(secs=1800, jobs=16, n=5, d=1, classes=2, distinct=1, wpat=-2, wmax=2))
# larger coordinate bound (slow refutations, see module doc)
thorough.append(t(secs=300, jobs=2, qto=30000, n=3, d=1, classes=2, B=64))
thorough.append(t(secs=600, jobs=4, qto=60000, n=3, d=1, classes=2, B=256))
thorough.append(t(secs=900, jobs=16, qto=30000, n=4, d=1, classes=2, B=64))

REG = {"C14": {"quick": quick, "thorough": thorough}}

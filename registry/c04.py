"""C04 (hyper-parameter guards) is checked by Engine K only: Kani/CBMC proof harnesses in /verif/hk,
driven by /verif/hk/run_kani.py.  No Engine S jobs."""
import os, sys

_HK = os.path.join(os.path.dirname(os.path.dirname(os.path.abspath(__file__))), "hk")
if _HK not in sys.path:
    sys.path.insert(0, _HK)


def _kani(tier, seed):
    import run_kani
    return run_kani.run("C04", tier, seed)


REG = {"C04": {"quick": [], "thorough": []}}
EXTRA = {"C04": _kani}

"""C09 — k-means.  metric: 1 = L1Dist, 2 = L2Dist (its `distance`, used only by fit's convergence test,
concretises -> budget 1 only, allow concretised), 3 / 4 = the real L1 / L2 `rdistance` with a convergence test
that never fires (harness-side `NoStop` wrapper): the iteration budget is then the only stop criterion.
Jobs in a *recorded* defect region are appended only when known_findings.json has an entry for them."""
import json, os
from registry import job

L1, L2, NS1, NS2 = 1, 2, 3, 4
CONC = ("concretised",)


def recorded(harness, check_prefix):
    p = os.path.join(os.path.dirname(os.path.dirname(__file__)), "known_findings.json")
    try:
        fs = json.load(open(p)).get("findings", [])
    except Exception:
        return False
    return any(f.get("property") == "C09" and f.get("harness") == harness and f.get("check", "").startswith(check_prefix) for f in fs)


quick, extra, findings = [], [], []

# ---- predict / transform of a model with given symbolic centroids (exact terms, ties included)
for metric in (L1, L2, NS1):
    for k, d, q in ((2, 1, 1), (2, 1, 2), (3, 1, 1), (2, 2, 1), (3, 2, 1)):
        quick.append(job("c09.assign", secs=60, src=0, k=k, d=d, q=q, metric=metric))
quick.append(job("c09.assign", secs=60, src=0, k=3, d=1, q=2, metric=L1))
# many centroids, one new point (code paths selected by the number of clusters)
for metric in (L1, L2):
    quick.append(job("c09.assign", secs=120, jobs=2, src=0, k=9, d=1, q=1, metric=metric))
quick.append(job("c09.assign", secs=120, jobs=4, src=0, k=12, d=1, q=1, metric=L2))
extra.append(job("c09.assign", secs=300, src=0, k=3, d=1, q=2, metric=L2))
extra.append(job("c09.assign", secs=300, jobs=4, src=0, k=3, d=2, q=2, metric=L1))
# ---- the same on a fitted model (new points and the training rows)
for n, k, d, iters in ((2, 2, 1, 1), (3, 2, 1, 1), (2, 2, 1, 2), (2, 2, 2, 1)):
    quick.append(job("c09.assign", secs=90, src=1, n=n, k=k, d=d, q=1, iters=iters, metric=NS1))
quick.append(job("c09.assign", secs=90, qto=20000, src=1, n=2, k=2, d=1, q=1, iters=1, metric=NS2))
quick.append(job("c09.assign", secs=90, qto=20000, allow=CONC, src=1, n=2, k=2, d=1, q=1, iters=1, metric=L2))
extra.append(job("c09.assign", secs=300, src=1, n=2, k=2, d=1, q=1, iters=1, metric=L1, tolshift=1))
extra.append(job("c09.assign", secs=600, jobs=8, src=1, n=3, k=2, d=1, q=1, iters=2, metric=NS1))
extra.append(job("c09.assign", secs=600, jobs=8, src=1, n=3, k=3, d=1, q=1, iters=1, metric=NS1))
extra.append(job("c09.assign", secs=600, jobs=4, src=1, n=3, k=2, d=1, q=1, iters=1, metric=NS2))
extra.append(job("c09.assign", secs=600, jobs=4, src=1, n=2, k=2, d=1, q=1, iters=2, metric=L1, tolshift=1))

# ---- one Lloyd step
for metric, allow in ((NS1, ()), (NS2, ()), (L2, CONC)):
    for n, k, d in ((3, 2, 1), (4, 2, 1), (5, 2, 1), (3, 3, 1), (3, 2, 2), (4, 2, 2)):
        quick.append(job("c09.lloyd", secs=90, allow=allow, n=n, k=k, d=d, metric=metric))
    quick.append(job("c09.lloyd", secs=150, qto=20000, jobs=4, allow=allow, n=4, k=3, d=1, metric=metric))
    extra.append(job("c09.lloyd", secs=900, jobs=16, allow=allow, n=5, k=3, d=1, metric=metric))
    extra.append(job("c09.lloyd", secs=900, jobs=8, allow=allow, n=5, k=2, d=2, metric=metric))
for n in (3, 4):
    quick.append(job("c09.lloyd", secs=120, qto=20000, n=n, k=2, d=1, metric=L1, tolshift=1))   # real L1Dist convergence test, tolerance 1/2
extra.append(job("c09.lloyd", secs=300, n=5, k=2, d=1, metric=L1, tolshift=1))
extra.append(job("c09.lloyd", secs=300, n=3, k=2, d=1, metric=L1))                  # tolerance 2^-40: the "converged" flip is hard for z3

# ---- one / two iterations on large data sets (one or two symbolic rows among 520-1100 fixed ones): code paths
#      selected by the number of samples.  "inexact": the interval bound of sums over hundreds of rounded terms
#      exceeds 2^53 although the values do not; such terms are classed as rounded and the obligation has a tolerance
for metric in (NS1, NS2):
    quick.append(job("c09.lloyd_wide", secs=60, allow=("inexact",), n=600, k=2, d=1, sym=1, metric=metric))
    quick.append(job("c09.lloyd_wide", secs=60, allow=("inexact",), n=600, k=2, d=1, sym=1, m=2, metric=metric))
    quick.append(job("c09.lloyd_wide", secs=90, allow=("inexact",), n=1100, k=3, d=2, sym=1, metric=metric))
quick.append(job("c09.lloyd_wide", secs=60, allow=("inexact",), n=520, k=2, d=1, sym=2, metric=L1, tolshift=-9))
# clusters made of copies of their own start centroid (48, 97, 106 copies ...): the update has to return it exactly
for n, k in ((96, 2), (291, 3), (212, 2), (1000, 2)):
    quick.append(job("c09.lloyd_wide", secs=30, allow=("inexact",), n=n, k=k, d=2, sym=0, dup=1, m=2, metric=NS2))
extra.append(job("c09.lloyd_wide", secs=600, jobs=4, allow=("inexact",), n=520, k=2, d=1, sym=2, csym=1, B=16, metric=NS1))
extra.append(job("c09.lloyd_wide", secs=300, allow=("inexact",), n=2100, k=4, d=2, sym=1, m=2, metric=NS2))

# ---- cost monotonicity (squared Euclidean cost).  The solver (z3 4.8.12, mixed Int/Real non-linear) decides the
#      plain statement only for the smallest shapes; for k=2, n=3 the statement is also submitted together with the
#      two steps of the textbook argument (lemmas=2: steps => statement; lemmas=4: step `which` or statement).
for n, m in ((3, 1), (3, 2)):
    quick.append(job("c09.mono", secs=60, qto=20000, n=n, k=1, d=1, m=m, B=16, metric=NS2))
quick.append(job("c09.mono", secs=90, qto=20000, n=2, k=2, d=1, m=1, B=4, metric=NS2))
quick.append(job("c09.mono", secs=90, qto=20000, n=2, k=2, d=1, m=1, B=16, metric=NS1, cost=2))
quick.append(job("c09.mono", secs=60, n=3, k=2, d=1, m=1, B=16, metric=NS1, cost=2, lemmas=2))
for which in (3, 4):
    quick.append(job("c09.mono", secs=90, qto=15000, n=3, k=2, d=1, m=1, B=16, metric=NS1, cost=2, lemmas=4, which=which))
extra.append(job("c09.mono", secs=600, n=4, k=1, d=1, m=1, B=16, metric=NS2))
extra.append(job("c09.mono", secs=600, n=2, k=2, d=1, m=2, B=16, metric=NS1, cost=2))
extra.append(job("c09.mono", secs=300, jobs=4, n=3, k=2, d=1, m=1, B=16, metric=NS1, cost=2))
extra.append(job("c09.mono", secs=900, jobs=4, n=3, k=2, d=1, m=2, B=16, metric=NS1, cost=2, lemmas=2))
for which in range(3):   # the "nearest label" steps in squared form: undecided by z3 on almost every path (witness-checked only)
    extra.append(job("c09.mono", secs=240, jobs=4, n=3, k=2, d=1, m=1, B=16, metric=NS1, cost=2, lemmas=4, which=which))

# ---- reported inertia / counts vs the returned centroids, outside the recorded defect region
#      (region 0: the last update left every centroid where it was)
for n, k, d, m in ((3, 2, 1, 1), (4, 2, 1, 1), (3, 3, 1, 1), (3, 2, 2, 1), (3, 2, 1, 2)):
    quick.append(job("c09.report", secs=120, qto=20000, n=n, k=k, d=d, m=m, metric=NS1, region=0))
extra.append(job("c09.report", secs=300, n=3, k=2, d=1, m=1, metric=NS2, region=0))
extra.append(job("c09.report", secs=600, jobs=4, n=4, k=2, d=1, m=2, metric=NS1, region=0))
extra.append(job("c09.report", secs=600, jobs=4, n=4, k=2, d=1, m=1, metric=NS2, region=0))
# runs that stop on the *tolerance* criterion with the last update having moved the centroids (real L1Dist
# convergence test, tolerance 2^9 > every possible shift: declared converged after the first update); region=2: no
# assumption on whether the last update moved anything
for n, k, d in ((3, 2, 1), (4, 2, 1), (5, 2, 1), (4, 3, 1), (3, 2, 2)):
    quick.append(job("c09.report", secs=120, qto=20000, n=n, k=k, d=d, m=2, metric=L1, tolshift=-9, region=2))
extra.append(job("c09.report", secs=600, jobs=4, n=5, k=3, d=1, m=3, metric=L1, tolshift=-9, region=2))
extra.append(job("c09.report", secs=600, jobs=4, n=4, k=2, d=2, m=3, metric=L1, tolshift=-9, region=2))
for ob in (1, 2):
    findings.append(job("c09.report", secs=60, n=3, k=2, d=1, m=1, metric=NS1, region=1, ob=ob))
    findings.append(job("c09.report", secs=60, n=3, k=2, d=1, m=1, metric=NS2, region=1, ob=ob))

# ---- restarts (KMeansInit::Random, seeded generator): part 0 = inertia / centroids, part 1 = counts when the
#      last restart is the one returned; part 2 (recorded defect region) = an earlier restart is returned
for metric in (NS1, NS2):
    for seed in range(4):
        for n, k, m in ((3, 2, 1), (4, 2, 1), (4, 3, 1)):
            for part in (0, 1):
                quick.append(job("c09.restarts", secs=90, n=n, k=k, d=1, m=m, seed=seed, metric=metric, part=part))
        findings.append(job("c09.restarts", secs=60, n=4, k=2, d=1, m=1, seed=seed, metric=metric, part=2))
    for seed in range(2):
        for part in (0, 1):
            extra.append(job("c09.restarts", secs=600, jobs=4, n=4, k=2, d=1, m=2, seed=seed, metric=metric, part=part))
for seed in range(4, 8):
    for part in (0, 1):
        extra.append(job("c09.restarts", secs=300, n=5, k=2, d=1, m=1, seed=seed, metric=NS1, part=part))
        extra.append(job("c09.restarts", secs=300, n=3, k=2, d=2, m=1, seed=seed, metric=NS1, part=part))

if recorded("c09.report", "report."):
    quick += [j for j in findings if j["h"] == "c09.report"]
if recorded("c09.restarts", "restarts.cluster_count"):
    quick += [j for j in findings if j["h"] == "c09.restarts"]
thorough = quick + extra

REG = {"C09": {"quick": quick, "thorough": thorough}}

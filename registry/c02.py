from registry import job

# C02.  nt = 0: Ix1 targets, nt = c > 0: Ix2 targets with c columns; base = 0 owned dataset, 1 view;
# w / names: dataset carries weights / feature+target names.  Operation numbers (opa, opb, opc):
VIEW, TO_OWNED, SPLIT_VIEW, SPLIT_OWNED, SHUFFLE, BOOT, BOOT_S, BOOT_F, CHUNKS, SAMPLE_IT, TARGET_IT, FEATURE_IT, MAP_T, FOLD, SINGLE = range(15)


def ops_depth1(nmax):
    js = []
    for n in range(1, nmax + 1):
        for nf in (1, 2, 3):
            for nt in (0, 1, 2):
                for base in (0, 1):
                    i = n + nf + nt + base
                    wn = ((1, 1), (0, 0), (1, 0), (0, 1))[i % 4]
                    rn, rd = ((1, 2), (3, 10), (2, 3), (9, 10), (1, 4))[i % 5]
                    js.append(job("c02.ops", secs=60, n=n, nf=nf, nt=nt, base=base, w=wn[0], names=wn[1], depth=1, rn=rn, rd=rd, seed=i, bs=1 + (i % (n + 1)), bf=1 + (i % (nf + 1))))
                    if n <= 4:
                        js.append(job("c02.ops", secs=60, n=n, nf=nf, nt=nt, base=base, w=1 - wn[0], names=1 - wn[1], depth=1, rn=rd - rn, rd=rd, seed=i + 7, bs=n + 1, bf=nf))
    return js


def split_sweeps(nmax):
    # every ratio of the built-in table (all a/b, b <= 16, their f32 neighbours, decimal literals) per job
    js = []
    for n in range(1, nmax + 1):
        for op in (SPLIT_VIEW, SPLIT_OWNED):
            for base in (0, 1):
                for nt in (0, 2):
                    js.append(job("c02.ops", secs=60, n=n, nf=1 + n % 2, nt=nt, base=base, w=1, names=(n + nt) % 2, depth=1, rsweep=1, opa=op))
    return js


def compositions(nmax, depth, seeds=(1,)):
    js = []
    for n in range(2, nmax + 1):
        for nf in (1, 2):
            for nt in (0, 1, 2):
                for base in (0, 1):
                    for (rn, rd, rn2, rd2) in ((1, 2, 1, 3), (3, 10, 2, 3), (1, 1, 1, 2), (2, 3, 0, 1)):
                        for seed in seeds:
                            js.append(job("c02.ops", secs=120, n=n, nf=nf, nt=nt, base=base, w=1, names=1, depth=depth, rn=rn, rd=rd, rn2=rn2, rd2=rd2, seed=seed + n, bs=n, bf=nf))
    return js


def rng_jobs(deep):
    js = []
    for n in range(2, 7 if deep else 6):
        for (nt, base) in ((0, 0), (2, 1)):
            js.append(job("c02.rng", secs=300, n=n, nf=2, nt=nt, base=base, opa=SHUFFLE, depth=1))
    for (n, nf, bs, bf) in ((3, 2, 2, 1), (2, 2, 2, 2), (3, 2, 1, 2)) + (((3, 2, 2, 2), (3, 3, 2, 2)) if deep else ()):
        js.append(job("c02.rng", secs=600, n=n, nf=nf, nt=0, base=0, opa=BOOT, bs=bs, bf=bf, depth=1))
        js.append(job("c02.rng", secs=600, n=n, nf=nf, nt=2, base=1, opa=BOOT, bs=bs, bf=bf, depth=1))
    for (n, bs) in ((3, 3), (4, 2), (2, 3)) + (((4, 3), (5, 2)) if deep else ()):
        js.append(job("c02.rng", secs=600, n=n, nf=2, nt=n % 2 * 2, base=n % 2, opa=BOOT_S, bs=bs, depth=1))
    for (nf, bf) in ((3, 2), (2, 3)) + (((3, 3), (4, 2)) if deep else ()):
        js.append(job("c02.rng", secs=600, n=2, nf=nf, nt=nf % 2 * 2, base=nf % 2, opa=BOOT_F, bf=bf, depth=1))
    # an operation on the shuffled / bootstrapped result, for every draw
    js.append(job("c02.rng", secs=600, n=3, nf=2, nt=0, base=0, opa=SHUFFLE, depth=2, opb=SPLIT_OWNED))
    js.append(job("c02.rng", secs=600, n=3, nf=2, nt=2, base=1, opa=SHUFFLE, depth=2, opb=TARGET_IT))
    js.append(job("c02.rng", secs=600, n=2, nf=2, nt=0, base=0, opa=BOOT, bs=2, bf=2, depth=2, opb=FEATURE_IT))
    return js


def label_jobs(deep):
    js = []
    shapes = [(1, 2, 0), (2, 2, 0), (3, 2, 0), (3, 3, 0), (4, 3, 0), (2, 2, 2), (3, 2, 2), (2, 3, 2)]
    if deep:
        shapes += [(5, 3, 0), (4, 4, 0), (6, 2, 0), (3, 3, 2), (4, 2, 2)]
    for (n, cls, nt) in shapes:
        for mask in range(0, 2 ** cls):
            i = n + cls + nt + mask
            js.append(job("c02.labels", secs=900, jobs=4 if cls ** (n * max(nt, 1)) > 500 else 1, n=n, nf=1 + i % 2, cls=cls, nt=nt, mask=mask, mask2=(mask * 3 + 1) % (2 ** cls), w=(i // 2) % 2, names=i % 2, rn=1 + i % 2, rd=3, seed=i))
    ushapes = [(1, 2, 0), (2, 3, 0), (3, 3, 0), (4, 3, 0), (5, 2, 0), (2, 2, 2), (3, 2, 2), (2, 3, 2)] + ([(5, 3, 0), (6, 3, 0), (3, 3, 2), (4, 2, 2)] if deep else [])
    for (n, cls, nt) in ushapes:
        for mask in range(0, 2 ** cls):
            i = n + cls + nt + mask
            js.append(job("c02.labels_usize", secs=300, n=n, nf=1 + i % 2, cls=cls, nt=nt, mask=mask, mask2=(mask * 5 + 2) % (2 ** cls), w=i % 2, names=(i // 2) % 2, rn=1 + i % 2, rd=3, seed=i))
    return js


# target_iter on single-target (Ix1) datasets: see report (panics in DatasetIter::next, iter.rs:88)
target_iter_ix1 = [job("c02.ops", secs=30, n=3, nf=2, nt=0, base=b, depth=1, opa=TARGET_IT, ti1=1) for b in (0, 1)]


def offset_jobs(nmax):
    # owned arrays that carry an offset into their backing vector (an owned array after slice_move /
    # slice_axis_inplace): every operation, and the owned split over the whole ratio table
    js = []
    for n in range(1, nmax + 1):
        for nt in (0, 2):
            i = n + nt
            js.append(job("c02.ops", secs=60, n=n, nf=1 + n % 3, nt=nt, base=0, off=1, w=i % 2, names=(i // 2) % 2, depth=1, rn=(1, 3, 2)[i % 3], rd=(2, 10, 3)[i % 3], seed=i, bs=n, bf=1))
            js.append(job("c02.ops", secs=60, n=n, nf=1 + n % 2, nt=nt, base=0, off=1, w=1, names=1, depth=1, rsweep=1, opa=SPLIT_OWNED))
    for n in (3, 4):
        js.append(job("c02.ops", secs=120, n=n, nf=2, nt=0, base=0, off=1, w=1, names=1, depth=2, rn=1, rd=2, rn2=2, rd2=3, seed=n, bs=n, bf=2))
    return js


quick = offset_jobs(6) + ops_depth1(8) + split_sweeps(8) + compositions(5, 2) + compositions(3, 3) + rng_jobs(False) + label_jobs(False) + target_iter_ix1
thorough = offset_jobs(10) + ops_depth1(12) + split_sweeps(12) + compositions(5, 2, seeds=(1, 2, 3)) + compositions(4, 3) + rng_jobs(True) + label_jobs(True) + target_iter_ix1

REG = {"C02": {"quick": quick, "thorough": thorough}}

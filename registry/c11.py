from registry import job

# obligation groups of c11.enet / c11.mtenet (bit mask `ob`)
KKT_W, ZERO, GAP_SIGN, ICPT, GAP_BOUND = 1, 2, 4, 8, 16
FINITE = 32  # c11.mtenet only
ALL = 31
MT_ALL = 15 | FINITE

# Outputs of these estimators are rational / algebraic functions of the inputs (QR: sqrt and division;
# coordinate descent: division).  z3 decides the path conditions and obligations of the smallest shapes
# only; everywhere else queries run into the per-query timeout, the job is reported non-exhaustive and
# the obligations are evaluated on the path witnesses (bug hunting).  `div` adds harness-side sign/order
# branches on the inputs so that more witnesses are evaluated; `qto` keeps undecidable queries cheap.
# "inexact" is allowed: the interval bound of a few exact harness-side polynomials exceeds 2^53 although
# the values do not; such terms are treated as rounded (fail closed) and every obligation has a tolerance.
AL = ("inexact",)

quick = []
# ---- OLS -------------------------------------------------------------------------------------------
quick.append(job("c11.ols", secs=40, qto=3000, allow=AL, n=2, p=1, icpt=0))           # closes: 3 paths, all obligations proved
quick.append(job("c11.ols", secs=40, qto=2000, allow=AL, n=3, p=1, icpt=0))           # paths close, obligations undecided (NRA)
quick.append(job("c11.ols", secs=40, qto=2000, allow=AL, n=4, p=1, icpt=0))
quick.append(job("c11.ols", secs=90, qto=400, allow=AL, n=2, p=1, icpt=1, div=4))
quick.append(job("c11.ols", secs=90, qto=400, allow=AL, n=3, p=1, icpt=1, div=4))
quick.append(job("c11.ols", secs=90, qto=400, allow=AL, n=3, p=2, icpt=0, div=4))
quick.append(job("c11.ols", secs=90, qto=400, allow=AL, n=4, p=2, icpt=1, div=4))

# ---- elastic net / lasso / ridge, p = 1 --------------------------------------------------------------
# penalty = pen/8, l1_ratio = l1/4
for n in (2, 3):
    for pen, l1 in ((0, 2), (2, 0), (2, 4), (8, 2), (32, 4)):
        q = 600 if n == 2 else 800
        # no intercept: everything must hold whatever the offsets of the features
        quick.append(job("c11.enet", secs=60, qto=q, allow=AL, n=n, p=1, icpt=0, pen=pen, l1=l1, ob=ALL, div=2))
        # intercept, centred features: everything must hold
        quick.append(job("c11.enet", secs=60, qto=q, allow=AL, n=n, p=1, icpt=1, centred=1, pen=pen, l1=l1, ob=ALL, div=2))
        # intercept, features with an offset: stationarity in w, exact zeros, gap >= 0 hold ...
        quick.append(job("c11.enet", secs=60, qto=q, allow=AL, n=n, p=1, icpt=1, centred=0, pen=pen, l1=l1, ob=KKT_W | ZERO | GAP_SIGN, div=2))
# ... stationarity in the intercept and "gap bounds the suboptimality" do not (compute_intercept = target mean only)
quick.append(job("c11.enet", secs=30, qto=600, allow=AL, n=2, p=1, icpt=1, centred=0, pen=0, l1=2, ob=ICPT))
quick.append(job("c11.enet", secs=30, qto=600, allow=AL, n=2, p=1, icpt=1, centred=0, pen=0, l1=2, ob=GAP_BOUND))
# p = 2 (KKT / exact zero for the last coordinate of a sweep; gap and intercept for the returned point)
quick.append(job("c11.enet", secs=90, qto=400, allow=AL, n=3, p=2, icpt=0, pen=2, l1=2, iters=4, ob=ALL, div=3))
quick.append(job("c11.enet", secs=90, qto=400, allow=AL, n=3, p=2, icpt=1, centred=1, pen=2, l1=4, iters=4, ob=ALL, div=3))

# ---- multi-task elastic net, 2 tasks, p = 1 -----------------------------------------------------------
# l1 threshold n*penalty*l1_ratio > 0: everything holds.  Threshold 0 (penalty 0 or ridge): block_soft_thresholding
# computes 0/0 when the feature is orthogonal to the residuals -> NaN; isolated under FINITE, the rest is
# checked on the remaining paths (ob without FINITE skips the aborted path)
for pen, l1 in ((2, 4), (8, 2), (2, 1)):
    quick.append(job("c11.mtenet", secs=60, qto=400, allow=AL, n=2, icpt=0, pen=pen, l1=l1, ob=MT_ALL, div=2))
    quick.append(job("c11.mtenet", secs=60, qto=400, allow=AL, n=2, icpt=1, centred=1, pen=pen, l1=l1, ob=MT_ALL, div=2))
    quick.append(job("c11.mtenet", secs=60, qto=400, allow=AL, n=2, icpt=1, centred=0, pen=pen, l1=l1, ob=KKT_W | ZERO | GAP_SIGN | FINITE, div=2))
for pen, l1 in ((0, 2), (4, 0)):
    quick.append(job("c11.mtenet", secs=60, qto=400, allow=AL, n=2, icpt=0, pen=pen, l1=l1, ob=MT_ALL & ~FINITE, div=2))
    quick.append(job("c11.mtenet", secs=60, qto=400, allow=AL, n=2, icpt=1, centred=1, pen=pen, l1=l1, ob=MT_ALL & ~FINITE, div=2))
    quick.append(job("c11.mtenet", secs=30, qto=400, allow=AL, n=2, icpt=0, pen=pen, l1=l1, ob=FINITE, div=2))
quick.append(job("c11.mtenet", secs=30, qto=600, allow=AL, n=2, icpt=1, centred=0, pen=2, l1=2, ob=ICPT))

thorough = list(quick)
for n, p, icpt in ((3, 1, 1), (4, 1, 1), (3, 2, 0), (4, 2, 0), (3, 2, 1), (4, 2, 1)):
    thorough.append(job("c11.ols", secs=300, jobs=2, qto=2000, allow=AL, n=n, p=p, icpt=icpt, div=8))
for n in (2, 3, 4):
    for pen in (0, 1, 16):
        for l1 in (0, 1, 4):
            thorough.append(job("c11.enet", secs=200, qto=2000, allow=AL, n=n, p=1, icpt=0, pen=pen, l1=l1, ob=ALL, div=6))
            thorough.append(job("c11.enet", secs=200, qto=2000, allow=AL, n=n, p=1, icpt=1, centred=1, pen=pen, l1=l1, ob=ALL, div=6))
            thorough.append(job("c11.enet", secs=200, qto=2000, allow=AL, n=n, p=1, icpt=1, centred=0, pen=pen, l1=l1, ob=KKT_W | ZERO | GAP_SIGN, div=6))
for pen, l1 in ((0, 2), (2, 2), (8, 4)):
    for icpt, centred in ((0, 0), (1, 1)):
        thorough.append(job("c11.enet", secs=300, jobs=2, qto=2000, allow=AL, n=3, p=2, icpt=icpt, centred=centred, pen=pen, l1=l1, iters=6, ob=ALL, div=8))
for n in (2, 3):
    for pen, l1 in ((2, 4), (8, 2), (1, 1), (16, 4)):
        thorough.append(job("c11.mtenet", secs=200, qto=2000, allow=AL, n=n, icpt=0, pen=pen, l1=l1, ob=MT_ALL, div=6))
        thorough.append(job("c11.mtenet", secs=200, qto=2000, allow=AL, n=n, icpt=1, centred=1, pen=pen, l1=l1, ob=MT_ALL, div=6))
        thorough.append(job("c11.mtenet", secs=200, qto=2000, allow=AL, n=n, icpt=1, centred=0, pen=pen, l1=l1, ob=KKT_W | ZERO | GAP_SIGN | FINITE, div=6))
    for pen, l1 in ((0, 2), (4, 0)):
        thorough.append(job("c11.mtenet", secs=200, qto=2000, allow=AL, n=n, icpt=0, pen=pen, l1=l1, ob=MT_ALL & ~FINITE, div=6))

REG = {"C11": {"quick": quick, "thorough": thorough}}

# Entries proposed for known_findings.json (genuine defect, reproduced natively; see the module report)
# multi-task with two features: the sign of the reported duality gap at inexact points (small iteration budgets)
for iters in (2, 6, 10):
    for pen, l1 in ((24, 2), (48, 2), (8, 1)):
        quick.append(job("c11.mtenet", secs=60, qto=400, allow=AL, n=3, p=2, icpt=0, centred=0, pen=pen, l1=l1, iters=iters, ob=GAP_SIGN | FINITE, div=3))
        # (n = 4 is not run: for f64 ndarray multiplies 2-D arrays with matrixmultiply's FMA kernels, for any other scalar
        #  with plain loops; from four rows on the two differ in the last bits, the witness validation reports the
        #  mismatch and the job would be inconclusive)
        thorough.append(job("c11.mtenet", secs=300, qto=1000, allow=AL, n=3, p=2, icpt=0, centred=0, pen=pen, l1=l1, iters=iters, ob=GAP_SIGN | FINITE, div=5))

# multi-task, two ORTHOGONAL feature columns (sum_i x_i0*x_i1 = 0), no intercept: one sweep is exact for every row, so the
# returned point must satisfy the group-lasso KKT conditions in every row of W (a per-row scaling taken from the wrong
# column - seeded change S105 - only shows with two features of different norms)
quick.append(job("c11.mtenet", secs=60, qto=400, allow=AL, n=3, p=2, icpt=0, centred=0, pen=2, l1=2, iters=4, orth=1, ob=KKT_W | GAP_SIGN | FINITE, div=3))
thorough.append(job("c11.mtenet", secs=60, qto=400, allow=AL, n=3, p=2, icpt=0, centred=0, pen=2, l1=2, iters=4, orth=1, ob=KKT_W | GAP_SIGN | FINITE, div=3))

# multi-task jobs with two features multiply 2-D arrays (X^T R): for f64 ndarray calls matrixmultiply's FMA kernels, for
# any other scalar plain loops; outputs agree to rounding only, so the witness validation compares them to 1e-9 relative
for _j in quick + thorough:
    if _j["h"] == "c11.mtenet" and _j["p"].get("p", 1) >= 2:
        _j["obs_reltol"] = 1e-9

SUGGESTED_KNOWN_FINDINGS = [
    {"property": "C11", "harness": "c11.enet", "params": {"icpt": 1, "centred": 0, "ob": ICPT}, "check": "enet.intercept stationarity (mean residual zero)",
     "what": "ElasticNet::fit with_intercept on un-centred features: compute_intercept (algorithm.rs:514) returns the target mean and never subtracts mean(X).w, so (w,b) is not stationary in b; x=(1,2), y=(1,2), penalty 0: w=0.1, b=1.5, sum of residuals -0.3 (the minimiser is w=1, b=0)"},
    {"property": "C11", "harness": "c11.enet", "params": {"icpt": 1, "centred": 0, "ob": GAP_BOUND}, "check": "enet.no perturbation of (w,b) lowers the objective by more than the duality gap",
     "what": "same root cause: the reported duality gap (0) is that of the problem with b fixed to mean(y); moving b lowers the objective by more"},
    {"property": "C11", "harness": "c11.mtenet", "params": {"icpt": 1, "centred": 0, "ob": ICPT}, "check": "mtenet.intercept stationarity (mean residual zero per task)",
     "what": "same root cause in MultiTaskElasticNet::fit (compute_intercept, algorithm.rs:514)"},
    {"property": "C11", "harness": "c11.mtenet", "params": {"ob": FINITE}, "check": "mtenet.coefficients, intercepts and gap are finite",
     "what": "MultiTaskElasticNet with l1 threshold 0 (penalty 0 or ridge) and a feature orthogonal to the residuals: block_soft_thresholding (algorithm.rs:399-406) tests norm_x < threshold (0 < 0 is false) and then computes 1 - 0/0 = NaN; x=(1,-1), Y=[[1,2],[1,2]], ridge penalty 0.5: hyperplane [[NaN,NaN]], gap NaN"},
]

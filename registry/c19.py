from registry import job

# All C19 obligations are decided on the path (term identity, equality of discrete data); the solver only
# enumerates the paths of the real fit.  Hence:
#  "inexact"     - products with non-dyadic constants (QR factors of a constant design, the FTRL start vector)
#                  exceed the interval bound; no obligation reasons about a value, only about term identity.
#  "div0"        - paths on which the fit itself divides by a symbolic zero (degenerate targets) are not continued;
#                  nothing is claimed there.
#  "concretised" - an invalid hyper-parameter is copied into the error value as f32/f64 (FtrlError, ElasticNetError,
#                  NaiveBayesError); original and restored set do that with the same value.
INEX = ("inexact",)
FIT = ("inexact", "div0")
ERRVAL = ("concretised",)

quick = [
    job("c19.plain", secs=20),
    # genuine defect (serde(skip) on a middle variant of linfa::Error shifts the bincode variant indices), kept apart
    job("c19.error_after_skip", secs=20),
    job("c19.glm", secs=20),
]
for which in range(7):
    quick.append(job("c19.params", secs=30, allow=ERRVAL, which=which))

# k-means (L1, precomputed symbolic centroids)
quick.append(job("c19.kmeans", secs=60, n=2, k=2, d=1, iters=1))
quick.append(job("c19.kmeans", secs=60, n=3, k=2, d=1, iters=1))
quick.append(job("c19.kmeans", secs=90, n=2, k=2, d=2, iters=1))

# OLS / elastic net / multi-task elastic net
quick.append(job("c19.linear", secs=60, allow=INEX, which=0, n=2, p=1, icpt=0, xconst=0))
for icpt in (0, 1):
    quick.append(job("c19.linear", secs=30, allow=INEX, which=0, n=3, p=2, icpt=icpt, xconst=1))
    quick.append(job("c19.linear", secs=60, allow=FIT, which=1, n=2, p=1, icpt=icpt, xconst=1, iters=1, qto=200000))
quick.append(job("c19.multitask", secs=60, allow=FIT, n=2, p=1, t=1, icpt=0, xconst=1, qto=20000))

# scalers: standard (3 variants), min-max (default and symbolic range), max-abs, three norms
for which in range(9):
    quick.append(job("c19.scaler", secs=30, which=which, n=2, d=1, qto=20000))
quick.append(job("c19.scaler", secs=60, which=0, n=2, d=2, qto=20000))
quick.append(job("c19.scaler", secs=60, which=4, n=3, d=1, qto=20000))

quick.append(job("c19.ftrl", secs=30, allow=INEX, n=1, d=1))
quick.append(job("c19.optics", secs=30, n=3))
quick.append(job("c19.optics", secs=90, n=4))

for labels in (0b010, 0b011):
    quick.append(job("c19.tree", secs=60, n=3, d=1, labels=labels))
quick.append(job("c19.tree", secs=60, n=3, d=1, labels=0b010, crit=1))
quick.append(job("c19.tree", secs=120, n=4, d=1, labels=0b0110))

# naive Bayes keeps its classes in a std HashMap<usize, _>: with two classes the order in which linfa evaluates the
# per-class logarithms (each a recorded branch "argument > 0") changes from run to run, so the same input can have
# two traces and the explorer may report an unrealised flip.  The quick tier therefore uses one class (and a
# two-class multinomial case whose logarithm arguments are constants); two-class fits are in the thorough tier.
quick.append(job("c19.bayes", secs=60, allow=INEX, which=0, n=2, d=1, labels=0, qto=20000))
quick.append(job("c19.bayes", secs=60, allow=INEX, which=0, n=2, d=2, labels=0, qto=20000))
quick.append(job("c19.bayes", secs=60, allow=INEX, which=1, n=2, d=2, labels=0, qto=20000))
quick.append(job("c19.bayes", secs=60, allow=INEX, which=1, n=3, d=1, labels=0b110, qto=20000))

quick.append(job("c19.svm", secs=60, allow=INEX, which=0, kern=0, n=3, pat=5))
quick.append(job("c19.svm", secs=60, allow=INEX, which=0, kern=0, n=3, pat=3))
quick.append(job("c19.svm", secs=60, allow=INEX, which=0, kern=2, n=2, pat=1))
quick.append(job("c19.svm", secs=20, which=1))

# concrete f64 executions (not solver-decided): logistic (binary, multinomial), Gaussian mixture, whiteners,
# Tweedie, logistic parameter sets, isotonic, count vectoriser, tf-idf vectoriser
for which in range(8):
    quick.append(job("c19.concrete", secs=30, which=which))

# hard (non-linear) flip queries occasionally need more than the tier's default 5 s, depending on the start input
for _j in quick:
    _j.setdefault("qto", 20000)


# ---- thorough: larger fits; the ones marked (*) are known not to close (non-linear / uninterpreted flips that z3
# leaves undecided or that no concrete input realises) and are reported as non-exhaustive bug hunting
thorough = list(quick)
thorough.append(job("c19.kmeans", secs=300, jobs=4, n=3, k=2, d=1, iters=2, qto=2000))                            # (*)
thorough.append(job("c19.kmeans", secs=300, jobs=4, n=4, k=2, d=1, iters=1, qto=2000))                            # (*)
thorough.append(job("c19.linear", secs=300, allow=FIT, which=0, n=2, p=1, icpt=1, xconst=0, qto=1000))          # (*)
thorough.append(job("c19.linear", secs=120, allow=FIT, which=1, n=3, p=1, icpt=1, xconst=1, iters=2, qto=5000))  # (*) closes for some start inputs
thorough.append(job("c19.linear", secs=300, allow=FIT, which=1, n=3, p=2, icpt=1, xconst=1, iters=3, qto=1000))  # (*)
thorough.append(job("c19.multitask", secs=300, allow=FIT, n=2, p=1, t=2, icpt=0, xconst=1, qto=1000))            # (*)
thorough.append(job("c19.multitask", secs=300, allow=FIT, n=3, p=2, t=2, icpt=1, xconst=1, qto=1000))            # (*)
thorough.append(job("c19.ftrl", secs=300, allow=INEX, n=2, d=2, steps=2, qto=1000))                               # (*)
thorough.append(job("c19.tree", secs=300, jobs=4, allow=FIT, n=4, d=2, labels=0b0110))
thorough.append(job("c19.tree", secs=300, jobs=4, n=5, d=1, labels=0b01010, depth=3))
thorough.append(job("c19.bayes", secs=60, allow=INEX, which=0, n=2, d=1, labels=0b10, qto=2000))                  # (*) order
thorough.append(job("c19.bayes", secs=60, allow=INEX, which=1, n=2, d=2, labels=0b10, qto=2000))                  # (*) order
thorough.append(job("c19.bayes", secs=300, allow=INEX, which=0, n=3, d=2, labels=0b101, qto=1000))               # (*)
thorough.append(job("c19.bayes", secs=300, allow=INEX, which=1, n=3, d=2, labels=0b101, qto=1000))               # (*)
thorough.append(job("c19.svm", secs=300, allow=INEX, which=0, kern=2, n=3, pat=5))                                # (*)
thorough.append(job("c19.svm", secs=300, allow=INEX, which=0, kern=0, n=4, pat=6))                                # (*)
thorough.append(job("c19.optics", secs=300, jobs=4, n=3, d=2))
for which in (0, 1, 3, 5):
    thorough.append(job("c19.scaler", secs=120, which=which, n=3, d=2, qto=2000))

# remaining serialisable types (FastICA parameters symbolically; FastICA / PCA / PLS models as concrete f64 round trips)
_more = [job("c19.ica_params", secs=60, allow=("concretised",))] + [job("c19.decomposition_concrete", secs=60, which=w) for w in (0, 1, 2)]
quick += _more
thorough += _more

REG = {"C19": {"quick": quick, "thorough": thorough}}

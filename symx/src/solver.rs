//! SMT back end: one `z3 -in` process per explorer, incremental (push/pop), Int inputs, Real terms.
use crate::arena::{Arena, Uf, B, T};
use std::collections::HashSet;
use std::io::{BufRead, BufReader, Write};
use std::process::{Child, ChildStdin, Command, Stdio};
use std::sync::mpsc::{channel, Receiver, RecvTimeoutError};
use std::time::Duration;

#[derive(Debug, Clone, PartialEq)]
pub enum Answer {
    Sat(Vec<i64>),
    Unsat,
    Unknown(String),
}

pub struct Solver {
    child: Child,
    inp: ChildStdin,
    out: Receiver<String>,
    /// everything sent per open scope, so a hung solver can be killed and the context rebuilt
    frames: Vec<String>,
    pub restarts: u64,
    marker: u64,
    pub queries: u64,
    pub sat: u64,
    pub unsat: u64,
    pub unknown: u64,
    pub time_s: f64,
    pub errors: Vec<String>,
    pub binary: String,
    pub timeout_ms: u64,
    /// time limit of the current query (the per-query limit clamped to what is left of the job's budget)
    pub eff_ms: u64,
    pub deadline: Option<std::time::Instant>,
    pub log: Option<std::fs::File>,
}

impl Drop for Solver {
    fn drop(&mut self) {
        let _ = self.inp.write_all(b"(exit)\n");
        let _ = self.child.kill();
        let _ = self.child.wait();
    }
}

impl Solver {
    fn spawn(binary: &str, timeout_ms: u64) -> (Child, ChildStdin, Receiver<String>) {
        let mut cmd = Command::new(binary);
        if binary.contains("cvc5") {
            cmd.args(["--lang", "smt2", "--incremental", "--produce-models", &format!("--tlimit-per={}", timeout_ms)]);
        } else {
            cmd.args(["-in", "-smt2"]);
        }
        let mut child = cmd.stdin(Stdio::piped()).stdout(Stdio::piped()).stderr(Stdio::null()).spawn().expect("cannot start solver");
        let inp = child.stdin.take().unwrap();
        let stdout = child.stdout.take().unwrap();
        let (tx, rx) = channel();
        std::thread::spawn(move || {
            let mut r = BufReader::new(stdout);
            loop {
                let mut l = String::new();
                match r.read_line(&mut l) {
                    Ok(0) | Err(_) => break,
                    Ok(_) => {
                        if tx.send(l.trim().to_string()).is_err() {
                            break;
                        }
                    }
                }
            }
        });
        (child, inp, rx)
    }
    fn preamble(&self) -> String {
        let mut p = String::from("(set-option :print-success false)\n");
        if !self.binary.contains("cvc5") {
            p.push_str(&format!("(set-option :timeout {})\n", self.eff_ms));
        }
        p.push_str("(set-logic ALL)\n");
        p.push_str("(declare-fun uf_exp (Real) Real)\n(declare-fun uf_ln (Real) Real)\n(declare-fun uf_tanh (Real) Real)\n(declare-fun uf_pow (Real Real) Real)\n");
        p
    }
    pub fn new(binary: &str, timeout_ms: u64) -> Solver {
        let (child, inp, out) = Solver::spawn(binary, timeout_ms);
        let log = std::env::var("SYMX_SMT_LOG").ok().map(|p| std::fs::File::create(p).unwrap());
        let mut s = Solver { child, inp, out, frames: vec![String::new()], restarts: 0, marker: 0, queries: 0, sat: 0, unsat: 0, unknown: 0, time_s: 0.0, errors: vec![], binary: binary.to_string(), timeout_ms, eff_ms: timeout_ms, deadline: None, log };
        let p = s.preamble();
        s.raw(&p);
        s
    }
    fn raw(&mut self, s: &str) {
        if let Some(l) = self.log.as_mut() {
            let _ = l.write_all(s.as_bytes());
        }
        let _ = self.inp.write_all(s.as_bytes());
    }
    pub fn send(&mut self, s: &str) {
        self.frames.last_mut().unwrap().push_str(s);
        self.raw(s);
    }
    /// kill a solver that ignores its own timeout and rebuild the assertion stack in a new one
    fn restart(&mut self) {
        let _ = self.child.kill();
        let _ = self.child.wait();
        let (child, inp, out) = Solver::spawn(&self.binary, self.timeout_ms);
        self.child = child;
        self.inp = inp;
        self.out = out;
        self.restarts += 1;
        let mut all = self.preamble();
        for (i, f) in self.frames.iter().enumerate() {
            if i > 0 {
                all.push_str("(push 1)\n");
            }
            all.push_str(f);
        }
        self.raw(&all);
    }
    fn line(&mut self) -> String {
        let _ = self.inp.flush();
        match self.out.recv_timeout(Duration::from_millis(self.eff_ms + self.eff_ms / 4 + 3000)) {
            Ok(l) => l,
            Err(RecvTimeoutError::Timeout) => {
                self.restart();
                "timeout (solver killed by watchdog)".to_string()
            }
            Err(RecvTimeoutError::Disconnected) => {
                self.restart();
                "(error \"solver exited\")".to_string()
            }
        }
    }
    /// read one balanced s-expression (possibly spanning lines)
    fn sexp(&mut self) -> String {
        let mut acc = String::new();
        let mut depth: i64 = 0;
        loop {
            let l = self.line();
            for ch in l.chars() {
                if ch == '(' {
                    depth += 1
                } else if ch == ')' {
                    depth -= 1
                }
            }
            acc.push_str(&l);
            acc.push(' ');
            if depth <= 0 {
                return acc;
            }
        }
    }
    /// Forget everything and start a new top-level context.  Used once per explored run: z3 4.8.12 was
    /// observed to answer `unsat` on satisfiable flip queries after several hundred run-level push/pop
    /// cycles in one process (the same session with a `(reset)` per run, and z3 5.1, give the right answers).
    pub fn reset_context(&mut self) {
        self.raw("(reset)\n");
        self.frames = vec![String::new()];
        let p = self.preamble();
        self.raw(&p);
    }
    pub fn push(&mut self) {
        self.raw("(push 1)\n");
        self.frames.push(String::new());
    }
    pub fn pop(&mut self) {
        self.raw("(pop 1)\n");
        self.frames.pop();
    }
    /// read the solver's output up to the echo marker that follows a command; keeps the stream in step
    /// whatever the solver printed in between (answers, `(error ...)` lines, nothing at all)
    fn until_marker(&mut self) -> Vec<String> {
        self.marker += 1;
        let m = format!("<<{}>>", self.marker);
        self.raw(&format!("(echo \"{}\")\n", m));
        let mut got = vec![];
        loop {
            let l = self.line();
            if l.contains(&m) {
                return got;
            }
            if l.starts_with("timeout (solver killed") || l.contains("solver exited") {
                got.push(l);
                return got; // the process was replaced: nothing more will come
            }
            if !l.is_empty() {
                got.push(l);
            }
        }
    }
    pub fn check(&mut self, nvars: usize) -> Answer {
        let t0 = std::time::Instant::now();
        self.queries += 1;
        if let Some(d) = self.deadline {
            let left = d.saturating_duration_since(std::time::Instant::now()).as_millis() as u64;
            let eff = self.timeout_ms.min(left.max(2000));
            if eff != self.eff_ms && !self.binary.contains("cvc5") {
                self.eff_ms = eff;
                self.raw(&format!("(set-option :timeout {})\n", eff));
            }
        }
        self.raw("(check-sat)\n");
        let lines = self.until_marker();
        let verdict = lines.iter().find(|l| *l == "sat" || *l == "unsat" || *l == "unknown").cloned();
        for l in &lines {
            // `canceled` / `timeout` are how z3 reports its own time limit
            if l.contains("(error") && !l.contains("canceled") && !l.contains("timeout") {
                self.errors.push(l.clone());
            }
        }
        let ans = match verdict.as_deref() {
            Some("sat") => {
                if nvars == 0 {
                    Answer::Sat(vec![])
                } else {
                    let names: Vec<String> = (0..nvars).map(|i| format!("x{}", i)).collect();
                    self.raw(&format!("(get-value ({}))\n", names.join(" ")));
                    let txt = self.until_marker().join(" ");
                    match parse_values(&txt, nvars) {
                        Some(m) => Answer::Sat(m),
                        // a model that cannot be read (time limit hit while printing it) is an undecided query
                        None => Answer::Unknown(format!("no model: {}", &txt[..txt.len().min(120)])),
                    }
                }
            }
            Some("unsat") => Answer::Unsat,
            Some(_) => Answer::Unknown("unknown".into()),
            None => Answer::Unknown(lines.join(" | ")),
        };
        match ans {
            Answer::Sat(_) => self.sat += 1,
            Answer::Unsat => self.unsat += 1,
            Answer::Unknown(_) => self.unknown += 1,
        }
        self.time_s += t0.elapsed().as_secs_f64();
        ans
    }
}

fn parse_values(txt: &str, nvars: usize) -> Option<Vec<i64>> {
    // ((x0 3) (x1 (- 4)) ...)
    let toks: Vec<String> = txt.replace('(', " ( ").replace(')', " ) ").split_whitespace().map(|s| s.to_string()).collect();
    let mut vals = vec![0i64; nvars];
    let mut seen = 0;
    let mut i = 0;
    while i < toks.len() {
        if toks[i].starts_with('x') && toks[i][1..].chars().all(|c| c.is_ascii_digit()) && !toks[i][1..].is_empty() {
            let idx: usize = toks[i][1..].parse().ok()?;
            // value follows
            let (v, adv) = if toks.get(i + 1)? == "(" {
                // ( - N )
                if toks.get(i + 2)? != "-" {
                    return None;
                }
                let n: i64 = parse_int(toks.get(i + 3)?)?;
                (-n, 5)
            } else {
                (parse_int(toks.get(i + 1)?)?, 2)
            };
            if idx < nvars {
                vals[idx] = v;
                seen += 1;
            }
            i += adv;
        } else {
            i += 1;
        }
    }
    if seen == nvars {
        Some(vals)
    } else {
        None
    }
}
fn parse_int(s: &str) -> Option<i64> {
    if let Ok(v) = s.parse::<i64>() {
        return Some(v);
    }
    // "3.0"
    let f: f64 = s.parse().ok()?;
    if f == f.trunc() {
        Some(f as i64)
    } else {
        None
    }
}

pub fn lit(v: f64) -> String {
    assert!(v.is_finite(), "non-finite constant inside a symbolic term");
    if v == 0.0 {
        return "0.0".into();
    }
    // exact rational: v = m * 2^e
    let bits = v.to_bits();
    let neg = (bits >> 63) == 1;
    let exp = ((bits >> 52) & 0x7ff) as i32;
    let frac = bits & ((1u64 << 52) - 1);
    let (mut m, mut e) = if exp == 0 { (frac, -1074) } else { (frac | (1u64 << 52), exp - 1075) };
    while m & 1 == 0 {
        m >>= 1;
        e += 1;
    }
    let body = if e >= 0 {
        if e < 63 && (m as u128) << e < (1u128 << 100) {
            format!("{}.0", (m as u128) << e)
        } else {
            format!("(* {}.0 {})", m, pow2(e as u32))
        }
    } else {
        format!("(/ {}.0 {})", m, pow2((-e) as u32))
    };
    if neg {
        format!("(- {})", body)
    } else {
        body
    }
}
pub fn pow2(e: u32) -> String {
    // decimal string of 2^e
    let mut digits: Vec<u8> = vec![1];
    for _ in 0..e {
        let mut carry = 0;
        for d in digits.iter_mut() {
            let x = *d * 2 + carry;
            *d = x % 10;
            carry = x / 10;
        }
        if carry > 0 {
            digits.push(carry);
        }
    }
    let s: String = digits.iter().rev().map(|d| (b'0' + d) as char).collect();
    format!("{}.0", s)
}

/// Emits definitions for terms/bools of one run into the solver, lazily.
pub struct Emitter {
    pub tdone: HashSet<u32>,
    pub bdone: HashSet<u32>,
    pub vars_declared: usize,
    pub uf_apps: Vec<(Uf, u32)>,
}

impl Emitter {
    pub fn new() -> Emitter {
        Emitter { tdone: HashSet::new(), bdone: HashSet::new(), vars_declared: 0, uf_apps: vec![] }
    }
    pub fn declare_vars(&mut self, a: &Arena, out: &mut String) {
        while self.vars_declared < a.vars.len() {
            let i = self.vars_declared;
            let v = &a.vars[i];
            out.push_str(&format!("(declare-const x{} Int)\n(assert (and (<= {} x{}) (<= x{} {})))\n", i, ilit(v.lo), i, i, ilit(v.hi)));
            self.vars_declared += 1;
        }
    }
    pub fn term(&mut self, a: &Arena, t: u32, out: &mut String) -> String {
        match a.terms[t as usize].t {
            T::C(_) => return lit(a.terms[t as usize].val),
            _ => {}
        }
        if self.tdone.contains(&t) {
            return format!("t{}", t);
        }
        // iterative post-order to avoid deep recursion on long sums
        let mut stack: Vec<(u32, bool)> = vec![(t, false)];
        while let Some((n, expanded)) = stack.pop() {
            if self.tdone.contains(&n) {
                continue;
            }
            let info = a.terms[n as usize].t;
            if let T::C(_) = info {
                continue;
            }
            if !expanded {
                stack.push((n, true));
                match info {
                    T::Add(x, y) | T::Sub(x, y) | T::Mul(x, y) | T::Div(x, y) | T::Max(x, y) | T::Min(x, y) | T::Pow(x, y) => {
                        stack.push((x, false));
                        stack.push((y, false));
                    }
                    T::Neg(x) | T::Abs(x) | T::Sqrt(x) | T::Uf(_, x) => stack.push((x, false)),
                    T::Ite(c, x, y) => {
                        self.boolean(a, c, out);
                        stack.push((x, false));
                        stack.push((y, false));
                    }
                    T::Fma(x, y, z) => {
                        stack.push((x, false));
                        stack.push((y, false));
                        stack.push((z, false));
                    }
                    T::C(_) | T::V(_) => {}
                }
                continue;
            }
            let r = |s: &Self, x: u32| -> String {
                match a.terms[x as usize].t {
                    T::C(_) => lit(a.terms[x as usize].val),
                    _ => {
                        debug_assert!(s.tdone.contains(&x));
                        format!("t{}", x)
                    }
                }
            };
            let body = match info {
                T::V(i) => {
                    let sh = a.vars[i as usize].shift;
                    if sh == 0 {
                        format!("(to_real x{})", i)
                    } else {
                        format!("(/ (to_real x{}) {})", i, pow2(sh))
                    }
                }
                T::Add(x, y) => format!("(+ {} {})", r(self, x), r(self, y)),
                T::Sub(x, y) => format!("(- {} {})", r(self, x), r(self, y)),
                T::Mul(x, y) => format!("(* {} {})", r(self, x), r(self, y)),
                T::Div(x, y) => format!("(/ {} {})", r(self, x), r(self, y)),
                T::Neg(x) => format!("(- {})", r(self, x)),
                T::Abs(x) => format!("(ite (>= {0} 0.0) {0} (- {0}))", r(self, x)),
                T::Max(x, y) => format!("(ite (>= {0} {1}) {0} {1})", r(self, x), r(self, y)),
                T::Min(x, y) => format!("(ite (<= {0} {1}) {0} {1})", r(self, x), r(self, y)),
                T::Ite(c, x, y) => format!("(ite b{} {} {})", c, r(self, x), r(self, y)),
                T::Fma(x, y, z) => format!("(+ (* {} {}) {})", r(self, x), r(self, y), r(self, z)),
                T::Sqrt(x) => {
                    out.push_str(&format!("(declare-const t{} Real)\n(assert (and (>= t{} 0.0) (= (* t{} t{}) {})))\n", n, n, n, n, r(self, x)));
                    self.tdone.insert(n);
                    continue;
                }
                T::Uf(f, x) => {
                    let name = match f {
                        Uf::Exp => "uf_exp",
                        Uf::Ln => "uf_ln",
                        Uf::Tanh => "uf_tanh",
                    };
                    let arg = r(self, x);
                    out.push_str(&format!("(define-fun t{} () Real ({} {}))\n", n, name, arg));
                    // ground axioms for this application
                    match f {
                        Uf::Exp => out.push_str(&format!("(assert (and (> t{0} 0.0) (>= t{0} (+ 1.0 {1})) (=> (= {1} 0.0) (= t{0} 1.0))))\n", n, arg)),
                        Uf::Ln => out.push_str(&format!("(assert (and (<= t{0} (- {1} 1.0)) (=> (= {1} 1.0) (= t{0} 0.0))))\n", n, arg)),
                        Uf::Tanh => out.push_str(&format!("(assert (and (< (- 1.0) t{0}) (< t{0} 1.0) (=> (= {1} 0.0) (= t{0} 0.0)) (=> (> {1} 0.0) (> t{0} 0.0)) (=> (< {1} 0.0) (< t{0} 0.0))))\n", n, arg)),
                    }
                    // strict monotonicity against every earlier application of the same function
                    for &(g, m) in &self.uf_apps {
                        if g == f {
                            let marg = r(self, match a.terms[m as usize].t {
                                T::Uf(_, z) => z,
                                _ => unreachable!(),
                            });
                            out.push_str(&format!("(assert (and (=> (< {0} {1}) (< t{2} t{3})) (=> (< {1} {0}) (< t{3} t{2}))))\n", arg, marg, n, m));
                        }
                    }
                    self.uf_apps.push((f, n));
                    self.tdone.insert(n);
                    continue;
                }
                T::Pow(x, y) => format!("(uf_pow {} {})", r(self, x), r(self, y)),
                T::C(_) => unreachable!(),
            };
            out.push_str(&format!("(define-fun t{} () Real {})\n", n, body));
            self.tdone.insert(n);
        }
        format!("t{}", t)
    }
    pub fn boolean(&mut self, a: &Arena, b: u32, out: &mut String) -> String {
        if self.bdone.contains(&b) {
            return format!("b{}", b);
        }
        let body = match a.bools[b as usize].0.clone() {
            B::K(v) => return if v { "true".into() } else { "false".into() },
            B::Lt(x, y) => format!("(< {} {})", self.term(a, x, out), self.term(a, y, out)),
            B::Eq(x, y) => format!("(= {} {})", self.term(a, x, out), self.term(a, y, out)),
            B::Not(x) => format!("(not {})", self.boolean(a, x, out)),
            B::And(xs) => {
                let v: Vec<String> = xs.iter().map(|&x| self.boolean(a, x, out)).collect();
                format!("(and {})", v.join(" "))
            }
            B::Or(xs) => {
                let v: Vec<String> = xs.iter().map(|&x| self.boolean(a, x, out)).collect();
                format!("(or {})", v.join(" "))
            }
        };
        out.push_str(&format!("(define-fun b{} () Bool {})\n", b, body));
        self.bdone.insert(b);
        format!("b{}", b)
    }
}

pub fn ilit(v: i64) -> String {
    if v < 0 {
        format!("(- {})", -(v as i128))
    } else {
        format!("{}", v)
    }
}

/// Self-contained formula (nested `let`s, no global names except the input variables x_i) for the
/// conjunction of the first `upto` trace entries of a run; `None` if it mentions a term that needs an
/// auxiliary declaration (sqrt) or an uninterpreted function.  Used by the closure check.
pub fn inline_path_condition(a: &Arena, upto: usize) -> Option<String> {
    let lits: Vec<(u32, bool)> = a.trace[..upto].iter().map(|ev| (ev.cond, ev.outcome)).collect();
    inline_conjunction(a, &lits)
}

/// conjunction of (condition, polarity) literals as a self-contained formula
pub fn inline_conjunction(a: &Arena, conj: &[(u32, bool)]) -> Option<String> {
    inline_query(a, conj, &[])
}

/// conjunction of the literals and, if `refute` is non-empty, of "not all of `refute` hold"
pub fn inline_query(a: &Arena, conj: &[(u32, bool)], refute: &[u32]) -> Option<String> {
    use std::collections::BTreeSet;
    let mut need: BTreeSet<u32> = BTreeSet::new();
    fn collect_t(a: &Arena, t: u32, need: &mut BTreeSet<u32>) -> bool {
        if need.contains(&t) {
            return true;
        }
        let ok = match a.terms[t as usize].t {
            T::C(_) => return true,
            T::V(_) => true,
            T::Add(x, y) | T::Sub(x, y) | T::Mul(x, y) | T::Div(x, y) | T::Max(x, y) | T::Min(x, y) => collect_t(a, x, need) && collect_t(a, y, need),
            T::Neg(x) | T::Abs(x) => collect_t(a, x, need),
            T::Fma(x, y, z) => collect_t(a, x, need) && collect_t(a, y, need) && collect_t(a, z, need),
            T::Ite(c, x, y) => collect_b(a, c, need) && collect_t(a, x, need) && collect_t(a, y, need),
            T::Sqrt(_) | T::Uf(_, _) | T::Pow(_, _) => false,
        };
        need.insert(t);
        ok
    }
    fn collect_b(a: &Arena, b: u32, need: &mut BTreeSet<u32>) -> bool {
        match a.bools[b as usize].0.clone() {
            B::K(_) => true,
            B::Lt(x, y) | B::Eq(x, y) => collect_t(a, x, need) && collect_t(a, y, need),
            B::Not(x) => collect_b(a, x, need),
            B::And(xs) | B::Or(xs) => xs.iter().all(|&x| collect_b(a, x, need)),
        }
    }
    fn r(a: &Arena, x: u32) -> String {
        match a.terms[x as usize].t {
            T::C(_) => lit(a.terms[x as usize].val),
            _ => format!("t{}", x),
        }
    }
    fn bexpr(a: &Arena, b: u32) -> String {
        match a.bools[b as usize].0.clone() {
            B::K(v) => (if v { "true" } else { "false" }).to_string(),
            B::Lt(x, y) => format!("(< {} {})", r(a, x), r(a, y)),
            B::Eq(x, y) => format!("(= {} {})", r(a, x), r(a, y)),
            B::Not(x) => format!("(not {})", bexpr(a, x)),
            B::And(xs) => format!("(and {})", xs.iter().map(|&x| bexpr(a, x)).collect::<Vec<_>>().join(" ")),
            B::Or(xs) => format!("(or {})", xs.iter().map(|&x| bexpr(a, x)).collect::<Vec<_>>().join(" ")),
        }
    }
    for (c, _) in conj {
        if !collect_b(a, *c, &mut need) {
            return None;
        }
    }
    for c in refute {
        if !collect_b(a, *c, &mut need) {
            return None;
        }
    }
    let lits: Vec<String> = conj.iter().map(|(c, o)| if *o { bexpr(a, *c) } else { format!("(not {})", bexpr(a, *c)) }).collect();
    let mut body = format!("(and true {})", lits.join(" "));
    if !refute.is_empty() {
        let obs: Vec<String> = refute.iter().map(|c| bexpr(a, *c)).collect();
        body = format!("(and {} (not (and true {})))", body, obs.join(" "));
    }
    // ids grow with creation, so descending order nests definitions inside out
    for &t in need.iter().rev() {
        let e = match a.terms[t as usize].t {
            T::V(i) => {
                let sh = a.vars[i as usize].shift;
                if sh == 0 { format!("(to_real x{})", i) } else { format!("(/ (to_real x{}) {})", i, pow2(sh)) }
            }
            T::Add(x, y) => format!("(+ {} {})", r(a, x), r(a, y)),
            T::Sub(x, y) => format!("(- {} {})", r(a, x), r(a, y)),
            T::Mul(x, y) => format!("(* {} {})", r(a, x), r(a, y)),
            T::Div(x, y) => format!("(/ {} {})", r(a, x), r(a, y)),
            T::Neg(x) => format!("(- {})", r(a, x)),
            T::Abs(x) => format!("(ite (>= {0} 0.0) {0} (- {0}))", r(a, x)),
            T::Max(x, y) => format!("(ite (>= {0} {1}) {0} {1})", r(a, x), r(a, y)),
            T::Min(x, y) => format!("(ite (<= {0} {1}) {0} {1})", r(a, x), r(a, y)),
            T::Fma(x, y, z) => format!("(+ (* {} {}) {})", r(a, x), r(a, y), r(a, z)),
            T::Ite(c, x, y) => format!("(ite {} {} {})", bexpr(a, c), r(a, x), r(a, y)),
            _ => return None,
        };
        body = format!("(let ((t{} {})) {})", t, e, body);
    }
    Some(body)
}

/// the j-th recorded decision alone, as a self-contained formula (debugging aid)
pub fn inline_path_condition_one(a: &Arena, j: usize) -> Option<String> {
    let mut b = Arena { trace: vec![a.trace[j].clone()], ..clone_shallow(a) };
    let _ = &mut b;
    inline_path_condition(&b, 1)
}
fn clone_shallow(a: &Arena) -> Arena {
    Arena {
        symbolic: a.symbolic, mant_bits: a.mant_bits, inputs: a.inputs.clone(), vars: a.vars.clone(), terms: a.terms.clone(), tmap: Default::default(),
        bools: a.bools.clone(), bmap: Default::default(), trace: vec![], known: Default::default(), obligations: vec![], bool_failures: vec![], bool_checks: 0,
        observations: vec![], counters: a.counters.clone(), locs: Default::default(), last_to_f64: None, notes: vec![],
    }
}

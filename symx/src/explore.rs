//! Generational concolic search over the real code: runs the harness on concrete inputs with
//! symbolic shadows, asks the solver for an input on the other side of every branch, and
//! discharges the harness' obligations on every path for all inputs of that path.
use crate::arena::{self, Abort, Arena, EvKind};
use crate::solver::{Answer, Emitter, Solver};
use serde::Serialize;
use std::collections::HashSet;
use std::panic::{catch_unwind, AssertUnwindSafe};
use std::sync::Mutex;
use std::time::Instant;

#[derive(Clone, Debug)]
pub struct Config {
    pub name: String,
    pub max_paths: u64,
    pub max_secs: f64,
    pub query_timeout_ms: u64,
    pub solver: String,
    pub max_violations: usize,
    pub n_samples: usize,
    pub first_inputs: Vec<i64>,
    pub verbose: bool,
    /// stop as soon as this many work items are pending and return them in `Report::frontier`
    /// (0 = run to completion); used to shard one exploration over several processes
    pub frontier_target: usize,
    pub initial_work: Vec<WorkItem>,
    /// keep up to this many path witnesses (inputs + observed outputs) in the report
    pub n_witnesses: usize,
    /// after an exhaustive exploration ask the solver whether any input of the domain lies on no explored
    /// path (independent check of the explorer itself); only for harnesses without sqrt / uninterpreted terms
    pub closure: bool,
    /// pick the next work item at random (seeded) instead of depth first: for budgeted runs on instances that
    /// cannot close, so that the explored paths are spread over the path tree (bug hunting)
    pub random_pop: Option<u64>,
    /// second opinion on every obligation the first solver reports as proved: the path condition and the
    /// negated obligations are sent, self-contained, to this solver in a fresh context
    pub solver2: Option<String>,
}

impl Default for Config {
    fn default() -> Config {
        Config { name: String::new(), max_paths: 200_000, max_secs: 120.0, query_timeout_ms: 5_000, solver: "z3".into(), max_violations: 1, n_samples: 3, first_inputs: vec![], verbose: false, frontier_target: 0, initial_work: vec![], n_witnesses: 0, closure: false, random_pop: None, solver2: None }
    }
}

#[derive(Clone, Debug, Serialize, serde::Deserialize)]
pub struct Violation {
    pub check: String,
    pub inputs: Vec<i64>,
    pub input_names: Vec<String>,
    pub found_by: String,
    pub message: String,
    pub native_confirmed: bool,
}

#[derive(Clone, Debug, Serialize, serde::Deserialize, Default)]
pub struct Sample {
    pub inputs: Vec<i64>,
    pub trace_len: usize,
    pub obligations: Vec<String>,
}

#[derive(Clone, Debug, Serialize, serde::Deserialize, Default)]
pub struct Report {
    pub harness: String,
    pub exhaustive: bool,
    pub paths: u64,
    pub paths_with_obligations: u64,
    pub assume_rejected_runs: u64,
    pub div0_paths: u64,
    pub sqrt_neg_paths: u64,
    pub unsupported_paths: u64,
    pub unsupported_msgs: Vec<String>,
    pub diverged_runs: u64,
    pub unrealised_flips: u64,
    pub ieee_boundary_models: u64,
    pub pending_work: u64,
    pub runs: u64,
    pub queries: u64,
    pub sat: u64,
    pub unsat: u64,
    pub unknown: u64,
    pub solver_errors: Vec<String>,
    pub undecided_flips: u64,
    pub undecided_obligations: u64,
    pub obligations_checked: u64,
    pub obligations_by_solver: u64,
    pub obligations_on_path: u64,
    pub solver_time_s: f64,
    pub wall_s: f64,
    pub max_trace_len: usize,
    pub n_vars: usize,
    pub var_domains: Vec<String>,
    pub concretised: u64,
    pub inexact: u64,
    pub exact_terms: u64,
    pub rounded_terms: u64,
    pub uf_terms: u64,
    pub rounded_compares: u64,
    pub uf_compares: u64,
    pub signed_zero: u64,
    pub witness_validated: u64,
    pub witness_mismatch: u64,
    pub unconfirmed_candidates: Vec<Violation>,
    pub violations: Vec<Violation>,
    pub locations: Vec<String>,
    pub samples: Vec<Sample>,
    pub notes: Vec<String>,
    pub solver: String,
    pub query_timeout_ms: u64,
    pub frontier: Vec<WorkItem>,
    pub shards: u64,
    pub witnesses: Vec<(Vec<i64>, Vec<u64>)>,
    /// closure check: "proved" | "failed: <inputs>" | "unknown" | "skipped: <why>" | "" (not requested)
    pub closure: String,
    pub closure_time_s: f64,
    pub path_conditions: Vec<String>,
    /// hashes of the explored traces (complete paths and runs cut short by an assumption), for the closure check
    #[serde(default)]
    pub path_sigs: Vec<u64>,
    /// inputs that exact arithmetic puts on no explored path but that follow one under IEEE (rounded terms)
    #[serde(default)]
    pub closure_ieee_only: u64,
    pub closure_domain: Vec<(i64, i64)>,
    pub second_opinions: u64,
    pub second_opinion_skipped: u64,
    pub solver_disagreements: Vec<String>,
}

pub struct RunOut {
    pub arena: Arena,
    pub abort: Option<Abort>,
    pub panic_msg: Option<String>,
}

static LAST_PANIC: Mutex<Option<String>> = Mutex::new(None);

pub fn install_panic_hook() {
    std::panic::set_hook(Box::new(|info| {
        if info.payload().downcast_ref::<Abort>().is_some() {
            return;
        }
        let msg = if let Some(s) = info.payload().downcast_ref::<&str>() {
            s.to_string()
        } else if let Some(s) = info.payload().downcast_ref::<String>() {
            s.clone()
        } else {
            "panic".to_string()
        };
        let loc = info.location().map(|l| format!("{}:{}", l.file(), l.line())).unwrap_or_default();
        *LAST_PANIC.lock().unwrap_or_else(|p| p.into_inner()) = Some(format!("{} at {}", msg, loc));
    }));
}

pub fn run_once(symbolic: bool, inputs: &[i64], f: &dyn Fn()) -> RunOut {
    arena::reset(symbolic, inputs);
    *LAST_PANIC.lock().unwrap_or_else(|p| p.into_inner()) = None;
    let r = catch_unwind(AssertUnwindSafe(|| f()));
    let mut abort = None;
    let mut panic_msg = None;
    if let Err(p) = r {
        if let Some(a) = p.downcast_ref::<Abort>() {
            abort = Some(a.clone());
        } else {
            panic_msg = Some(LAST_PANIC.lock().unwrap_or_else(|p| p.into_inner()).take().unwrap_or_else(|| "panic".into()));
        }
    }
    let mut a = arena::take();
    if a.last_to_f64.take().is_some() {
        a.counters.concretised += 1;
    }
    RunOut { arena: a, abort, panic_msg }
}

fn mix(a: u64, b: u64) -> u64 {
    let mut x = a ^ b.wrapping_mul(0x9E37_79B9_7F4A_7C15).rotate_left(29);
    x = (x ^ (x >> 30)).wrapping_mul(0xBF58_476D_1CE4_E5B9);
    x ^ (x >> 31)
}

#[derive(Clone, Debug, Serialize, serde::Deserialize)]
pub struct WorkItem {
    pub inputs: Vec<i64>,
    pub bound: usize,
    pub prefix_hash: u64,
}
type Work = WorkItem;

fn prefix_matches(a: &Arena, bound: usize, want: u64) -> bool {
    if bound > a.trace.len() {
        return false;
    }
    let mut h = 0u64;
    for ev in &a.trace[..bound] {
        h = mix(h, mix(a.bools[ev.cond as usize].2, ev.outcome as u64 + 2 * (ev.kind == EvKind::Assume) as u64));
    }
    h == want
}

/// failures of a concrete run: names of checks that are false, or the panic
fn concrete_failures(out: &RunOut) -> Vec<String> {
    let mut v: Vec<String> = out.arena.bool_failures.clone();
    for ob in &out.arena.obligations {
        if !out.arena.bval(ob.cond) {
            v.push(ob.name.clone());
        }
    }
    if let Some(m) = &out.panic_msg {
        v.push(format!("panic: {}", m));
    }
    v
}

pub fn explore(cfg: &Config, sym: &dyn Fn(), native: Option<&dyn Fn()>) -> Report {
    install_panic_hook();
    let t0 = Instant::now();
    let mut rep = Report { harness: cfg.name.clone(), solver: cfg.solver.clone(), query_timeout_ms: cfg.query_timeout_ms, ..Default::default() };
    let mut solver = Solver::new(&cfg.solver, cfg.query_timeout_ms);
    let mut solver2 = cfg.solver2.as_ref().map(|b| Solver::new(b, cfg.query_timeout_ms));
    // a single query never outlives the job's budget by more than a couple of seconds
    let deadline = std::time::Instant::now() + std::time::Duration::from_secs_f64(cfg.max_secs.max(1.0));
    solver.deadline = Some(deadline);
    if let Some(s2) = solver2.as_mut() {
        s2.deadline = Some(deadline + std::time::Duration::from_secs(10));
    }
    let mut work: std::collections::VecDeque<Work> = if cfg.initial_work.is_empty() { vec![Work { inputs: cfg.first_inputs.clone(), bound: 0, prefix_hash: 0 }].into() } else { cfg.initial_work.clone().into() };
    let mut frontier_reached = false;
    let mut rng_state: u64 = cfg.random_pop.unwrap_or(0) ^ 0x9E37_79B9_7F4A_7C15;
    let mut seen_flips: HashSet<(u64, u64)> = HashSet::new();
    let mut seen_paths: HashSet<u64> = HashSet::new();
    let mut locs: std::collections::BTreeSet<(String, u32)> = Default::default();
    let mut budget_hit = false;
    let mut skipped_flips: u64 = 0;

    loop {
        if cfg.frontier_target > 0 && work.len() >= cfg.frontier_target {
            frontier_reached = true;
            break;
        }
        // breadth first while building a frontier (balanced shards), depth first otherwise
        if let Some(seed) = cfg.random_pop {
            if work.len() > 1 {
                rng_state = rng_state.wrapping_mul(6364136223846793005).wrapping_add(seed | 1);
                let k = ((rng_state >> 33) as usize) % work.len();
                let last = work.len() - 1;
                work.swap(k, last);
            }
        }
        let w = match if cfg.frontier_target > 0 { work.pop_front() } else { work.pop_back() } {
            Some(w) => w,
            None => break,
        };
        if rep.paths >= cfg.max_paths || t0.elapsed().as_secs_f64() > cfg.max_secs {
            work.push_back(w);
            budget_hit = true;
            break;
        }
        rep.runs += 1;
        let mut out = run_once(true, &w.inputs, sym);
        // A run that does not follow the prefix it was generated for: the code under test is not a
        // function of the inputs alone (std HashMap iteration order) or an inexact term rounded
        // across the branch.  Retry a few times; if the requested path never shows, it is counted.
        if w.bound > 0 {
            let mut tries = 0;
            while tries < 4 && !prefix_matches(&out.arena, w.bound, w.prefix_hash) {
                out = run_once(true, &w.inputs, sym);
                tries += 1;
                rep.runs += 1;
            }
        }
        let a = &out.arena;
        let inputs_used: Vec<i64> = (0..a.vars.len()).map(|i| {
            let v = &a.vars[i];
            w.inputs.get(i).copied().unwrap_or(if v.lo <= 0 && 0 <= v.hi { 0 } else { v.lo }).clamp(v.lo, v.hi)
        }).collect();
        rep.n_vars = rep.n_vars.max(a.vars.len());
        if rep.var_domains.len() < a.vars.len() {
            rep.var_domains = a.vars.iter().map(|v| format!("{} in [{},{}]/2^{}", v.name, v.lo, v.hi, v.shift)).collect();
        }
        rep.max_trace_len = rep.max_trace_len.max(a.trace.len());
        for (f, l) in &a.locs {
            locs.insert((f.to_string(), *l));
        }

        // hashes of the trace
        let mut hashes: Vec<u64> = Vec::with_capacity(a.trace.len() + 1);
        let mut h = 0u64;
        hashes.push(h);
        for ev in &a.trace {
            h = mix(h, mix(a.bools[ev.cond as usize].2, ev.outcome as u64 + 2 * (ev.kind == EvKind::Assume) as u64));
            hashes.push(h);
        }
        if let Ok(f) = std::env::var("SYMX_DUMP_TRACES") {
            use std::io::Write;
            if let Ok(mut fh) = std::fs::OpenOptions::new().create(true).append(true).open(f) {
                let sigs: Vec<String> = a.trace.iter().map(|ev| format!("{:x}:{}", a.bools[ev.cond as usize].2, ev.outcome as u8)).collect();
                let _ = writeln!(fh, "{} bound={} abort={:?} inputs={:?}", sigs.join(" "), w.bound, out.abort, w.inputs);
            }
        }
        let mut bound = w.bound;
        if bound > a.trace.len() || hashes[bound] != w.prefix_hash {
            rep.diverged_runs += 1;
            bound = 0;
        }

        let assume_failed = matches!(out.abort, Some(Abort::AssumeFailed));
        let complete = !assume_failed;
        let mut is_new_path = true;
        if complete {
            let sig = mix(h, match &out.abort { None => 1, Some(Abort::DivByZero) => 2, Some(Abort::SqrtNegative) => 3, Some(_) => 4 });
            is_new_path = seen_paths.insert(sig);
        }
        if bound == 0 && w.bound > 0 {
            // the path the solver asked for was not realised (whether or not this run found some other new path,
            // the requested region stays unexplored): the exploration is not exhaustive
            rep.unrealised_flips += 1;
        }
        if assume_failed {
            rep.assume_rejected_runs += 1;
        }

        // ---- solver context for this run (a fresh top-level context: see Solver::reset_context)
        solver.reset_context();
        let mut em = Emitter::new();
        let mut defs = String::new();
        em.declare_vars(a, &mut defs);
        solver.send(&defs);
        let nvars = a.vars.len();

        let n = a.trace.len();
        let dump_flips = std::env::var("SYMX_DUMP_TRACES").is_ok();
        let mut flip_log = String::new();
        for j in 0..n {
            let ev = &a.trace[j];
            let mut defs = String::new();
            let name = em.boolean(a, ev.cond, &mut defs);
            solver.send(&defs);
            let last_assume_failed = assume_failed && j == n - 1;
            let mut flippable = j >= bound && (ev.kind == EvKind::Branch || last_assume_failed);
            if flippable && t0.elapsed().as_secs_f64() > cfg.max_secs {
                // budget exhausted in the middle of a run: the remaining flips of this run stay undone
                budget_hit = true;
                skipped_flips += 1;
                flippable = false;
            }
            if flippable {
                let key = (hashes[j], mix(a.bools[ev.cond as usize].2, !ev.outcome as u64));
                if seen_flips.insert(key) {
                    solver.push();
                    solver.send(&format!("(assert {})\n", if ev.outcome { format!("(not {})", name) } else { name.clone() }));
                    let mut ans = solver.check(nvars);
                    // The solver reasons in exact arithmetic; with rounded terms on the path an exact model can sit
                    // on the IEEE side of a boundary (simplex returns vertices).  Evaluate the recorded decisions on
                    // the model with IEEE operations; if it does not follow prefix + flipped decision, block it
                    // and ask for another model (a few times).
                    let mut tries = 0;
                    while let Answer::Sat(m) = &ans {
                        let vals = a.eval_all(m);
                        let follows = (0..j).all(|k| a.eval_bool(a.trace[k].cond, &vals) == a.trace[k].outcome) && a.eval_bool(ev.cond, &vals) != ev.outcome;
                        if follows || tries >= 4 {
                            if !follows {
                                rep.ieee_boundary_models += 1;
                            }
                            break;
                        }
                        tries += 1;
                        let block: Vec<String> = m.iter().enumerate().map(|(i, v)| format!("(not (= x{} {}))", i, crate::solver::ilit(*v))).collect();
                        solver.send(&format!("(assert (or false {}))\n", block.join(" ")));
                        ans = solver.check(nvars);
                    }
                    if dump_flips {
                        flip_log.push_str(&format!(" {}:{}", j, match &ans { Answer::Sat(_) => "sat", Answer::Unsat => "unsat", Answer::Unknown(_) => "unk" }));
                    }
                    match ans {
                        Answer::Sat(m) => {
                            let flipped_hash = mix(hashes[j], mix(a.bools[ev.cond as usize].2, (!ev.outcome) as u64 + 2 * (ev.kind == EvKind::Assume) as u64));
                            work.push_back(Work { inputs: m, bound: j + 1, prefix_hash: flipped_hash });
                        }
                        Answer::Unsat => {}
                        Answer::Unknown(_) => rep.undecided_flips += 1,
                    }
                    solver.pop();
                }
            }
            if last_assume_failed {
                break;
            }
            solver.send(&format!("(assert {})\n", if ev.outcome { name } else { format!("(not {})", name) }));
        }

        if cfg.closure && rep.closure.is_empty() {
            // every run covers the inputs satisfying its recorded decisions: complete paths entirely, runs
            // rejected by an assumption up to and including the failed assumption (those inputs are outside the domain)
            let dom: Vec<(i64, i64)> = a.vars.iter().map(|v| (v.lo, v.hi)).collect();
            let consistent = rep.closure_domain.iter().zip(dom.iter()).all(|(x, y)| x == y);
            if !consistent {
                rep.closure = "skipped: the input variables differ between paths".into();
                rep.path_conditions.clear();
            } else {
                if dom.len() > rep.closure_domain.len() {
                    rep.closure_domain = dom;
                }
                if rep.path_conditions.len() >= 30_000 {
                    rep.closure = "skipped: more than 30000 path conditions".into();
                    rep.path_conditions.clear();
                } else if is_new_path || assume_failed {
                    rep.path_sigs.push(h);
                    let mut pcs = vec![crate::solver::inline_path_condition(a, a.trace.len())];
                    // an assumption that held on this run excludes the inputs that reach it and violate
                    // it; nobody executes that region (the explorer never flips a satisfied assumption), so it
                    // is accounted for here: prefix /\ not(assumption)
                    for (j, ev) in a.trace.iter().enumerate() {
                        if ev.kind == EvKind::Assume && ev.outcome && j >= bound {
                            let mut lits: Vec<(u32, bool)> = a.trace[..j].iter().map(|e| (e.cond, e.outcome)).collect();
                            lits.push((ev.cond, false));
                            pcs.push(crate::solver::inline_conjunction(a, &lits));
                        }
                    }
                    for pc in pcs {
                        match pc {
                            Some(pc) => rep.path_conditions.push(pc),
                            None => {
                                rep.closure = "skipped: path conditions mention sqrt or uninterpreted terms".into();
                                rep.path_conditions.clear();
                                break;
                            }
                        }
                    }
                }
            }
        }
        if dump_flips {
            use std::io::Write;
            if let Ok(mut fh) = std::fs::OpenOptions::new().create(true).append(true).open(std::env::var("SYMX_DUMP_TRACES").unwrap()) {
                let _ = writeln!(fh, "  flips(bound {}):{}", bound, flip_log);
            }
        }
        if complete && is_new_path {
            rep.paths += 1;
            match &out.abort {
                Some(Abort::DivByZero) => rep.div0_paths += 1,
                Some(Abort::SqrtNegative) => rep.sqrt_neg_paths += 1,
                Some(Abort::Unsupported(m)) => {
                    rep.unsupported_paths += 1;
                    if rep.unsupported_msgs.len() < 5 && !rep.unsupported_msgs.contains(m) {
                        rep.unsupported_msgs.push(m.clone());
                    }
                }
                _ => {}
            }
            let c = &a.counters;
            rep.concretised += c.concretised;
            rep.inexact += c.inexact;
            rep.exact_terms += c.exact_terms;
            rep.rounded_terms += c.rounded_terms;
            rep.uf_terms += c.uf_terms;
            rep.rounded_compares += c.rounded_compares;
            rep.uf_compares += c.uf_compares;
            rep.signed_zero += c.signed_zero;
            for nt in &a.notes {
                if rep.notes.len() < 20 && !rep.notes.contains(nt) {
                    rep.notes.push(nt.clone());
                }
            }
            if !a.obligations.is_empty() || out.panic_msg.is_some() || !a.bool_failures.is_empty() || a.bool_checks > 0 {
                rep.paths_with_obligations += 1;
            }
            rep.obligations_checked += a.obligations.len() as u64 + a.bool_checks;
            rep.obligations_on_path += a.bool_checks;
            if rep.witnesses.len() < cfg.n_witnesses && out.abort.is_none() && out.panic_msg.is_none() {
                rep.witnesses.push((inputs_used.clone(), a.observations.clone()));
            }
            if rep.samples.len() < cfg.n_samples {
                rep.samples.push(Sample { inputs: inputs_used.clone(), trace_len: n, obligations: a.obligations.iter().map(|o| o.name.clone()).collect() });
            }

            // 1. witness first
            let fails = concrete_failures(&out);
            let mut candidate: Option<(Vec<i64>, String, String)> = None;
            if !fails.is_empty() {
                candidate = Some((inputs_used.clone(), fails[0].clone(), "path witness".into()));
            } else if out.abort.is_none() && !a.obligations.is_empty() {
                // 2. solver: pc /\ not(all obligations)
                let mut defs = String::new();
                let mut names = vec![];
                let mut trivially = 0u64;
                for ob in &a.obligations {
                    if a.bconst(ob.cond) == Some(true) {
                        trivially += 1;
                        continue;
                    }
                    names.push(em.boolean(a, ob.cond, &mut defs));
                }
                rep.obligations_on_path += trivially;
                if !names.is_empty() {
                    solver.send(&defs);
                    solver.push();
                    solver.send(&format!("(assert (not (and {} true)))\n", names.join(" ")));
                    let first = solver.check(nvars);
                    solver.pop();
                    if first == Answer::Unsat {
                        if let Some(s2) = solver2.as_mut() {
                            let lits: Vec<(u32, bool)> = a.trace.iter().map(|e| (e.cond, e.outcome)).collect();
                            let obs: Vec<u32> = a.obligations.iter().filter(|o| a.bconst(o.cond) != Some(true)).map(|o| o.cond).collect();
                            match crate::solver::inline_query(a, &lits, &obs) {
                                None => rep.second_opinion_skipped += 1,
                                Some(q) => {
                                    s2.reset_context();
                                    let mut txt = String::new();
                                    for (i, v) in a.vars.iter().enumerate() {
                                        txt.push_str(&format!("(declare-const x{} Int)\n(assert (and (<= {} x{}) (<= x{} {})))\n", i, crate::solver::ilit(v.lo), i, i, crate::solver::ilit(v.hi)));
                                    }
                                    txt.push_str(&format!("(assert {})\n", q));
                                    s2.send(&txt);
                                    rep.second_opinions += 1;
                                    match s2.check(nvars) {
                                        Answer::Unsat | Answer::Unknown(_) => {}
                                        Answer::Sat(m) => {
                                            // the two solvers disagree: take the model as a counterexample candidate;
                                            // the native replay decides
                                            if rep.solver_disagreements.len() < 5 {
                                                rep.solver_disagreements.push(format!("{} proved, {} found inputs {:?}", cfg.solver, s2.binary, m));
                                            }
                                            candidate = Some((m, "?".into(), "second solver model".into()));
                                        }
                                    }
                                }
                            }
                        }
                    }
                    match first {
                        Answer::Unsat => rep.obligations_by_solver += names.len() as u64,
                        Answer::Sat(m) => candidate = Some((m, "?".into(), "solver model".into())),
                        Answer::Unknown(_) if names.len() > 1 => {
                            // a conjunction of non-linear obligations is often `unknown` where each
                            // conjunct alone is decided: fall back to one query per obligation
                            for nm in &names {
                                solver.push();
                                solver.send(&format!("(assert (not {}))\n", nm));
                                match solver.check(nvars) {
                                    Answer::Unsat => rep.obligations_by_solver += 1,
                                    Answer::Sat(m) => {
                                        if candidate.is_none() {
                                            candidate = Some((m, "?".into(), "solver model".into()));
                                        }
                                    }
                                    Answer::Unknown(_) => rep.undecided_obligations += 1,
                                }
                                solver.pop();
                            }
                        }
                        Answer::Unknown(_) => rep.undecided_obligations += names.len() as u64,
                    }
                }
            }

            // differential validation of the translator on this path's witness
            if let (Some(nat), None) = (native, &out.abort) {
                if out.panic_msg.is_none() {
                    let o2 = run_once(false, &inputs_used, nat);
                    if same_observations(&o2.arena.observations, &a.observations) && o2.panic_msg.is_none() {
                        rep.witness_validated += 1;
                    } else {
                        rep.witness_mismatch += 1;
                        if rep.notes.len() < 20 {
                            rep.notes.push(format!("witness mismatch on inputs {:?}: native {:?} vs shadow {:?} (panic {:?})", inputs_used, o2.arena.observations.iter().map(|b| f64::from_bits(*b)).collect::<Vec<_>>(), a.observations.iter().map(|b| f64::from_bits(*b)).collect::<Vec<_>>(), o2.panic_msg));
                        }
                    }
                }
            }

            if let Some((inp, mut check, how)) = candidate {
                // replay against the ordinary build: native scalar if the harness has one
                let names: Vec<String> = a.vars.iter().map(|v| v.name.clone()).collect();
                let mut confirmed = false;
                let mut message = String::new();
                let mut native_confirmed = false;
                let o_c = run_once(false, &inp, sym);
                let f_c = concrete_failures(&o_c);
                if !f_c.is_empty() {
                    confirmed = true;
                    if check == "?" {
                        check = f_c[0].clone();
                    }
                    message = f_c.join("; ");
                }
                if let Some(nat) = native {
                    let o_n = run_once(false, &inp, nat);
                    let f_n = concrete_failures(&o_n);
                    if !f_n.is_empty() {
                        native_confirmed = true;
                        if !confirmed {
                            message = f_n.join("; ");
                            if check == "?" {
                                check = f_n[0].clone();
                            }
                        }
                    } else {
                        confirmed = false;
                    }
                } else {
                    native_confirmed = confirmed;
                }
                let v = Violation { check, inputs: inp, input_names: names, found_by: how, message, native_confirmed };
                if confirmed && native_confirmed {
                    rep.violations.push(v);
                } else {
                    rep.unconfirmed_candidates.push(v);
                }
            }
        }
        if cfg.verbose && rep.runs % 200 == 0 {
            eprintln!("[{}] runs {} paths {} work {} queries {} solver {:.1}s wall {:.1}s", cfg.name, rep.runs, rep.paths, work.len(), solver.queries, solver.time_s, t0.elapsed().as_secs_f64());
        }
        if rep.violations.len() >= cfg.max_violations {
            break;
        }
    }
    rep.pending_work = if frontier_reached { 0 } else { work.len() as u64 } + skipped_flips;
    if frontier_reached {
        rep.frontier = work.iter().cloned().collect();
    }
    rep.shards = 1;
    rep.queries = solver.queries;
    rep.sat = solver.sat;
    rep.unsat = solver.unsat;
    rep.unknown = solver.unknown;
    rep.solver_errors = solver.errors.clone();
    rep.solver_time_s = solver.time_s;
    rep.wall_s = t0.elapsed().as_secs_f64();
    rep.locations = locs.iter().map(|(f, l)| format!("{}:{}", f, l)).collect();
    if cfg.closure && rep.closure.is_empty() && !frontier_reached && cfg.initial_work.is_empty() {
        let done = !budget_hit && work.is_empty() && rep.undecided_flips == 0 && rep.unrealised_flips == 0 && rep.violations.is_empty();
        if done {
            run_closure(&mut rep, &cfg.solver, Some(sym));
        } else {
            rep.closure = "skipped: the exploration did not close".into();
            rep.path_conditions.clear();
        }
    }
    rep.exhaustive = !budget_hit && (work.is_empty() || frontier_reached) && rep.undecided_flips == 0 && rep.unrealised_flips == 0 && rep.violations.is_empty() && rep.solver_errors.is_empty() && rep.unsupported_paths == 0;
    rep
}


impl Report {
    /// fold the report of another shard of the same exploration into this one
    pub fn merge(&mut self, o: &Report) {
        self.exhaustive &= o.exhaustive;
        macro_rules! add { ($($f:ident),*) => { $( self.$f += o.$f; )* } }
        add!(ieee_boundary_models, second_opinions, second_opinion_skipped, unrealised_flips, paths, paths_with_obligations, assume_rejected_runs, div0_paths, sqrt_neg_paths, unsupported_paths, diverged_runs, pending_work, runs, queries, sat, unsat, unknown, undecided_flips, undecided_obligations, obligations_checked, obligations_by_solver, obligations_on_path, solver_time_s, concretised, inexact, exact_terms, rounded_terms, uf_terms, rounded_compares, uf_compares, signed_zero, witness_validated, witness_mismatch, shards);
        self.wall_s = self.wall_s.max(o.wall_s);
        self.max_trace_len = self.max_trace_len.max(o.max_trace_len);
        self.n_vars = self.n_vars.max(o.n_vars);
        if self.var_domains.len() < o.var_domains.len() {
            self.var_domains = o.var_domains.clone();
        }
        for m in &o.unsupported_msgs { if !self.unsupported_msgs.contains(m) { self.unsupported_msgs.push(m.clone()); } }
        for m in &o.solver_errors { if self.solver_errors.len() < 10 { self.solver_errors.push(m.clone()); } }
        for m in &o.solver_disagreements { if self.solver_disagreements.len() < 10 { self.solver_disagreements.push(m.clone()); } }
        for m in &o.notes { if self.notes.len() < 20 && !self.notes.contains(m) { self.notes.push(m.clone()); } }
        self.violations.extend(o.violations.iter().cloned());
        self.unconfirmed_candidates.extend(o.unconfirmed_candidates.iter().cloned());
        let mut l: std::collections::BTreeSet<String> = self.locations.iter().cloned().collect();
        l.extend(o.locations.iter().cloned());
        self.locations = l.into_iter().collect();
        for sm in &o.samples { if self.samples.len() < 4 { self.samples.push(sm.clone()); } }
        for w in &o.witnesses { if self.witnesses.len() < 400 { self.witnesses.push(w.clone()); } }
        if !o.closure.is_empty() && self.closure.is_empty() {
            self.closure = o.closure.clone();
            self.path_conditions.clear();
        }
        if self.closure.is_empty() {
            self.path_conditions.extend(o.path_conditions.iter().cloned());
            self.path_sigs.extend(o.path_sigs.iter().cloned());
            if o.closure_domain.len() > self.closure_domain.len() {
                self.closure_domain = o.closure_domain.clone();
            }
        }
    }
}

/// domain /\ not(pc_1 \/ ... \/ pc_n) must be unsatisfiable: every input of the domain follows one of the
/// explored paths.  Decided in a fresh solver process, independently of the incremental contexts used above.
/// Outputs of the native run against the shadow values of the symbolic run: bit for bit, unless SYMX_OBS_RELTOL is set
/// (harnesses whose code multiplies 2-D arrays: ndarray uses matrixmultiply's FMA kernels for f64 and plain loops for
/// any other scalar, which differ in the last bits).  Then normal floating-point values may differ by that relative
/// amount; everything else (integers recorded by observe_usize are subnormal bit patterns; NaN, infinities) stays exact.
fn same_observations(native: &[u64], shadow: &[u64]) -> bool {
    static TOL: std::sync::OnceLock<f64> = std::sync::OnceLock::new();
    let tol = *TOL.get_or_init(|| std::env::var("SYMX_OBS_RELTOL").ok().and_then(|v| v.parse().ok()).unwrap_or(0.0));
    if native.len() != shadow.len() {
        return false;
    }
    native.iter().zip(shadow.iter()).all(|(x, y)| {
        if x == y {
            return true;
        }
        let (a, b) = (f64::from_bits(*x), f64::from_bits(*y));
        let ok = |v: f64| v.is_normal() || v == 0.0;
        tol > 0.0 && ok(a) && ok(b) && (a - b).abs() <= tol * (1.0 + a.abs().max(b.abs()))
    })
}

pub fn trace_hash(a: &crate::arena::Arena) -> u64 {
    let mut h = 0u64;
    for ev in &a.trace {
        h = mix(h, mix(a.bools[ev.cond as usize].2, ev.outcome as u64 + 2 * (ev.kind == EvKind::Assume) as u64));
    }
    h
}

pub fn run_closure(rep: &mut Report, solver_bin: &str, sym: Option<&dyn Fn()>) {
    let t0 = Instant::now();
    let mut s = Solver::new(solver_bin, 120_000);
    let mut txt = String::new();
    for (i, (lo, hi)) in rep.closure_domain.iter().enumerate() {
        txt.push_str(&format!("(declare-const x{} Int)\n(assert (and (<= {} x{}) (<= x{} {})))\n", i, crate::solver::ilit(*lo), i, i, crate::solver::ilit(*hi)));
    }
    s.send(&txt);
    if std::env::var("SYMX_CLOSURE_SELFTEST").is_ok() {
        // self-test of this check: forget one explored path; the answer must become "failed"
        rep.path_conditions.pop();
        rep.path_sigs.pop();
    }
    for chunk in rep.path_conditions.chunks(200) {
        let mut t = String::new();
        for pc in chunk {
            t.push_str(&format!("(assert (not {}))\n", pc));
        }
        s.send(&t);
    }
    // The query is over exact arithmetic.  Where path conditions contain rounded terms, an input can sit on one side
    // of a decision in exact arithmetic and on the other under IEEE: such an input satisfies no recorded path
    // condition although the real code, run on it, follows an explored path.  A counter-model is therefore re-run;
    // if its trace is one of the explored ones it is excluded and the solver asked again, otherwise the check fails.
    let sigs: std::collections::HashSet<u64> = rep.path_sigs.iter().cloned().collect();
    let nvars = rep.closure_domain.len();
    let mut ieee_only = 0u64;
    rep.closure = loop {
        match s.check(nvars) {
            Answer::Unsat => break if ieee_only == 0 { "proved".to_string() } else { format!("proved (up to {} inputs that exact arithmetic puts on no explored path while the code, run on them, follows one: rounded terms in path conditions)", ieee_only) },
            Answer::Sat(m) => {
                let follows = match sym {
                    Some(f) if ieee_only < 200 => {
                        let o = run_once(true, &m, f);
                        sigs.contains(&trace_hash(&o.arena))
                    }
                    _ => false,
                };
                if !follows {
                    break format!("failed: input {:?} lies on no explored path", m);
                }
                ieee_only += 1;
                let block: Vec<String> = m.iter().enumerate().map(|(i, v)| format!("(not (= x{} {}))", i, crate::solver::ilit(*v))).collect();
                s.send(&format!("(assert (or false {}))\n", block.join(" ")));
            }
            Answer::Unknown(r) => break format!("unknown ({})", r),
        }
    };
    rep.closure_ieee_only = ieee_only;
    rep.closure_time_s = t0.elapsed().as_secs_f64();
    rep.path_conditions.clear();
}

//! Term arena of the symbolic-scalar engine.
//!
//! Every scalar handled by the code under test is a handle into this arena.  A term carries its
//! concrete shadow value (IEEE f64, computed with the same operation) next to its symbolic
//! definition, a canonical structural signature, and the result of the exactness analysis
//! (value = m * 2^-scale with |m| <= mag; exact in f64 iff mag < 2^53).
use std::collections::{BTreeSet, HashMap};
use std::panic::Location;
use std::sync::Mutex;

#[derive(Clone, Copy, PartialEq, Eq, Hash, Debug)]
pub enum Uf {
    Exp,
    Ln,
    Tanh,
}

#[derive(Clone, Copy, PartialEq, Eq, Hash, Debug)]
pub enum T {
    C(u64),
    V(u32),
    Add(u32, u32),
    Sub(u32, u32),
    Mul(u32, u32),
    Div(u32, u32),
    Neg(u32),
    Abs(u32),
    Sqrt(u32),
    Max(u32, u32),
    Min(u32, u32),
    Uf(Uf, u32),
    Pow(u32, u32),
    Ite(u32, u32, u32),
    /// fused multiply-add a*b+c (one rounding in IEEE; a*b+c in the reals)
    Fma(u32, u32, u32),
}

#[derive(Clone, PartialEq, Eq, Hash, Debug)]
pub enum B {
    K(bool),
    Lt(u32, u32),
    Eq(u32, u32),
    Not(u32),
    And(Vec<u32>),
    Or(Vec<u32>),
}

#[derive(Clone, Copy, PartialEq, Eq, Debug)]
pub enum Cls {
    /// built from inputs and constants with + - * neg abs max min only, magnitude proved < 2^53
    Exact,
    /// passes through a division by a non power of two, a square root, or an overflowing exact op
    Rounded,
    /// passes through an uninterpreted function (exp, ln, pow, tanh)
    Uninterp,
}

#[derive(Clone, Debug)]
pub struct TermInfo {
    pub t: T,
    pub val: f64,
    pub sig: u64,
    pub cls: Cls,
    pub scale: i32,
    pub mag: f64,
}

#[derive(Clone, Debug)]
pub struct VarSpec {
    pub name: String,
    pub lo: i64,
    pub hi: i64,
    pub shift: u32,
}

#[derive(Clone, Copy, PartialEq, Eq, Debug)]
pub enum EvKind {
    Branch,
    Assume,
}

#[derive(Clone, Debug)]
pub struct Ev {
    pub cond: u32,
    pub outcome: bool,
    pub kind: EvKind,
}

#[derive(Clone, Debug)]
pub struct Ob {
    pub name: String,
    pub cond: u32,
    pub pos: usize,
}

#[derive(Default, Clone, Debug)]
pub struct Counters {
    pub concretised: u64,
    pub inexact: u64,
    pub rounded_terms: u64,
    pub uf_terms: u64,
    pub rounded_compares: u64,
    pub uf_compares: u64,
    pub signed_zero: u64,
    pub exact_terms: u64,
}

/// Why a run stopped early (panic payload used by the engine itself).
#[derive(Clone, Debug)]
pub enum Abort {
    AssumeFailed,
    DivByZero,
    SqrtNegative,
    Unsupported(String),
}

pub struct Arena {
    pub symbolic: bool,
    pub mant_bits: u32,
    pub inputs: Vec<i64>,
    pub vars: Vec<VarSpec>,
    pub terms: Vec<TermInfo>,
    pub tmap: HashMap<T, u32>,
    pub bools: Vec<(B, bool, u64)>,
    pub bmap: HashMap<B, u32>,
    pub trace: Vec<Ev>,
    pub known: HashMap<u32, bool>,
    pub obligations: Vec<Ob>,
    pub bool_failures: Vec<String>,
    pub bool_checks: u64,
    pub observations: Vec<u64>,
    pub counters: Counters,
    pub locs: BTreeSet<(&'static str, u32)>,
    pub last_to_f64: Option<(u32, u64)>,
    pub notes: Vec<String>,
}

pub static ARENA: Mutex<Option<Arena>> = Mutex::new(None);

pub fn with<R>(f: impl FnOnce(&mut Arena) -> R) -> R {
    let mut g = match ARENA.lock() {
        Ok(g) => g,
        Err(p) => p.into_inner(),
    };
    if g.is_none() {
        *g = Some(fresh(false, &[]));
    }
    f(g.as_mut().unwrap())
}

fn fresh(symbolic: bool, inputs: &[i64]) -> Arena {
    Arena {
        symbolic,
        mant_bits: 53,
        inputs: inputs.to_vec(),
        vars: Vec::new(),
        terms: Vec::new(),
        tmap: HashMap::new(),
        bools: Vec::new(),
        bmap: HashMap::new(),
        trace: Vec::new(),
        known: HashMap::new(),
        obligations: Vec::new(),
        bool_failures: Vec::new(),
        bool_checks: 0,
        observations: Vec::new(),
        counters: Counters::default(),
        locs: BTreeSet::new(),
        last_to_f64: None,
        notes: Vec::new(),
    }
}

/// Start a new run.  `symbolic == false` turns every input into a constant, so the same harness
/// text runs as an ordinary concrete program (used for witness validation).
pub fn reset(symbolic: bool, inputs: &[i64]) {
    let mut g = match ARENA.lock() {
        Ok(g) => g,
        Err(p) => p.into_inner(),
    };
    *g = Some(fresh(symbolic, inputs));
}

pub fn take() -> Arena {
    let mut g = match ARENA.lock() {
        Ok(g) => g,
        Err(p) => p.into_inner(),
    };
    g.take().unwrap_or_else(|| fresh(false, &[]))
}

fn mix(a: u64, b: u64) -> u64 {
    // splitmix-style combiner; only has to be stable and well spread
    let mut x = a ^ b.wrapping_mul(0x9E37_79B9_7F4A_7C15).rotate_left(23);
    x = (x ^ (x >> 30)).wrapping_mul(0xBF58_476D_1CE4_E5B9);
    x = (x ^ (x >> 27)).wrapping_mul(0x94D0_49BB_1331_11EB);
    x ^ (x >> 31)
}

fn dyadic(v: f64) -> (i32, f64) {
    // v = m * 2^-scale, m odd integer (or 0)
    if v == 0.0 || !v.is_finite() {
        return (0, 0.0);
    }
    let bits = v.to_bits();
    let exp = ((bits >> 52) & 0x7ff) as i32;
    let frac = bits & ((1u64 << 52) - 1);
    let (mut m, mut e) = if exp == 0 { (frac, -1074) } else { (frac | (1u64 << 52), exp - 1075) };
    while m & 1 == 0 {
        m >>= 1;
        e += 1;
    }
    (-e, m as f64)
}

impl Arena {
    pub fn is_const(&self, t: u32) -> bool {
        matches!(self.terms[t as usize].t, T::C(_))
    }
    pub fn val(&self, t: u32) -> f64 {
        self.terms[t as usize].val
    }
    pub fn bval(&self, b: u32) -> bool {
        self.bools[b as usize].1
    }
    pub fn bconst(&self, b: u32) -> Option<bool> {
        match self.bools[b as usize].0 {
            B::K(v) => Some(v),
            _ => None,
        }
    }

    fn push_term(&mut self, t: T, val: f64, sig: u64, cls: Cls, scale: i32, mag: f64) -> u32 {
        if let Some(&id) = self.tmap.get(&t) {
            return id;
        }
        let id = self.terms.len() as u32;
        match cls {
            Cls::Exact => self.counters.exact_terms += 1,
            Cls::Rounded => self.counters.rounded_terms += 1,
            Cls::Uninterp => self.counters.uf_terms += 1,
        }
        self.terms.push(TermInfo { t, val, sig, cls, scale, mag });
        self.tmap.insert(t, id);
        id
    }

    pub fn cst(&mut self, v: f64) -> u32 {
        // all NaNs are one constant
        let bits = if v.is_nan() { f64::NAN.to_bits() } else { v.to_bits() };
        let (scale, mag) = dyadic(v);
        self.push_term(T::C(bits), v, mix(1, bits), Cls::Exact, scale, mag)
    }

    pub fn var(&mut self, name: &str, lo: i64, hi: i64, shift: u32) -> u32 {
        let i = self.vars.len();
        self.vars.push(VarSpec { name: name.to_string(), lo, hi, shift });
        let raw = self.inputs.get(i).copied().unwrap_or(if lo <= 0 && 0 <= hi { 0 } else { lo });
        let raw = raw.clamp(lo, hi);
        let v = raw as f64 / (1u64 << shift) as f64;
        if !self.symbolic {
            return self.cst(v);
        }
        let mag = (lo.abs().max(hi.abs())) as f64;
        self.push_term(T::V(i as u32), v, mix(2, i as u64), Cls::Exact, shift as i32, mag)
    }

    fn limit(&self) -> f64 {
        (1u64 << self.mant_bits) as f64
    }

    fn classify2(&mut self, a: u32, b: u32, scale: i32, mag: f64) -> (Cls, i32, f64) {
        let (ca, cb) = (self.terms[a as usize].cls, self.terms[b as usize].cls);
        if ca == Cls::Uninterp || cb == Cls::Uninterp {
            return (Cls::Uninterp, 0, 0.0);
        }
        if ca == Cls::Rounded || cb == Cls::Rounded {
            return (Cls::Rounded, 0, 0.0);
        }
        if mag >= self.limit() || !mag.is_finite() {
            self.counters.inexact += 1;
            return (Cls::Rounded, 0, 0.0);
        }
        (Cls::Exact, scale, mag)
    }

    pub fn bin(&mut self, op: u8, a: u32, b: u32) -> u32 {
        let (va, vb) = (self.val(a), self.val(b));
        let (ka, kb) = (self.is_const(a), self.is_const(b));
        let v = match op {
            b'+' => va + vb,
            b'-' => va - vb,
            b'*' => va * vb,
            b'/' => va / vb,
            b'M' => va.max(vb),
            b'm' => va.min(vb),
            _ => unreachable!(),
        };
        if ka && kb {
            return self.cst(v);
        }
        // exactly one side is a non-finite constant: fold where IEEE leaves no choice
        let (kc, vc) = if ka { (true, va) } else if kb { (true, vb) } else { (false, 0.0) };
        if kc && !vc.is_finite() {
            match op {
                b'+' | b'-' => return self.cst(v),
                b'M' | b'm' => {
                    if vc.is_nan() {
                        return if ka { b } else { a };
                    }
                    let keeps_other = (op == b'M') == (vc == f64::NEG_INFINITY);
                    return if keeps_other {
                        if ka {
                            b
                        } else {
                            a
                        }
                    } else {
                        self.cst(vc)
                    };
                }
                _ => {
                    if vc.is_nan() {
                        return self.cst(f64::NAN);
                    }
                    std::panic::panic_any(Abort::Unsupported(format!(
                        "symbolic term {} infinite constant",
                        op as char
                    )));
                }
            }
        }
        let (sa, ma) = (self.terms[a as usize].scale, self.terms[a as usize].mag);
        let (sb, mb) = (self.terms[b as usize].scale, self.terms[b as usize].mag);
        let (sga, sgb) = (self.terms[a as usize].sig, self.terms[b as usize].sig);
        let p2 = |d: i32| (2.0f64).powi(d);
        match op {
            b'+' | b'-' => {
                let s = sa.max(sb);
                let m = ma * p2(s - sa) + mb * p2(s - sb);
                let (cls, s, m) = self.classify2(a, b, s, m);
                if op == b'+' {
                    let (x, y) = if a <= b { (a, b) } else { (b, a) };
                    let sig = mix(10, mix(sga.min(sgb), sga.max(sgb)));
                    self.push_term(T::Add(x, y), v, sig, cls, s, m)
                } else {
                    self.push_term(T::Sub(a, b), v, mix(11, mix(sga, sgb)), cls, s, m)
                }
            }
            b'*' => {
                let (cls, s, m) = self.classify2(a, b, sa + sb, ma * mb);
                let (x, y) = if a <= b { (a, b) } else { (b, a) };
                let sig = mix(12, mix(sga.min(sgb), sga.max(sgb)));
                self.push_term(T::Mul(x, y), v, sig, cls, s, m)
            }
            b'M' | b'm' => {
                let s = sa.max(sb);
                let m = (ma * p2(s - sa)).max(mb * p2(s - sb));
                let (cls, s, m) = self.classify2(a, b, s, m);
                let (x, y) = if a <= b { (a, b) } else { (b, a) };
                let tag = if op == b'M' { 13 } else { 14 };
                let sig = mix(tag, mix(sga.min(sgb), sga.max(sgb)));
                let t = if op == b'M' { T::Max(x, y) } else { T::Min(x, y) };
                self.push_term(t, v, sig, cls, s, m)
            }
            b'/' => {
                if kb {
                    if vb == 0.0 {
                        std::panic::panic_any(Abort::Unsupported("division of a symbolic term by constant zero".into()));
                    }
                    let (sc, mc) = dyadic(vb);
                    if mc == 1.0 {
                        // division by +-2^k is exact: same as multiplying by the (exact) reciprocal
                        let r = self.cst(1.0 / vb);
                        let _ = sc;
                        return self.bin(b'*', a, r);
                    }
                }
                let cls = if self.terms[a as usize].cls == Cls::Uninterp || self.terms[b as usize].cls == Cls::Uninterp {
                    Cls::Uninterp
                } else {
                    Cls::Rounded
                };
                self.push_term(T::Div(a, b), v, mix(15, mix(sga, sgb)), cls, 0, 0.0)
            }
            _ => unreachable!(),
        }
    }

    pub fn un(&mut self, op: u8, a: u32) -> u32 {
        let va = self.val(a);
        let v = match op {
            b'n' => -va,
            b'a' => va.abs(),
            b's' => va.sqrt(),
            _ => unreachable!(),
        };
        if self.is_const(a) {
            return self.cst(v);
        }
        let i = self.terms[a as usize].clone();
        match op {
            b'n' => self.push_term(T::Neg(a), v, mix(20, i.sig), i.cls, i.scale, i.mag),
            b'a' => self.push_term(T::Abs(a), v, mix(21, i.sig), i.cls, i.scale, i.mag),
            b's' => {
                let cls = if i.cls == Cls::Uninterp { Cls::Uninterp } else { Cls::Rounded };
                self.push_term(T::Sqrt(a), v, mix(22, i.sig), cls, 0, 0.0)
            }
            _ => unreachable!(),
        }
    }

    pub fn uf(&mut self, f: Uf, a: u32) -> u32 {
        let va = self.val(a);
        let v = match f {
            Uf::Exp => va.exp(),
            Uf::Ln => va.ln(),
            Uf::Tanh => va.tanh(),
        };
        if self.is_const(a) {
            return self.cst(v);
        }
        let sig = mix(30 + f as u64, self.terms[a as usize].sig);
        self.push_term(T::Uf(f, a), v, sig, Cls::Uninterp, 0, 0.0)
    }

    pub fn pow(&mut self, a: u32, b: u32) -> u32 {
        let v = self.val(a).powf(self.val(b));
        if self.is_const(a) && self.is_const(b) {
            return self.cst(v);
        }
        let sig = mix(40, mix(self.terms[a as usize].sig, self.terms[b as usize].sig));
        self.push_term(T::Pow(a, b), v, sig, Cls::Uninterp, 0, 0.0)
    }

    pub fn fma(&mut self, a: u32, b: u32, c: u32) -> u32 {
        let v = self.val(a).mul_add(self.val(b), self.val(c));
        if self.is_const(a) && self.is_const(b) && self.is_const(c) {
            return self.cst(v);
        }
        for &t in &[a, b, c] {
            if self.is_const(t) && !self.val(t).is_finite() {
                // leave the special cases to the unfused path
                let m = self.bin(b'*', a, b);
                return self.bin(b'+', m, c);
            }
        }
        let (ia, ib, ic) = (self.terms[a as usize].clone(), self.terms[b as usize].clone(), self.terms[c as usize].clone());
        let any = |k: Cls| ia.cls == k || ib.cls == k || ic.cls == k;
        let (cls, scale, mag) = if any(Cls::Uninterp) {
            (Cls::Uninterp, 0, 0.0)
        } else if any(Cls::Rounded) {
            (Cls::Rounded, 0, 0.0)
        } else {
            let sp = ia.scale + ib.scale;
            let s = sp.max(ic.scale);
            let m = ia.mag * ib.mag * (2.0f64).powi(s - sp) + ic.mag * (2.0f64).powi(s - ic.scale);
            if m >= self.limit() || !m.is_finite() {
                self.counters.inexact += 1;
                (Cls::Rounded, 0, 0.0)
            } else {
                (Cls::Exact, s, m)
            }
        };
        let (x, y) = if a <= b { (a, b) } else { (b, a) };
        let sig = mix(42, mix(mix(ia.sig.min(ib.sig), ia.sig.max(ib.sig)), ic.sig));
        self.push_term(T::Fma(x, y, c), v, sig, cls, scale, mag)
    }

    pub fn ite(&mut self, c: u32, a: u32, b: u32) -> u32 {
        if let Some(k) = self.bconst(c) {
            return if k { a } else { b };
        }
        if a == b {
            return a;
        }
        let v = if self.bval(c) { self.val(a) } else { self.val(b) };
        let (ia, ib) = (self.terms[a as usize].clone(), self.terms[b as usize].clone());
        let s = ia.scale.max(ib.scale);
        let m = (ia.mag * (2.0f64).powi(s - ia.scale)).max(ib.mag * (2.0f64).powi(s - ib.scale));
        let (cls, s, m) = self.classify2(a, b, s, m);
        let sig = mix(41, mix(self.bools[c as usize].2, mix(ia.sig, ib.sig)));
        self.push_term(T::Ite(c, a, b), v, sig, cls, s, m)
    }

    // ---- booleans -------------------------------------------------------------------------
    fn push_bool(&mut self, b: B, v: bool, sig: u64) -> u32 {
        if let Some(&id) = self.bmap.get(&b) {
            return id;
        }
        let id = self.bools.len() as u32;
        self.bools.push((b.clone(), v, sig));
        self.bmap.insert(b, id);
        id
    }
    pub fn bk(&mut self, v: bool) -> u32 {
        self.push_bool(B::K(v), v, mix(50, v as u64))
    }
    pub fn blt(&mut self, a: u32, b: u32) -> u32 {
        let (va, vb) = (self.val(a), self.val(b));
        let v = va < vb;
        let (ka, kb) = (self.is_const(a), self.is_const(b));
        if ka && kb {
            return self.bk(v);
        }
        // symbolic terms are finite reals; comparisons against a non-finite constant are decided
        if (ka && !va.is_finite()) || (kb && !vb.is_finite()) {
            return self.bk(v);
        }
        if a == b {
            return self.bk(false);
        }
        self.note_compare(a, b);
        let sig = mix(51, mix(self.terms[a as usize].sig, self.terms[b as usize].sig));
        self.push_bool(B::Lt(a, b), v, sig)
    }
    pub fn beq(&mut self, a: u32, b: u32) -> u32 {
        let (va, vb) = (self.val(a), self.val(b));
        let v = va == vb;
        let (ka, kb) = (self.is_const(a), self.is_const(b));
        if ka && kb {
            return self.bk(v);
        }
        if (ka && !va.is_finite()) || (kb && !vb.is_finite()) {
            return self.bk(v);
        }
        if a == b {
            return self.bk(true);
        }
        self.note_compare(a, b);
        let (x, y) = if a <= b { (a, b) } else { (b, a) };
        let (s1, s2) = (self.terms[a as usize].sig, self.terms[b as usize].sig);
        let sig = mix(52, mix(s1.min(s2), s1.max(s2)));
        self.push_bool(B::Eq(x, y), v, sig)
    }
    fn note_compare(&mut self, a: u32, b: u32) {
        let (ca, cb) = (self.terms[a as usize].cls, self.terms[b as usize].cls);
        if ca == Cls::Uninterp || cb == Cls::Uninterp {
            self.counters.uf_compares += 1;
        } else if ca == Cls::Rounded || cb == Cls::Rounded {
            self.counters.rounded_compares += 1;
        }
    }
    pub fn bnot(&mut self, a: u32) -> u32 {
        match self.bools[a as usize].0.clone() {
            B::K(v) => self.bk(!v),
            B::Not(x) => x,
            _ => {
                let (v, s) = (self.bools[a as usize].1, self.bools[a as usize].2);
                self.push_bool(B::Not(a), !v, mix(53, s))
            }
        }
    }
    pub fn bnary(&mut self, and: bool, xs: &[u32]) -> u32 {
        let mut ys: Vec<u32> = Vec::new();
        for &x in xs {
            match self.bconst(x) {
                Some(k) if k == and => {}
                Some(k) => return self.bk(k),
                None => {
                    if !ys.contains(&x) {
                        ys.push(x)
                    }
                }
            }
        }
        if ys.is_empty() {
            return self.bk(and);
        }
        if ys.len() == 1 {
            return ys[0];
        }
        ys.sort_unstable();
        let v = if and { ys.iter().all(|&y| self.bval(y)) } else { ys.iter().any(|&y| self.bval(y)) };
        let mut sigs: Vec<u64> = ys.iter().map(|&y| self.bools[y as usize].2).collect();
        sigs.sort_unstable();
        let sig = sigs.iter().fold(mix(54, and as u64), |acc, &s| mix(acc, s));
        self.push_bool(if and { B::And(ys) } else { B::Or(ys) }, v, sig)
    }

    /// Record a control-flow decision of the code under test on `cond`; returns its outcome.
    pub fn branch(&mut self, cond: u32, loc: &'static Location<'static>) -> bool {
        if let Some(k) = self.bconst(cond) {
            return k;
        }
        // normalise: record the un-negated atom
        let (atom, neg) = match self.bools[cond as usize].0 {
            B::Not(x) => (x, true),
            _ => (cond, false),
        };
        if let Some(&o) = self.known.get(&atom) {
            return o != neg;
        }
        if let Some(o) = self.implied(atom) {
            self.known.insert(atom, o);
            return o != neg;
        }
        let o = self.bval(atom);
        self.known.insert(atom, o);
        self.trace.push(Ev { cond: atom, outcome: o, kind: EvKind::Branch });
        self.note_loc(loc);
        o != neg
    }

    /// outcome of an order atom that follows from the order atoms already decided on this run
    /// (trichotomy on the NaN-free domain); saves trace entries and infeasible flip queries
    fn implied(&self, atom: u32) -> Option<bool> {
        let k = |b: B| -> Option<bool> { self.bmap.get(&b).and_then(|id| self.known.get(id)).copied() };
        match self.bools[atom as usize].0 {
            B::Lt(x, y) => {
                let gt = k(B::Lt(y, x));
                let (e1, e2) = if x <= y { (x, y) } else { (y, x) };
                let eq = k(B::Eq(e1, e2));
                if gt == Some(true) || eq == Some(true) {
                    return Some(false);
                }
                if gt == Some(false) && eq == Some(false) {
                    return Some(true);
                }
                None
            }
            B::Eq(x, y) => {
                let (lt, gt) = (k(B::Lt(x, y)), k(B::Lt(y, x)));
                if lt == Some(true) || gt == Some(true) {
                    return Some(false);
                }
                if lt == Some(false) && gt == Some(false) {
                    return Some(true);
                }
                None
            }
            _ => None,
        }
    }

    /// IEEE evaluation of every term of this run on other inputs (same operations as the shadows)
    pub fn eval_all(&self, inputs: &[i64]) -> Vec<f64> {
        let mut v: Vec<f64> = Vec::with_capacity(self.terms.len());
        for info in &self.terms {
            let g = |x: u32| v[x as usize];
            let r = match info.t {
                T::C(bits) => f64::from_bits(bits),
                T::V(k) => {
                    let spec = &self.vars[k as usize];
                    let raw = inputs.get(k as usize).copied().unwrap_or(if spec.lo <= 0 && 0 <= spec.hi { 0 } else { spec.lo }).clamp(spec.lo, spec.hi);
                    raw as f64 / (1u64 << spec.shift) as f64
                }
                T::Add(x, y) => g(x) + g(y),
                T::Sub(x, y) => g(x) - g(y),
                T::Mul(x, y) => g(x) * g(y),
                T::Div(x, y) => g(x) / g(y),
                T::Neg(x) => -g(x),
                T::Abs(x) => g(x).abs(),
                T::Sqrt(x) => g(x).sqrt(),
                T::Max(x, y) => g(x).max(g(y)),
                T::Min(x, y) => g(x).min(g(y)),
                T::Uf(Uf::Exp, x) => g(x).exp(),
                T::Uf(Uf::Ln, x) => g(x).ln(),
                T::Uf(Uf::Tanh, x) => g(x).tanh(),
                T::Pow(x, y) => g(x).powf(g(y)),
                T::Fma(x, y, z) => g(x).mul_add(g(y), g(z)),
                T::Ite(c, x, y) => {
                    if self.eval_bool(c, &v) {
                        g(x)
                    } else {
                        g(y)
                    }
                }
            };
            v.push(r);
        }
        v
    }
    pub fn eval_bool(&self, b: u32, v: &[f64]) -> bool {
        match &self.bools[b as usize].0 {
            B::K(k) => *k,
            B::Lt(x, y) => v[*x as usize] < v[*y as usize],
            B::Eq(x, y) => v[*x as usize] == v[*y as usize],
            B::Not(x) => !self.eval_bool(*x, v),
            B::And(xs) => xs.iter().all(|x| self.eval_bool(*x, v)),
            B::Or(xs) => xs.iter().any(|x| self.eval_bool(*x, v)),
        }
    }

    pub fn note_loc(&mut self, loc: &'static Location<'static>) {
        let f = loc.file();
        if f.starts_with("/repo/") {
            self.locs.insert((f, loc.line()));
        }
    }
}

//! `SymF`: the symbolic scalar.  Implements `linfa::Float`, so linfa's generic algorithms run on
//! it unchanged; every arithmetic operation builds a term, every comparison is a recorded branch.
use crate::arena::{with, Abort, Cls, Uf};
use std::cmp::Ordering;
use std::fmt;
use std::iter::Sum;
use std::num::FpCategory;
use std::ops::*;
use std::panic::Location;

#[derive(Copy, Clone)]
pub struct SymF(pub u32);

/// Non-branching boolean term (for obligations and assumptions).
#[derive(Copy, Clone, Debug)]
pub struct SymB(pub u32);

impl Default for SymF {
    fn default() -> SymF {
        cst(0.0)
    }
}

pub fn cst(v: f64) -> SymF {
    SymF(with(|a| a.cst(v)))
}
pub fn val(w: SymF) -> f64 {
    with(|a| a.val(w.0))
}
pub fn is_c(w: SymF) -> bool {
    with(|a| a.is_const(w.0))
}
/// use of the concrete shadow value where the engine cannot follow symbolically
fn conc(w: SymF) -> f64 {
    let (v, first) = with(|a| {
        let mut first = false;
        if !a.is_const(w.0) {
            a.counters.concretised += 1;
            first = a.counters.concretised == 1;
        }
        (a.val(w.0), first)
    });
    if first && std::env::var("SYMX_TRACE_CONC").is_ok() {
        eprintln!("first concretisation at:\n{}", std::backtrace::Backtrace::force_capture());
    }
    v
}

#[track_caller]
fn bin(op: u8, x: SymF, y: SymF) -> SymF {
    let loc = Location::caller();
    if op == b'/' {
        // division by a symbolic term: the zero side is a path of its own
        let sym_div = with(|a| !a.is_const(y.0));
        if sym_div {
            let z = with(|a| {
                let zero = a.cst(0.0);
                let c = a.beq(y.0, zero);
                a.branch(c, loc)
            });
            if z {
                std::panic::panic_any(Abort::DivByZero);
            }
        }
    }
    SymF(with(|a| {
        a.note_loc(loc);
        a.bin(op, x.0, y.0)
    }))
}

macro_rules! binop {
    ($tr:ident, $f:ident, $op:expr) => {
        impl $tr for SymF {
            type Output = SymF;
            #[track_caller]
            fn $f(self, o: SymF) -> SymF {
                bin($op, self, o)
            }
        }
        impl<'a> $tr<&'a SymF> for SymF {
            type Output = SymF;
            #[track_caller]
            fn $f(self, o: &'a SymF) -> SymF {
                bin($op, self, *o)
            }
        }
        impl<'a> $tr<SymF> for &'a SymF {
            type Output = SymF;
            #[track_caller]
            fn $f(self, o: SymF) -> SymF {
                bin($op, *self, o)
            }
        }
        impl<'a, 'b> $tr<&'b SymF> for &'a SymF {
            type Output = SymF;
            #[track_caller]
            fn $f(self, o: &'b SymF) -> SymF {
                bin($op, *self, *o)
            }
        }
    };
}
binop!(Add, add, b'+');
binop!(Sub, sub, b'-');
binop!(Mul, mul, b'*');
binop!(Div, div, b'/');

fn rem(x: SymF, y: SymF) -> SymF {
    cst(conc(x) % conc(y))
}
impl Rem for SymF {
    type Output = SymF;
    fn rem(self, o: SymF) -> SymF {
        rem(self, o)
    }
}
impl<'a> Rem<&'a SymF> for SymF {
    type Output = SymF;
    fn rem(self, o: &'a SymF) -> SymF {
        rem(self, *o)
    }
}
impl<'a> Rem<SymF> for &'a SymF {
    type Output = SymF;
    fn rem(self, o: SymF) -> SymF {
        rem(*self, o)
    }
}
impl<'a, 'b> Rem<&'b SymF> for &'a SymF {
    type Output = SymF;
    fn rem(self, o: &'b SymF) -> SymF {
        rem(*self, *o)
    }
}

macro_rules! asgop {
    ($tr:ident, $f:ident, $op:expr) => {
        impl $tr for SymF {
            #[track_caller]
            fn $f(&mut self, o: SymF) {
                *self = bin($op, *self, o);
            }
        }
        impl<'a> $tr<&'a SymF> for SymF {
            #[track_caller]
            fn $f(&mut self, o: &'a SymF) {
                *self = bin($op, *self, *o);
            }
        }
    };
}
asgop!(AddAssign, add_assign, b'+');
asgop!(SubAssign, sub_assign, b'-');
asgop!(MulAssign, mul_assign, b'*');
asgop!(DivAssign, div_assign, b'/');
impl RemAssign for SymF {
    fn rem_assign(&mut self, o: SymF) {
        *self = rem(*self, o);
    }
}
impl<'a> RemAssign<&'a SymF> for SymF {
    fn rem_assign(&mut self, o: &'a SymF) {
        *self = rem(*self, *o);
    }
}

impl Neg for SymF {
    type Output = SymF;
    fn neg(self) -> SymF {
        SymF(with(|a| a.un(b'n', self.0)))
    }
}
impl<'a> Neg for &'a SymF {
    type Output = SymF;
    fn neg(self) -> SymF {
        SymF(with(|a| a.un(b'n', self.0)))
    }
}

// ---- comparisons --------------------------------------------------------------------------
#[track_caller]
pub fn lt(x: SymF, y: SymF) -> bool {
    let loc = Location::caller();
    with(|a| {
        let c = a.blt(x.0, y.0);
        a.branch(c, loc)
    })
}
#[track_caller]
pub fn le(x: SymF, y: SymF) -> bool {
    // on the NaN-free domain  x <= y  ==  !(y < x); constants may be NaN, then IEEE says false
    let loc = Location::caller();
    with(|a| {
        if a.val(x.0).is_nan() || a.val(y.0).is_nan() {
            return false;
        }
        let c = a.blt(y.0, x.0);
        !a.branch(c, loc)
    })
}
#[track_caller]
pub fn eq(x: SymF, y: SymF) -> bool {
    let loc = Location::caller();
    with(|a| {
        let c = a.beq(x.0, y.0);
        a.branch(c, loc)
    })
}
pub fn isnan(x: SymF) -> bool {
    val(x).is_nan()
}

impl PartialEq for SymF {
    #[track_caller]
    fn eq(&self, o: &SymF) -> bool {
        eq(*self, *o)
    }
}
impl PartialOrd for SymF {
    #[track_caller]
    fn partial_cmp(&self, o: &SymF) -> Option<Ordering> {
        if isnan(*self) || isnan(*o) {
            return None;
        }
        if lt(*self, *o) {
            Some(Ordering::Less)
        } else if eq(*self, *o) {
            Some(Ordering::Equal)
        } else {
            Some(Ordering::Greater)
        }
    }
    #[track_caller]
    fn lt(&self, o: &SymF) -> bool {
        lt(*self, *o)
    }
    #[track_caller]
    fn le(&self, o: &SymF) -> bool {
        le(*self, *o)
    }
    #[track_caller]
    fn gt(&self, o: &SymF) -> bool {
        lt(*o, *self)
    }
    #[track_caller]
    fn ge(&self, o: &SymF) -> bool {
        le(*o, *self)
    }
}

impl fmt::Debug for SymF {
    fn fmt(&self, f: &mut fmt::Formatter) -> fmt::Result {
        fmt::Debug::fmt(&val(*self), f)
    }
}
impl fmt::Display for SymF {
    fn fmt(&self, f: &mut fmt::Formatter) -> fmt::Result {
        fmt::Display::fmt(&val(*self), f)
    }
}
impl fmt::LowerExp for SymF {
    fn fmt(&self, f: &mut fmt::Formatter) -> fmt::Result {
        fmt::LowerExp::fmt(&val(*self), f)
    }
}
impl fmt::UpperExp for SymF {
    fn fmt(&self, f: &mut fmt::Formatter) -> fmt::Result {
        fmt::UpperExp::fmt(&val(*self), f)
    }
}
impl Sum for SymF {
    fn sum<I: Iterator<Item = SymF>>(it: I) -> SymF {
        it.fold(cst(0.0), |a, b| a + b)
    }
}
impl<'a> Sum<&'a SymF> for SymF {
    fn sum<I: Iterator<Item = &'a SymF>>(it: I) -> SymF {
        it.fold(cst(0.0), |a, b| a + *b)
    }
}

use num_traits::{AsPrimitive, Bounded, Float, FromPrimitive, MulAdd, Num, NumCast, One, Signed, ToPrimitive, Zero};
impl Zero for SymF {
    fn zero() -> SymF {
        cst(0.0)
    }
    #[track_caller]
    fn is_zero(&self) -> bool {
        eq(*self, cst(0.0))
    }
}
impl One for SymF {
    fn one() -> SymF {
        cst(1.0)
    }
}
impl Num for SymF {
    type FromStrRadixErr = num_traits::ParseFloatError;
    fn from_str_radix(s: &str, r: u32) -> Result<SymF, Self::FromStrRadixErr> {
        f64::from_str_radix(s, r).map(cst)
    }
}

static LAST_BT: std::sync::Mutex<String> = std::sync::Mutex::new(String::new());
impl ToPrimitive for SymF {
    fn to_i64(&self) -> Option<i64> {
        conc(*self).to_i64()
    }
    fn to_u64(&self) -> Option<u64> {
        conc(*self).to_u64()
    }
    fn to_f32(&self) -> Option<f32> {
        Some(conc(*self) as f32)
    }
    fn to_f64(&self) -> Option<f64> {
        // `F::from(x)` / `F::cast(x)` with x: SymF must be the identity.  NumCast::from cannot
        // specialise on its source type, so the handle travels through this side channel; a
        // to_f64() whose result is *not* consumed by SymF::from is a concretisation and counted.
        let tracing = std::env::var("SYMX_TRACE_CONC").is_ok();
        with(|a| {
            if a.last_to_f64.take().is_some() {
                a.counters.concretised += 1;
                if tracing && a.counters.concretised <= 2 {
                    eprintln!("unconsumed to_f64() (concretisation) at:\n{}", LAST_BT.lock().unwrap());
                }
            }
            let v = a.val(self.0);
            if !a.is_const(self.0) {
                a.last_to_f64 = Some((self.0, v.to_bits()));
                if tracing {
                    *LAST_BT.lock().unwrap() = format!("{}", std::backtrace::Backtrace::force_capture());
                }
            }
            Some(v)
        })
    }
}
impl FromPrimitive for SymF {
    fn from_i64(n: i64) -> Option<SymF> {
        Some(cst(n as f64))
    }
    fn from_u64(n: u64) -> Option<SymF> {
        Some(cst(n as f64))
    }
    fn from_f64(n: f64) -> Option<SymF> {
        Some(cst(n))
    }
    fn from_f32(n: f32) -> Option<SymF> {
        Some(cst(n as f64))
    }
}
impl NumCast for SymF {
    fn from<T: ToPrimitive>(n: T) -> Option<SymF> {
        with(|a| {
            if a.last_to_f64.take().is_some() {
                a.counters.concretised += 1;
            }
        });
        let v = n.to_f64()?;
        let h = with(|a| a.last_to_f64.take());
        if let Some((h, bits)) = h {
            if bits == v.to_bits() {
                return Some(SymF(h));
            }
            with(|a| a.counters.concretised += 1);
        }
        Some(cst(v))
    }
}
impl AsPrimitive<usize> for SymF {
    fn as_(self) -> usize {
        conc(self) as usize
    }
}
impl AsPrimitive<f64> for SymF {
    fn as_(self) -> f64 {
        conc(self)
    }
}
impl Bounded for SymF {
    fn min_value() -> SymF {
        cst(f64::MIN)
    }
    fn max_value() -> SymF {
        cst(f64::MAX)
    }
}

pub fn w_abs(a: SymF) -> SymF {
    SymF(with(|ar| ar.un(b'a', a.0)))
}
#[track_caller]
pub fn w_sqrt(a: SymF) -> SymF {
    if !is_c(a) && lt(a, cst(0.0)) {
        std::panic::panic_any(Abort::SqrtNegative);
    }
    SymF(with(|ar| ar.un(b's', a.0)))
}
pub fn w_max(a: SymF, b: SymF) -> SymF {
    SymF(with(|ar| ar.bin(b'M', a.0, b.0)))
}
pub fn w_min(a: SymF, b: SymF) -> SymF {
    SymF(with(|ar| ar.bin(b'm', a.0, b.0)))
}
fn uf(f: Uf, a: SymF) -> SymF {
    SymF(with(|ar| ar.uf(f, a.0)))
}

/// sign-bit queries: real arithmetic has one zero, so the zero side follows the shadow value
#[track_caller]
fn sign_negative(x: SymF) -> bool {
    if is_c(x) {
        return val(x).is_sign_negative();
    }
    if lt(x, cst(0.0)) {
        return true;
    }
    if eq(x, cst(0.0)) {
        with(|a| a.counters.signed_zero += 1);
        return val(x).is_sign_negative();
    }
    false
}

impl Signed for SymF {
    fn abs(&self) -> SymF {
        w_abs(*self)
    }
    #[track_caller]
    fn abs_sub(&self, o: &SymF) -> SymF {
        if le(*self, *o) {
            cst(0.0)
        } else {
            *self - *o
        }
    }
    #[track_caller]
    fn signum(&self) -> SymF {
        if isnan(*self) {
            *self
        } else if sign_negative(*self) {
            cst(-1.0)
        } else {
            cst(1.0)
        }
    }
    #[track_caller]
    fn is_positive(&self) -> bool {
        !isnan(*self) && !sign_negative(*self)
    }
    #[track_caller]
    fn is_negative(&self) -> bool {
        !isnan(*self) && sign_negative(*self)
    }
}
impl MulAdd for SymF {
    type Output = SymF;
    fn mul_add(self, a: SymF, b: SymF) -> SymF {
        SymF(with(|ar| ar.fma(self.0, a.0, b.0)))
    }
}

macro_rules! un_c { ($($f:ident),*) => { $( fn $f(self) -> SymF { cst(conc(self).$f()) } )* } }
impl Float for SymF {
    fn nan() -> SymF {
        cst(f64::NAN)
    }
    fn infinity() -> SymF {
        cst(f64::INFINITY)
    }
    fn neg_infinity() -> SymF {
        cst(f64::NEG_INFINITY)
    }
    fn neg_zero() -> SymF {
        cst(-0.0)
    }
    fn min_value() -> SymF {
        cst(f64::MIN)
    }
    fn min_positive_value() -> SymF {
        cst(f64::MIN_POSITIVE)
    }
    fn max_value() -> SymF {
        cst(f64::MAX)
    }
    fn epsilon() -> SymF {
        cst(f64::EPSILON)
    }
    fn is_nan(self) -> bool {
        isnan(self)
    }
    fn is_infinite(self) -> bool {
        // symbolic terms are finite; constants are decided on their value
        is_c(self) && val(self).is_infinite()
    }
    fn is_finite(self) -> bool {
        !is_c(self) || val(self).is_finite()
    }
    fn is_normal(self) -> bool {
        conc(self).is_normal()
    }
    fn classify(self) -> FpCategory {
        conc(self).classify()
    }
    un_c!(floor, ceil, round, trunc, fract, exp2, log2, log10, cbrt, sin, cos, tan, asin, acos, atan, exp_m1, ln_1p, sinh, cosh, asinh, acosh, atanh);
    #[track_caller]
    fn recip(self) -> SymF {
        cst(1.0) / self
    }
    fn exp(self) -> SymF {
        uf(Uf::Exp, self)
    }
    #[track_caller]
    fn ln(self) -> SymF {
        if !is_c(self) && !lt(cst(0.0), self) {
            std::panic::panic_any(Abort::Unsupported("ln of a non-positive symbolic term".into()));
        }
        uf(Uf::Ln, self)
    }
    fn tanh(self) -> SymF {
        uf(Uf::Tanh, self)
    }
    fn abs(self) -> SymF {
        w_abs(self)
    }
    #[track_caller]
    fn sqrt(self) -> SymF {
        w_sqrt(self)
    }
    #[track_caller]
    fn signum(self) -> SymF {
        Signed::signum(&self)
    }
    #[track_caller]
    fn is_sign_positive(self) -> bool {
        !sign_negative(self)
    }
    #[track_caller]
    fn is_sign_negative(self) -> bool {
        sign_negative(self)
    }
    fn mul_add(self, a: SymF, b: SymF) -> SymF {
        SymF(with(|ar| ar.fma(self.0, a.0, b.0)))
    }
    #[track_caller]
    fn powi(self, n: i32) -> SymF {
        if is_c(self) {
            return cst(val(self).powi(n));
        }
        let mut r = cst(1.0);
        for _ in 0..n.unsigned_abs() {
            r = r * self;
        }
        if n < 0 {
            cst(1.0) / r
        } else {
            r
        }
    }
    #[track_caller]
    fn powf(self, n: SymF) -> SymF {
        if is_c(n) {
            let e = val(n);
            if e == e.trunc() && e.abs() <= 8.0 {
                return Float::powi(self, e as i32);
            }
        }
        SymF(with(|a| a.pow(self.0, n.0)))
    }
    fn log(self, b: SymF) -> SymF {
        cst(conc(self).log(conc(b)))
    }
    fn max(self, o: SymF) -> SymF {
        w_max(self, o)
    }
    fn min(self, o: SymF) -> SymF {
        w_min(self, o)
    }
    #[track_caller]
    fn abs_sub(self, o: SymF) -> SymF {
        Signed::abs_sub(&self, &o)
    }
    #[track_caller]
    fn hypot(self, o: SymF) -> SymF {
        w_sqrt(self * self + o * o)
    }
    fn atan2(self, o: SymF) -> SymF {
        cst(conc(self).atan2(conc(o)))
    }
    fn sin_cos(self) -> (SymF, SymF) {
        let (a, b) = conc(self).sin_cos();
        (cst(a), cst(b))
    }
    fn integer_decode(self) -> (u64, i16, i8) {
        Float::integer_decode(conc(self))
    }
}

impl ndarray::ScalarOperand for SymF {}
impl ndarray::NdFloat for SymF {}
impl approx::AbsDiffEq for SymF {
    type Epsilon = SymF;
    fn default_epsilon() -> SymF {
        cst(f64::EPSILON)
    }
    #[track_caller]
    fn abs_diff_eq(&self, o: &SymF, e: SymF) -> bool {
        le(w_abs(*self - *o), e)
    }
}
impl approx::RelativeEq for SymF {
    fn default_max_relative() -> SymF {
        cst(f64::EPSILON)
    }
    #[track_caller]
    fn relative_eq(&self, o: &SymF, e: SymF, mr: SymF) -> bool {
        if eq(*self, *o) {
            return true;
        }
        let d = w_abs(*self - *o);
        if le(d, e) {
            return true;
        }
        let largest = w_max(w_abs(*self), w_abs(*o));
        le(d, largest * mr)
    }
}

use rand::distributions::uniform::{SampleBorrow, SampleUniform, UniformFloat, UniformSampler};
pub struct USym(UniformFloat<f64>);
impl UniformSampler for USym {
    type X = SymF;
    fn new<B1: SampleBorrow<SymF> + Sized, B2: SampleBorrow<SymF> + Sized>(l: B1, h: B2) -> Self {
        USym(UniformFloat::<f64>::new(conc(*l.borrow()), conc(*h.borrow())))
    }
    fn new_inclusive<B1: SampleBorrow<SymF> + Sized, B2: SampleBorrow<SymF> + Sized>(l: B1, h: B2) -> Self {
        USym(UniformFloat::<f64>::new_inclusive(conc(*l.borrow()), conc(*h.borrow())))
    }
    fn sample<R: rand::Rng + ?Sized>(&self, rng: &mut R) -> SymF {
        cst(self.0.sample(rng))
    }
}
impl SampleUniform for SymF {
    type Sampler = USym;
}
impl linfa::Float for SymF {
    type Lapack = SymF;
}

// Serialisation moves the handle: a round trip through any serde format that is lossless on u32
// returns the same term, so "restored == original" can be decided term by term.
impl serde::Serialize for SymF {
    fn serialize<S: serde::Serializer>(&self, s: S) -> Result<S::Ok, S::Error> {
        s.serialize_u32(self.0)
    }
}
/// When set, numbers met while deserialising a `SymF` are *values* (turned into constants) instead of
/// term handles: used to turn a model fitted with `f64` into the same model over the symbolic scalar
/// (`to_symbolic`), for predictors whose `fit` is tied to primitive floats but whose `predict` is generic.
pub static DESERIALIZE_VALUES: std::sync::atomic::AtomicBool = std::sync::atomic::AtomicBool::new(false);

impl<'de> serde::Deserialize<'de> for SymF {
    fn deserialize<D: serde::Deserializer<'de>>(d: D) -> Result<SymF, D::Error> {
        struct V;
        impl<'de> serde::de::Visitor<'de> for V {
            type Value = SymF;
            fn expecting(&self, f: &mut fmt::Formatter) -> fmt::Result {
                f.write_str("a term handle (or a number in value mode)")
            }
            fn visit_u64<E: serde::de::Error>(self, h: u64) -> Result<SymF, E> {
                if DESERIALIZE_VALUES.load(std::sync::atomic::Ordering::Relaxed) {
                    return Ok(cst(h as f64));
                }
                let ok = with(|a| (h as usize) < a.terms.len());
                if !ok {
                    return Err(E::custom("dangling SymF handle"));
                }
                Ok(SymF(h as u32))
            }
            fn visit_u32<E: serde::de::Error>(self, h: u32) -> Result<SymF, E> {
                self.visit_u64(h as u64)
            }
            fn visit_i64<E: serde::de::Error>(self, h: i64) -> Result<SymF, E> {
                if DESERIALIZE_VALUES.load(std::sync::atomic::Ordering::Relaxed) {
                    return Ok(cst(h as f64));
                }
                if h < 0 {
                    return Err(E::custom("negative SymF handle"));
                }
                self.visit_u64(h as u64)
            }
            fn visit_f64<E: serde::de::Error>(self, v: f64) -> Result<SymF, E> {
                if DESERIALIZE_VALUES.load(std::sync::atomic::Ordering::Relaxed) {
                    return Ok(cst(v));
                }
                Err(E::custom("a float where a SymF handle was expected"))
            }
        }
        if DESERIALIZE_VALUES.load(std::sync::atomic::Ordering::Relaxed) {
            d.deserialize_any(V)
        } else {
            d.deserialize_u32(V)
        }
    }
}

// ---- non-branching booleans ------------------------------------------------------------------
impl SymB {
    pub fn k(v: bool) -> SymB {
        SymB(with(|a| a.bk(v)))
    }
    pub fn val(self) -> bool {
        with(|a| a.bval(self.0))
    }
    pub fn not(self) -> SymB {
        SymB(with(|a| a.bnot(self.0)))
    }
    pub fn and(self, o: SymB) -> SymB {
        SymB(with(|a| a.bnary(true, &[self.0, o.0])))
    }
    pub fn or(self, o: SymB) -> SymB {
        SymB(with(|a| a.bnary(false, &[self.0, o.0])))
    }
    pub fn implies(self, o: SymB) -> SymB {
        self.not().or(o)
    }
    pub fn iff(self, o: SymB) -> SymB {
        self.implies(o).and(o.implies(self))
    }
    pub fn all(xs: &[SymB]) -> SymB {
        let v: Vec<u32> = xs.iter().map(|x| x.0).collect();
        SymB(with(|a| a.bnary(true, &v)))
    }
    pub fn any(xs: &[SymB]) -> SymB {
        let v: Vec<u32> = xs.iter().map(|x| x.0).collect();
        SymB(with(|a| a.bnary(false, &v)))
    }
    /// turn into a control-flow decision of the harness (recorded like any branch)
    #[track_caller]
    pub fn branch(self) -> bool {
        let loc = Location::caller();
        with(|a| a.branch(self.0, loc))
    }
}

impl SymF {
    pub fn v(self) -> f64 {
        val(self)
    }
    pub fn is_const(self) -> bool {
        is_c(self)
    }
    pub fn class(self) -> Cls {
        with(|a| a.terms[self.0 as usize].cls)
    }
    pub fn s_lt(self, o: SymF) -> SymB {
        SymB(with(|a| a.blt(self.0, o.0)))
    }
    pub fn s_le(self, o: SymF) -> SymB {
        SymB(with(|a| {
            let c = a.blt(o.0, self.0);
            a.bnot(c)
        }))
    }
    pub fn s_eq(self, o: SymF) -> SymB {
        SymB(with(|a| a.beq(self.0, o.0)))
    }
    pub fn s_ite(c: SymB, x: SymF, y: SymF) -> SymF {
        SymF(with(|a| a.ite(c.0, x.0, y.0)))
    }
    /// same term (hash-consed, commutativity-normalised): implies bit-identical IEEE values
    pub fn same_term(self, o: SymF) -> bool {
        self.0 == o.0
    }
}

//! symx — symbolic-scalar execution of linfa's generic algorithms (Engine S of /verif/DESIGN.md).
pub mod arena;
pub mod explore;
pub mod scalar;
pub mod solver;

pub use arena::{Abort, Cls};
pub use explore::{explore, run_once, Config, Report, Violation};
pub use scalar::{cst, SymB, SymF};

use arena::{with, EvKind};
use std::cmp::Ordering;
use std::hash::{Hash, Hasher};

/// The scalar types a harness can be instantiated with: the symbolic one and the native floats
/// (used for replay and for validating the translator on path witnesses).
pub trait Scalar: linfa::Float + 'static {
    fn input(name: &str, lo: i64, hi: i64, shift: u32) -> Self;
    fn lit(v: f64) -> Self;
    fn shadow(self) -> f64;
    fn s_lt(self, o: Self) -> SymB;
    fn s_le(self, o: Self) -> SymB;
    fn s_eq(self, o: Self) -> SymB;
    /// bit-identical for native floats; same term for the symbolic scalar
    fn identical(self, o: Self) -> bool;
    fn is_symbolic_engine() -> bool;
}

impl Scalar for SymF {
    fn input(name: &str, lo: i64, hi: i64, shift: u32) -> SymF {
        SymF(with(|a| a.var(name, lo, hi, shift)))
    }
    fn lit(v: f64) -> SymF {
        cst(v)
    }
    fn shadow(self) -> f64 {
        self.v()
    }
    fn s_lt(self, o: SymF) -> SymB {
        SymF::s_lt(self, o)
    }
    fn s_le(self, o: SymF) -> SymB {
        SymF::s_le(self, o)
    }
    fn s_eq(self, o: SymF) -> SymB {
        SymF::s_eq(self, o)
    }
    fn identical(self, o: SymF) -> bool {
        self.same_term(o)
    }
    fn is_symbolic_engine() -> bool {
        true
    }
}

fn jitter_on() -> bool {
    static ON: std::sync::OnceLock<bool> = std::sync::OnceLock::new();
    *ON.get_or_init(|| std::env::var("SYMX_JITTER").map(|v| v == "1").unwrap_or(false))
}

macro_rules! native_scalar {
    ($t:ty) => {
        impl Scalar for $t {
            fn input(name: &str, lo: i64, hi: i64, shift: u32) -> $t {
                let h = with(|a| a.var(name, lo, hi, shift));
                let v = with(|a| a.val(h));
                // SYMX_JITTER (native cross-process replays only): a fixed non-dyadic offset per input, so that
                // sums are no longer exact and their order shows in the last bits
                let v = if jitter_on() { v + ((h as f64 * 0.6180339887498949).fract() * 0.25 + 0.0123456789) / (1u64 << shift) as f64 } else { v };
                v as $t
            }
            fn lit(v: f64) -> $t {
                v as $t
            }
            fn shadow(self) -> f64 {
                self as f64
            }
            fn s_lt(self, o: $t) -> SymB {
                SymB::k(self < o)
            }
            fn s_le(self, o: $t) -> SymB {
                SymB::k(self <= o)
            }
            fn s_eq(self, o: $t) -> SymB {
                SymB::k(self == o)
            }
            fn identical(self, o: $t) -> bool {
                self.to_bits() == o.to_bits()
            }
            fn is_symbolic_engine() -> bool {
                false
            }
        }
    };
}
native_scalar!(f64);
native_scalar!(f32);

/// integer-valued input in [lo, hi]
pub fn int<F: Scalar>(name: &str, lo: i64, hi: i64) -> F {
    F::input(name, lo, hi, 0)
}
/// input j * 2^-shift with |j| <= b
pub fn grid<F: Scalar>(name: &str, b: i64, shift: u32) -> F {
    F::input(name, -b, b, shift)
}

/// Obligation over scalar terms: must hold for every input of the current path.
pub fn check(name: &str, b: SymB) {
    with(|a| {
        let pos = a.trace.len();
        a.obligations.push(arena::Ob { name: name.to_string(), cond: b.0, pos });
    })
}
/// Obligation that is a function of branch outcomes only: decided on the path itself.
pub fn check_bool(name: &str, ok: bool) {
    with(|a| {
        a.bool_checks += 1;
        if !ok {
            a.bool_failures.push(name.to_string());
        }
    })
}
/// Restrict the input domain.  A run violating the assumption is discarded and the solver is
/// asked for an input that satisfies it.
pub fn assume(b: SymB) {
    let ok = with(|a| {
        if let Some(k) = a.bconst(b.0) {
            return k;
        }
        let (atom, neg) = match a.bools[b.0 as usize].0 {
            arena::B::Not(x) => (x, true),
            _ => (b.0, false),
        };
        if let Some(&o) = a.known.get(&atom) {
            return o != neg;
        }
        let o = a.bval(atom);
        a.known.insert(atom, o);
        // recorded un-negated; `outcome` is what held on this run, the explorer only ever asks
        // for the side that satisfies the assumption
        a.trace.push(arena::Ev { cond: b.0, outcome: a.bval(b.0), kind: EvKind::Assume });
        o != neg
    });
    if !ok {
        std::panic::panic_any(Abort::AssumeFailed);
    }
}
/// Discard the current path (its condition is a function of branch outcomes already taken).
pub fn assume_bool(ok: bool) {
    if !ok {
        with(|a| a.notes.push("path discarded by assume_bool".into()));
        std::panic::panic_any(Abort::AssumeFailed);
    }
}
/// Output of the code under test, compared bit-for-bit between the symbolic run's shadow values
/// and a native re-execution on the same inputs (validation of the translator).
pub fn observe<F: Scalar>(v: F) {
    let bits = v.shadow().to_bits();
    with(|a| a.observations.push(bits));
}
pub fn observe_usize(v: usize) {
    with(|a| a.observations.push(v as u64));
}
pub fn note(s: &str) {
    with(|a| a.notes.push(s.to_string()));
}
pub fn is_symbolic_run() -> bool {
    with(|a| a.symbolic)
}

/// Solver-chosen value in 0..n, made concrete by a chain of recorded branches, so every value is
/// reached on some path.
#[track_caller]
pub fn choice(name: &str, n: usize) -> usize {
    assert!(n >= 1);
    if n == 1 {
        return 0;
    }
    let x: SymF = SymF::input(name, 0, n as i64 - 1, 0);
    for v in 0..n - 1 {
        if scalar::eq(x, cst(v as f64)) {
            return v;
        }
    }
    n - 1
}

/// Symbolic class label: equality and order go through the solver, the hash is constant so the
/// real `HashMap` code of linfa runs without SipHash ever seeing a symbolic value.
#[derive(Clone, Copy, Debug)]
pub struct SymLabel(pub SymF);
impl SymLabel {
    pub fn input(name: &str, n_classes: usize) -> SymLabel {
        SymLabel(SymF::input(name, 0, n_classes as i64 - 1, 0))
    }
    pub fn k(v: usize) -> SymLabel {
        SymLabel(cst(v as f64))
    }
    /// concrete class on this path (branches)
    #[track_caller]
    pub fn resolve(self, n_classes: usize) -> usize {
        for v in 0..n_classes.saturating_sub(1) {
            if scalar::eq(self.0, cst(v as f64)) {
                return v;
            }
        }
        n_classes.saturating_sub(1)
    }
}
impl Default for SymLabel {
    fn default() -> SymLabel {
        SymLabel(cst(0.0))
    }
}
impl PartialEq for SymLabel {
    #[track_caller]
    fn eq(&self, o: &SymLabel) -> bool {
        scalar::eq(self.0, o.0)
    }
}
impl Eq for SymLabel {}
impl PartialOrd for SymLabel {
    #[track_caller]
    fn partial_cmp(&self, o: &SymLabel) -> Option<Ordering> {
        Some(self.cmp(o))
    }
}
impl Ord for SymLabel {
    #[track_caller]
    fn cmp(&self, o: &SymLabel) -> Ordering {
        if scalar::lt(self.0, o.0) {
            Ordering::Less
        } else if scalar::eq(self.0, o.0) {
            Ordering::Equal
        } else {
            Ordering::Greater
        }
    }
}
impl Hash for SymLabel {
    fn hash<H: Hasher>(&self, _h: &mut H) {}
}
impl linfa::Label for SymLabel {}
impl serde::Serialize for SymLabel {
    fn serialize<S: serde::Serializer>(&self, s: S) -> Result<S::Ok, S::Error> {
        self.0.serialize(s)
    }
}
impl<'de> serde::Deserialize<'de> for SymLabel {
    fn deserialize<D: serde::Deserializer<'de>>(d: D) -> Result<SymLabel, D::Error> {
        Ok(SymLabel(<SymF as serde::Deserialize>::deserialize(d)?))
    }
}

/// Re-type a model fitted with `f64` as the same model over another scalar (constants), through its
/// serde representation: for predictors whose `fit` only exists for primitive floats while `predict`
/// is generic.  With `F = f64` this is an ordinary lossless round trip.
pub fn to_scalar_model<M64: serde::Serialize, M: serde::de::DeserializeOwned>(m: &M64) -> M {
    let v = serde_json::to_value(m).expect("model serialises");
    scalar::DESERIALIZE_VALUES.store(true, std::sync::atomic::Ordering::Relaxed);
    let r = serde_json::from_value::<M>(v);
    scalar::DESERIALIZE_VALUES.store(false, std::sync::atomic::Ordering::Relaxed);
    r.expect("model deserialises over the target scalar")
}

#!/bin/bash
# usage: k.sh <harness> [extra cargo-kani args]   -- run one harness under the standard limits
h=$1; shift
export CARGO_NET_OFFLINE=true
cd /verif/hk
ulimit -v 14000000
/usr/bin/time -f "WALL %e s  MAXRSS %M KB" timeout 900 cargo kani --target-dir /verif/target-kani --harness "$h" --exact --no-memory-safety-checks --no-overflow-checks -Z unstable-options --no-assertion-reach-checks -Z stubbing "$@" --cbmc-args --unwindset memcmp.0:18 2>&1

use crate::util::*;
use linfa::ParamGuard;

// ---------------------------------------------------------------------------------------------
// Decision tree.  Documentation used: the guard's own message "Minimum impurity decrease should be
// greater than zero"; no other field has a documented range (`min_weight_split`, `min_weight_leaf`,
// `max_depth` are claimed by neither side whatever their value).
// Narrowing: values in (0, F::EPSILON) are claimed by neither side here, see `c04_doc_trees_tiny_positive`.
mod trees {
    use super::*;
    use linfa_trees::{DecisionTree, SplitQuality};

    fn body<F: SymFloat>() {
        let mid: F = fin();
        let mws: f32 = fin();
        let mwl: f32 = fin();
        let depth: Option<usize> = if kani::any() { Some(kani::any()) } else { None };
        let sq = if kani::any() { SplitQuality::Gini } else { SplitQuality::Entropy };
        let p = DecisionTree::<F, usize>::params().split_quality(sq).max_depth(depth).min_weight_split(mws).min_weight_leaf(mwl).min_impurity_decrease(mid);
        let acc = mid >= F::epsilon();
        let rej = mid <= F::zero();
        let code = |e: &linfa::Error| match e {
            linfa::Error::Parameters(_) => 1,
            _ => 99,
        };
        let by_val = p.clone().check();
        let r = p.check_ref();
        verdict(r.is_ok(), acc, rej);
        let c_ref = match &r {
            Ok(v) => {
                assert!(
                    same(v.min_impurity_decrease(), mid) && v.min_weight_split().to_bits() == mws.to_bits() && v.min_weight_leaf().to_bits() == mwl.to_bits() && v.max_depth() == depth && v.split_quality() == sq,
                    "C04: check_ref() changed a parameter"
                );
                0
            }
            Err(e) => {
                assert!(matches!(e, linfa::Error::Parameters(_)), "C04: a hyper-parameter error must be linfa::Error::Parameters");
                code(e)
            }
        };
        let c_val = match &by_val {
            Ok(v) => {
                assert!(same(v.min_impurity_decrease(), mid) && v.max_depth() == depth, "C04: check() changed a parameter");
                0
            }
            Err(e) => code(e),
        };
        agree(c_ref, c_val);
        std::mem::forget(by_val);
        std::mem::forget(r);
    }

    #[kani::proof]
    #[kani::unwind(5)]
    #[kani::stub(alloc::fmt::format, crate::util::fmt_stub)]
    fn c04_trees_f64() {
        body::<f64>()
    }
    #[kani::proof]
    #[kani::unwind(5)]
    #[kani::stub(alloc::fmt::format, crate::util::fmt_stub)]
    fn c04_trees_f32() {
        body::<f32>()
    }

    /// DOC-vs-GUARD suspect, isolated: the message promises "greater than zero"; the guard compares with
    /// `F::epsilon()`, so 1e-17 is rejected with "... should be greater than zero, but was 0.00000000000000001".
    #[kani::proof]
    #[kani::unwind(5)]
    #[kani::stub(alloc::fmt::format, crate::util::fmt_stub)]
    fn c04_doc_trees_tiny_positive() {
        let mid: f64 = fin();
        kani::assume(mid > 0.0);
        let p = DecisionTree::<f64, usize>::params().min_impurity_decrease(mid);
        let r = p.check_ref();
        witness_reached();
        assert!(r.is_ok(), "C04-DOC: min_impurity_decrease > 0 (documented: 'should be greater than zero') but check_ref() returned Err");
        std::mem::forget(r);
    }
}

// ---------------------------------------------------------------------------------------------
// Naive Bayes.  Documentation used: parameter tables `var_smoothing` `[0, inf)`, `alpha` `[0, inf)`;
// "Returns InvalidSmoothing if the smoothing parameter is negative."
mod bayes {
    use super::*;
    use linfa_bayes::{GaussianNb, MultinomialNb, NaiveBayesError};

    macro_rules! nb {
        ($name:ident, $F:ty, $model:ident, $setter:ident) => {
            #[kani::proof]
            #[kani::unwind(5)]
            fn $name() {
                let x: $F = fin();
                let p = $model::<$F, usize>::params().$setter(x);
                let acc = x >= 0.0;
                let rej = !acc;
                let by_val = p.clone().check();
                let r = p.check_ref();
                verdict(r.is_ok(), acc, rej);
                let c_ref = match &r {
                    Ok(v) => {
                        assert!(same(v.$setter(), x), "C04: check_ref() changed a parameter");
                        0
                    }
                    Err(NaiveBayesError::InvalidSmoothing(y)) => {
                        assert!(y.to_bits() == (x as f64).to_bits(), "C04: the error carries another value than the offending parameter");
                        1
                    }
                    Err(_) => 99,
                };
                let c_val = match &by_val {
                    Ok(v) => {
                        assert!(same(v.$setter(), x), "C04: check() changed a parameter");
                        0
                    }
                    Err(NaiveBayesError::InvalidSmoothing(_)) => 1,
                    Err(_) => 99,
                };
                assert!(c_ref != 99, "C04: a hyper-parameter error must be NaiveBayesError::InvalidSmoothing");
                agree(c_ref, c_val);
                std::mem::forget(by_val);
                std::mem::forget(r);
            }
        };
    }
    nb!(c04_gaussian_nb_f64, f64, GaussianNb, var_smoothing);
    nb!(c04_gaussian_nb_f32, f32, GaussianNb, var_smoothing);
    nb!(c04_multinomial_nb_f64, f64, MultinomialNb, alpha);
    nb!(c04_multinomial_nb_f32, f32, MultinomialNb, alpha);
}

// ---------------------------------------------------------------------------------------------
// FTRL.  Documentation used (builder docs / `FtrlError`): "`alpha` must be positive and finite" (default
// 0.005), "`beta` must be positive and finite" *with documented default 0.0* (so 0 is in range for beta),
// "`l1_ratio` must be between `0.0` and `1.0`", "`l2_ratio` must be between `0.0` and `1.0`",
// "l1 ratio should be in range [0, 1]".  alpha == 0 is claimed by neither side ("positive").
// The guard tests finiteness itself: every bit pattern except -0.0 is explored.
mod ftrl {
    use super::*;
    use linfa_ftrl::{Ftrl, FtrlError};

    fn code(e: &FtrlError) -> u32 {
        match e {
            FtrlError::InvalidL1Ratio(_) => 1,
            FtrlError::InvalidL2Ratio(_) => 2,
            FtrlError::InvalidAlpha(_) => 3,
            FtrlError::InvalidBeta(_) => 4,
            _ => 99,
        }
    }

    fn body<F: SymFloat>() {
        let alpha: F = any_no_negzero();
        let beta: F = any_no_negzero();
        let l1: F = any_no_negzero();
        let l2: F = any_no_negzero();
        let (zero, one) = (F::zero(), F::one());
        let p = Ftrl::<F>::params().alpha(alpha).beta(beta).l1_ratio(l1).l2_ratio(l2);
        let l1_ok = l1 >= zero && l1 <= one;
        let l2_ok = l2 >= zero && l2 <= one;
        let acc = l1_ok && l2_ok && alpha.is_finite() && alpha > zero && beta.is_finite() && beta >= zero;
        let rej = !l1_ok || !l2_ok || !alpha.is_finite() || alpha < zero || !beta.is_finite() || beta < zero;
        let by_val = p.clone().check();
        let r = p.check_ref();
        verdict(r.is_ok(), acc, rej);
        let c_ref = match &r {
            Ok(v) => {
                assert!(same(v.alpha(), alpha) && same(v.beta(), beta) && same(v.l1_ratio(), l1) && same(v.l2_ratio(), l2), "C04: check_ref() changed a parameter");
                0
            }
            Err(e) => {
                let truthful = match e {
                    FtrlError::InvalidL1Ratio(_) => !l1_ok,
                    FtrlError::InvalidL2Ratio(_) => !l2_ok,
                    FtrlError::InvalidAlpha(_) => !(alpha.is_finite() && alpha > zero),
                    FtrlError::InvalidBeta(_) => !(beta.is_finite() && beta >= zero),
                    _ => false,
                };
                assert!(truthful, "C04: the error variant blames a parameter that is inside its range");
                code(e)
            }
        };
        let c_val = match &by_val {
            Ok(v) => {
                assert!(same(v.alpha(), alpha) && same(v.beta(), beta) && same(v.l1_ratio(), l1) && same(v.l2_ratio(), l2), "C04: check() changed a parameter");
                0
            }
            Err(e) => code(e),
        };
        agree(c_ref, c_val);
    }

    #[kani::proof]
    #[kani::unwind(9)]
    fn c04_ftrl_f64() {
        body::<f64>()
    }
    #[kani::proof]
    #[kani::unwind(9)]
    fn c04_ftrl_f32() {
        body::<f32>()
    }
}

// ---------------------------------------------------------------------------------------------
// PLS (regression / canonical / CCA builders; they are not Clone: built twice from the same values).
// Documentation used (`PlsError`): "The tolerance is should not be negative, NaN or inf", "The maximal
// number of iterations should be positive".  Every bit pattern except -0.0 is explored.
mod pls {
    use super::*;
    use linfa_pls::{Algorithm, PlsCanonical, PlsCca, PlsError, PlsRegression};

    fn code(e: &PlsError) -> u32 {
        match e {
            PlsError::InvalidTolerance(_) => 1,
            PlsError::ZeroMaxIter => 2,
            _ => 99,
        }
    }

    macro_rules! pls {
        ($name:ident, $F:ty, $model:ident) => {
            #[kani::proof]
            #[kani::unwind(5)]
            fn $name() {
                let n: usize = kani::any();
                let tol: $F = any_no_negzero();
                let max_iter: usize = kani::any();
                let scale: bool = kani::any();
                let algo = if kani::any() { Algorithm::Nipals } else { Algorithm::Svd };
                let build = || $model::<$F>::params(n).tolerance(tol).max_iterations(max_iter).scale(scale).algorithm(algo);
                let acc = tol.is_finite() && tol >= 0.0 && max_iter >= 1;
                let rej = !acc;
                let p = build();
                let by_val = build().check();
                let r = p.check_ref();
                verdict(r.is_ok(), acc, rej);
                let c_ref = match &r {
                    Ok(_) => 0,
                    Err(e) => {
                        let truthful = match e {
                            PlsError::InvalidTolerance(x) => !(tol.is_finite() && tol >= 0.0) && (x.to_bits() == (tol as f32).to_bits() || tol.is_nan()),
                            PlsError::ZeroMaxIter => max_iter == 0,
                            _ => false,
                        };
                        assert!(truthful, "C04: the error variant blames a parameter that is inside its range (or carries another value)");
                        code(e)
                    }
                };
                let c_val = match &by_val {
                    Ok(_) => 0,
                    Err(e) => code(e),
                };
                agree(c_ref, c_val);
            }
        };
    }
    pls!(c04_pls_regression_f64, f64, PlsRegression);
    pls!(c04_pls_regression_f32, f32, PlsRegression);
    pls!(c04_pls_canonical_f64, f64, PlsCanonical);
    pls!(c04_pls_cca_f64, f64, PlsCca);
}

// ---------------------------------------------------------------------------------------------
// t-SNE.  Documentation used: `approx_threshold`: "This threshold lies in range (0, inf) where a value
// of 0 disables approximation" (=> 0 is usable: >= 0); `TSneError`: "negative perplexity", "negative
// approximation threshold", "number of preliminary iterations larger than total iterations".
// perplexity == 0 is claimed by neither side; preliminary_iter > max_iter must be rejected
// (see also `c04_doc_tsne_preliminary_iter`).
mod tsne {
    use super::*;
    use linfa_tsne::{TSneError, TSneParams};

    fn code(e: &TSneError) -> u32 {
        match e {
            TSneError::NegativePerplexity => 1,
            TSneError::NegativeApproximationThreshold => 2,
            TSneError::PreliminaryIterationsTooLarge => 3,
            _ => 99,
        }
    }

    fn body<F: SymFloat>() {
        let es: usize = kani::any();
        let th: F = fin();
        let px: F = fin();
        let max_iter: usize = kani::any();
        let pre: Option<usize> = if kani::any() { Some(kani::any()) } else { None };
        let mut p = TSneParams::<F, _>::embedding_size(es).approx_threshold(th).perplexity(px).max_iter(max_iter);
        if let Some(n) = pre {
            p = p.preliminary_iter(n);
        }
        let zero = F::zero();
        let acc = px > zero && th >= zero && pre.map_or(true, |n| n <= max_iter);
        let rej = px < zero || th < zero || pre.map_or(false, |n| n > max_iter);
        let by_val = p.clone().check();
        let r = p.check_ref();
        verdict(r.is_ok(), acc, rej);
        let c_ref = match &r {
            Ok(v) => {
                assert!(
                    v.embedding_size() == es && same(v.approx_threshold(), th) && same(v.perplexity(), px) && v.max_iter() == max_iter && *v.preliminary_iter() == pre,
                    "C04: check_ref() changed a parameter"
                );
                0
            }
            Err(e) => {
                let truthful = match e {
                    TSneError::NegativePerplexity => !(px > zero),
                    TSneError::NegativeApproximationThreshold => th < zero,
                    TSneError::PreliminaryIterationsTooLarge => pre.map_or(false, |n| n > max_iter),
                    _ => false,
                };
                assert!(truthful, "C04: the error variant blames a parameter that is inside its range");
                code(e)
            }
        };
        let c_val = match &by_val {
            Ok(v) => {
                assert!(
                    v.embedding_size() == es && same(v.approx_threshold(), th) && same(v.perplexity(), px) && v.max_iter() == max_iter && *v.preliminary_iter() == pre,
                    "C04: check() changed a parameter"
                );
                0
            }
            Err(e) => code(e),
        };
        agree(c_ref, c_val);
    }

    #[kani::proof]
    #[kani::unwind(9)]
    fn c04_tsne_f64() {
        body::<f64>()
    }
    #[kani::proof]
    #[kani::unwind(9)]
    fn c04_tsne_f32() {
        body::<f32>()
    }

    /// Former DOC-vs-GUARD finding (fixed in /repo 3813ae3, kept as an ordinary check):
    /// `TSneError::PreliminaryIterationsTooLarge` ("number of preliminary iterations larger than total
    /// iterations") existed but nothing ever returned it.
    #[kani::proof]
    #[kani::unwind(9)]
    fn c04_doc_tsne_preliminary_iter() {
        let max_iter: usize = kani::any();
        let pre: usize = kani::any();
        kani::assume(pre > max_iter);
        let p = TSneParams::<f64, _>::embedding_size(2).max_iter(max_iter).preliminary_iter(pre);
        let r = p.check_ref();
        witness_reached();
        assert!(r.is_err(), "C04-DOC: preliminary_iter > max_iter (TSneError::PreliminaryIterationsTooLarge exists for it) but check_ref() returned Ok");
    }
}

// ---------------------------------------------------------------------------------------------
// FastICA.  Documentation used (`FastIcaError`): "tolerance should be positive but is {0}".
// tol > 0 accept, tol < 0 reject, 0 claimed by neither side.
mod ica {
    use super::*;
    use linfa_ica::error::FastIcaError;
    use linfa_ica::fast_ica::{FastIca, GFunc};

    fn body<F: SymFloat>() {
        let tol: F = fin();
        let max_iter: usize = kani::any();
        let nc: Option<usize> = if kani::any() { Some(kani::any()) } else { None };
        let rs: Option<usize> = if kani::any() { Some(kani::any()) } else { None };
        let mut p = FastIca::<F>::params().tol(tol).max_iter(max_iter);
        if let Some(n) = nc {
            p = p.ncomponents(n);
        }
        if let Some(n) = rs {
            p = p.random_state(n);
        }
        match kani::any::<u8>() % 3 {
            0 => p = p.gfunc(GFunc::Exp),
            1 => p = p.gfunc(GFunc::Cube),
            _ => {}
        }
        let acc = tol > F::zero();
        let rej = tol < F::zero();
        let by_val = p.clone().check();
        let r = p.check_ref();
        verdict(r.is_ok(), acc, rej);
        let c_ref = match &r {
            Ok(v) => {
                assert!(same(v.tol(), tol) && v.max_iter() == max_iter && *v.ncomponents() == nc && *v.random_state() == rs, "C04: check_ref() changed a parameter");
                0
            }
            Err(FastIcaError::InvalidTolerance(x)) => {
                assert!(x.to_bits() == tol.to_f32().unwrap().to_bits(), "C04: the error carries another value than the offending parameter");
                1
            }
            Err(_) => 99,
        };
        let c_val = match &by_val {
            Ok(v) => {
                assert!(same(v.tol(), tol) && v.max_iter() == max_iter && *v.ncomponents() == nc && *v.random_state() == rs, "C04: check() changed a parameter");
                0
            }
            Err(FastIcaError::InvalidTolerance(_)) => 1,
            Err(_) => 99,
        };
        assert!(c_ref != 99, "C04: a hyper-parameter error must be FastIcaError::InvalidTolerance");
        agree(c_ref, c_val);
        std::mem::forget(by_val);
        std::mem::forget(r);
    }

    #[kani::proof]
    #[kani::unwind(5)]
    fn c04_fastica_f64() {
        body::<f64>()
    }
    #[kani::proof]
    #[kani::unwind(5)]
    fn c04_fastica_f32() {
        body::<f32>()
    }
}

// ---------------------------------------------------------------------------------------------
// Diffusion map.  Documentation used (`ReductionError`): "Number of steps zero in diffusion map operator",
// "embedding dimension smaller {0} than feature dimension"; `new`: "`embedding_size`: the number of
// dimensions in the projection" (a count: at least 1).
// Random projection.  "Precision parameter must be in the interval (0; 1)", "Target dimension of the
// projection must be positive".
mod reduction {
    use super::*;
    use linfa_reduction::random_projection::{GaussianRandomProjection, SparseRandomProjection};
    use linfa_reduction::{DiffusionMap, ReductionError};

    fn code(e: &ReductionError) -> u32 {
        match e {
            ReductionError::StepsZero => 1,
            ReductionError::EmbeddingTooSmall(_) => 2,
            ReductionError::InvalidPrecision => 3,
            ReductionError::NonPositiveEmbeddingSize => 4,
            _ => 99,
        }
    }

    #[kani::proof]
    #[kani::unwind(5)]
    fn c04_diffusion_map() {
        let es: usize = kani::any();
        let steps: usize = kani::any();
        let p = DiffusionMap::<f64>::params(es).steps(steps);
        let acc = es >= 1 && steps >= 1;
        let rej = !acc;
        let by_val = p.clone().check();
        let r = p.check_ref();
        verdict(r.is_ok(), acc, rej);
        let c_ref = match &r {
            Ok(v) => {
                assert!(v.steps() == steps && v.embedding_size() == es, "C04: check_ref() changed a parameter");
                0
            }
            Err(e) => {
                let truthful = match e {
                    ReductionError::StepsZero => steps == 0,
                    ReductionError::EmbeddingTooSmall(n) => es == 0 && *n == es,
                    _ => false,
                };
                assert!(truthful, "C04: the error variant blames a parameter that is inside its range (or carries another value)");
                code(e)
            }
        };
        let c_val = match &by_val {
            Ok(v) => {
                assert!(v.steps() == steps && v.embedding_size() == es, "C04: check() changed a parameter");
                0
            }
            Err(e) => code(e),
        };
        agree(c_ref, c_val);
    }

    macro_rules! rp {
        ($name:ident, $model:ident) => {
            rp!($name, $model, |p| p);
        };
        ($name:ident, $model:ident, $finish:expr) => {
            #[kani::proof]
            #[kani::unwind(9)]
            fn $name() {
                let use_dim: bool = kani::any();
                let dim: usize = kani::any();
                let eps: f64 = fin();
                let touch: bool = kani::any(); // false: keep the documented default eps = 0.1
                let build = || {
                    let p = $model::<f64>::params();
                    let p = if !touch {
                        p
                    } else if use_dim {
                        p.target_dim(dim)
                    } else {
                        p.eps(eps)
                    };
                    ($finish)(p)
                };
                let acc = !touch || if use_dim { dim >= 1 } else { eps > 0.0 && eps < 1.0 };
                let rej = !acc;
                let p = build();
                let by_val = build().check();
                let r = p.check_ref();
                verdict(r.is_ok(), acc, rej);
                let (exp_dim, exp_eps) = if !touch { (None, Some(0.1)) } else if use_dim { (Some(dim), None) } else { (None, Some(eps)) };
                let c_ref = match &r {
                    Ok(v) => {
                        assert!(v.target_dim() == exp_dim && v.eps().map(f64::to_bits) == exp_eps.map(f64::to_bits), "C04: check_ref() changed a parameter");
                        0
                    }
                    Err(e) => {
                        let truthful = match e {
                            ReductionError::NonPositiveEmbeddingSize => touch && use_dim && dim == 0,
                            ReductionError::InvalidPrecision => touch && !use_dim && !(eps > 0.0 && eps < 1.0),
                            _ => false,
                        };
                        assert!(truthful, "C04: the error variant blames a parameter that is inside its range");
                        code(e)
                    }
                };
                let c_val = match &by_val {
                    Ok(v) => {
                        assert!(v.target_dim() == exp_dim && v.eps().map(f64::to_bits) == exp_eps.map(f64::to_bits), "C04: check() changed a parameter");
                        0
                    }
                    Err(e) => code(e),
                };
                agree(c_ref, c_val);
            }
        };
    }
    rp!(c04_gaussian_random_projection, GaussianRandomProjection);
    rp!(c04_sparse_random_projection, SparseRandomProjection);
    // the generator exchanged after the setters ran: `with_rng` must carry the parameters over
    rp!(c04_gaussian_random_projection_with_rng, GaussianRandomProjection, |p: linfa_reduction::random_projection::RandomProjectionParams<_, _>| p.with_rng(crate::clustering::NoRng));
    rp!(c04_sparse_random_projection_with_rng, SparseRandomProjection, |p: linfa_reduction::random_projection::RandomProjectionParams<_, _>| p.with_rng(crate::clustering::NoRng));
}

// ---------------------------------------------------------------------------------------------
// Hierarchical clustering.  Documentation used: `HierarchicalError::InvalidStoppingCondition` "The
// stopping condition {0:?} is not valid"; `num_clusters`: "the merging process will stop, when the number
// of clusters drops below this value" (a count: at least 1); `max_distance`: a distance (negative: invalid;
// 0 claimed by neither side).
mod hierarchical {
    use super::*;
    use linfa_hierarchical::{HierarchicalCluster, HierarchicalError, Method};

    fn body<F: SymFloat>() {
        let n: usize = kani::any();
        let d: F = fin();
        let mode = kani::any::<u8>() % 3;
        let mut p = HierarchicalCluster::<F>::default();
        if kani::any() {
            p = p.with_method(Method::Single);
        }
        let (acc, rej) = match mode {
            0 => (true, false), // Default: "stops when two clusters are reached"
            1 => {
                p = p.num_clusters(n);
                (n >= 1, n == 0)
            }
            _ => {
                p = p.max_distance(d);
                (d > F::zero(), d < F::zero())
            }
        };
        let by_val = p.clone().check();
        let r = p.check_ref();
        verdict(r.is_ok(), acc, rej);
        let code = |e: &HierarchicalError<F>| match e {
            HierarchicalError::InvalidStoppingCondition(_) => 1,
            _ => 99,
        };
        let c_ref = match &r {
            Ok(_) => 0,
            Err(e) => {
                assert!(matches!(e, HierarchicalError::InvalidStoppingCondition(_)), "C04: a hyper-parameter error must be InvalidStoppingCondition");
                code(e)
            }
        };
        let c_val = match &by_val {
            Ok(_) => 0,
            Err(e) => code(e),
        };
        agree(c_ref, c_val);
        if let (Ok(a), Ok(b)) = (&by_val, &r) {
            assert!(a == *b, "C04: check() and check_ref() return different parameter sets");
        }
        std::mem::forget(by_val);
        std::mem::forget(r);
    }

    #[kani::proof]
    #[kani::unwind(5)]
    fn c04_hierarchical_f64() {
        body::<f64>()
    }
    #[kani::proof]
    #[kani::unwind(5)]
    fn c04_hierarchical_f32() {
        body::<f32>()
    }
}

// ---------------------------------------------------------------------------------------------
// Count vectoriser -- numeric conditions only.  `check_ref` compiles the tokenizer regex after the numeric
// tests passed; regex compilation is out of CBMC's reach, so `regex::Regex::new` is stubbed to fail:
// "numeric tests passed" is then observable as `PreprocessingError::RegexError`.
// Documentation used: `n_gram_range`: "`min_n` should not be greater than `max_n`"; `document_frequency`:
// "`min_freq` and `max_freq` must lie in `0..=1` and `min_freq` should not be greater than `max_freq`";
// errors "n_gram boundaries cannot be zero", "document frequencies have to be between 0 and 1".
// (Frequencies above 1: see also `c04_doc_countvectorizer_frequency_above_one`.)
mod countvec {
    use super::*;
    use linfa_preprocessing::{CountVectorizer, PreprocessingError};

    pub fn regex_new_stub(_re: &str) -> Result<regex::Regex, regex::Error> {
        Err(regex::Error::CompiledTooBig(0))
    }

    fn code(e: &PreprocessingError) -> u32 {
        match e {
            PreprocessingError::RegexError(_) => 0, // numeric tests passed (stub)
            PreprocessingError::InvalidNGramBoundaries(..) => 1,
            PreprocessingError::FlippedNGramBoundaries(..) => 2,
            PreprocessingError::InvalidDocumentFrequencies(..) => 3,
            PreprocessingError::FlippedDocumentFrequencies(..) => 4,
            _ => 99,
        }
    }

    #[kani::proof]
    #[kani::unwind(5)]
    #[kani::stub(regex::Regex::new, regex_new_stub)]
    fn c04_countvectorizer_numeric() {
        let min_n: usize = kani::any();
        let max_n: usize = kani::any();
        let min_f: f32 = fin();
        let max_f: f32 = fin();
        let mf: Option<usize> = if kani::any() { Some(kani::any()) } else { None };
        let p = CountVectorizer::params().n_gram_range(min_n, max_n).document_frequency(min_f, max_f).max_features(mf);
        let ngram_ok = min_n >= 1 && max_n >= 1 && min_n <= max_n;
        let acc = ngram_ok && min_f >= 0.0 && min_f <= 1.0 && max_f >= 0.0 && max_f <= 1.0 && min_f <= max_f;
        let rej = !acc;
        let by_val = p.clone().check();
        let r = p.check_ref();
        let c_ref = match &r {
            Ok(_) => 98, // impossible with the stub
            Err(e) => code(e),
        };
        assert!(c_ref != 98 && c_ref != 99, "C04: unexpected result of check_ref() under the regex stub");
        verdict(c_ref == 0, acc, rej);
        if let Err(e) = &r {
            let truthful = match e {
                PreprocessingError::RegexError(_) => true,
                PreprocessingError::InvalidNGramBoundaries(a, b) => (min_n == 0 || max_n == 0) && *a == min_n && *b == max_n,
                PreprocessingError::FlippedNGramBoundaries(a, b) => min_n > max_n && *a == min_n && *b == max_n,
                PreprocessingError::InvalidDocumentFrequencies(a, b) => !(min_f >= 0.0 && min_f <= 1.0 && max_f >= 0.0 && max_f <= 1.0) && a.to_bits() == min_f.to_bits() && b.to_bits() == max_f.to_bits(),
                PreprocessingError::FlippedDocumentFrequencies(a, b) => max_f < min_f && a.to_bits() == min_f.to_bits() && b.to_bits() == max_f.to_bits(),
                _ => false,
            };
            assert!(truthful, "C04: the error variant blames a parameter that is inside its range (or carries other values)");
        }
        let c_val = match &by_val {
            Ok(_) => 98,
            Err(e) => code(e),
        };
        agree(c_ref, c_val);
        std::mem::forget(by_val);
        std::mem::forget(r);
        std::mem::forget(p);
    }

    /// Former DOC-vs-GUARD finding (fixed in /repo 59a4d75, kept as an ordinary check): "`min_freq` and
    /// `max_freq` must lie in `0..=1`" / "document frequencies have to be between 0 and 1" -- the guard only
    /// tested `< 0`.
    #[kani::proof]
    #[kani::unwind(5)]
    #[kani::stub(regex::Regex::new, regex_new_stub)]
    fn c04_doc_countvectorizer_frequency_above_one() {
        let min_f: f32 = fin();
        let max_f: f32 = fin();
        kani::assume(min_f >= 0.0 && min_f <= max_f && max_f > 1.0);
        let p = CountVectorizer::params().document_frequency(min_f, max_f);
        let r = p.check_ref();
        witness_reached();
        assert!(
            !matches!(r, Err(PreprocessingError::RegexError(_)) | Ok(_)),
            "C04-DOC: max document frequency > 1 lies outside the documented range 0..=1 but the numeric tests of check_ref() pass"
        );
        std::mem::forget(r);
        std::mem::forget(p);
    }
}

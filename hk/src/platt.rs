//! C03 kernel: `platt_predict` returns a probability in [0,1] that is monotone in the decision value.
use linfa::composing::platt_scaling::platt_predict;

/// range: for every finite decision value and finite A, B the result is a probability (Pr::new does not
/// panic, no NaN)
/// `exp` replaced by an arbitrary function satisfying: result is a non-negative number, at most 1 for
/// non-positive arguments and at least 1 for non-negative ones (CBMC's own float `exp` model is not
/// precise enough: it produced a counterexample that does not replay)
fn exp_axioms(x: f32) -> f32 {
    let y: f32 = kani::any();
    kani::assume(!y.is_nan() && y >= 0.0);
    if x <= 0.0 {
        kani::assume(y <= 1.0);
    }
    if x >= 0.0 {
        kani::assume(y >= 1.0);
    }
    y
}

#[kani::proof]
#[kani::unwind(2)]
#[kani::stub(f32::exp, exp_axioms)]
fn c03_platt_predict_range() {
    let x: f32 = kani::any();
    let a: f32 = kani::any();
    let b: f32 = kani::any();
    kani::assume(x.is_finite() && a.is_finite() && b.is_finite());
    let p = platt_predict(x, a, b);
    let v: f32 = *p;
    assert!(v >= 0.0 && v <= 1.0, "C03: platt_predict is a probability");
    kani::cover!(v > 0.5, "WITNESS above one half");
    kani::cover!(v < 0.5, "WITNESS below one half");
}

use crate::util::*;
use linfa::ParamGuard;
use linfa_elasticnet::{ElasticNetError, ElasticNetParamsBase};
use linfa_linear::{LinearError, Link, TweedieRegressor};
use linfa_logistic::error::Error as LogErr;
use linfa_logistic::{LogisticRegression, MultiLogisticRegression};
use ndarray::{Array1, Array2};

// ---------------------------------------------------------------------------------------------
// Elastic net (single and multi task share `ElasticNetParamsBase<F, MULTI_TASK>`).
// Documentation used: the "# Parameters" table of `ElasticNetParams`
//   penalty `[0, inf)`, l1_ratio `[0.0, 1.0]`, tolerance `(0, inf)`, max_iterations `[1, inf)`
// and its "# Errors" section: InvalidPenalty "if the penalty is negative", InvalidL1Ratio "if the L1
// ratio is not in unit range", InvalidTolerance "if the tolerance is negative".
// The two texts disagree about tolerance == 0 and only the table bounds max_iterations, so in this
// harness tolerance == 0 and max_iterations == 0 are claimed by neither side (they are isolated in
// `c04_doc_elasticnet_*` below).
fn enet_code(e: &ElasticNetError) -> u32 {
    match e {
        ElasticNetError::InvalidL1Ratio(_) => 1,
        ElasticNetError::InvalidPenalty(_) => 2,
        ElasticNetError::InvalidTolerance(_) => 3,
        _ => 99,
    }
}

fn enet_body<F: SymFloat, const MT: bool>() {
    let penalty: F = fin();
    let l1: F = fin();
    let tol: F = fin();
    let max_iter: u32 = kani::any();
    let icpt: bool = kani::any();
    let p = ElasticNetParamsBase::<F, MT>::new().penalty(penalty).l1_ratio(l1).tolerance(tol).max_iterations(max_iter).with_intercept(icpt);
    let unit = l1 >= F::zero() && l1 <= F::one();
    let acc = penalty >= F::zero() && unit && tol > F::zero() && max_iter >= 1;
    let rej = penalty < F::zero() || !unit || tol < F::zero();
    let by_val = p.clone().check();
    let r = p.check_ref();
    verdict(r.is_ok(), acc, rej);
    let c_ref = match &r {
        Ok(v) => {
            assert!(
                same(v.penalty(), penalty) && same(v.l1_ratio(), l1) && same(v.tolerance(), tol) && v.max_iterations() == max_iter && v.with_intercept() == icpt,
                "C04: check_ref() changed a parameter"
            );
            0
        }
        Err(e) => {
            // the error names (and carries) a parameter that really is out of range
            let truthful = match e {
                ElasticNetError::InvalidPenalty(x) => penalty < F::zero() && x.to_bits() == penalty.to_f32().unwrap().to_bits(),
                ElasticNetError::InvalidL1Ratio(x) => !unit && x.to_bits() == l1.to_f32().unwrap().to_bits(),
                ElasticNetError::InvalidTolerance(x) => !(tol > F::zero()) && x.to_bits() == tol.to_f32().unwrap().to_bits(),
                _ => false,
            };
            assert!(truthful, "C04: the error variant blames a parameter that is inside its range (or carries another value)");
            enet_code(e)
        }
    };
    let c_val = match &by_val {
        Ok(v) => {
            assert!(
                same(v.penalty(), penalty) && same(v.l1_ratio(), l1) && same(v.tolerance(), tol) && v.max_iterations() == max_iter && v.with_intercept() == icpt,
                "C04: check() changed a parameter"
            );
            0
        }
        Err(e) => enet_code(e),
    };
    agree(c_ref, c_val);
}

#[kani::proof]
#[kani::unwind(5)]
fn c04_elasticnet_f64() {
    enet_body::<f64, false>()
}
#[kani::proof]
#[kani::unwind(5)]
fn c04_elasticnet_f32() {
    enet_body::<f32, false>()
}
#[kani::proof]
#[kani::unwind(5)]
fn c04_multitask_elasticnet_f64() {
    enet_body::<f64, true>()
}
#[kani::proof]
#[kani::unwind(5)]
fn c04_multitask_elasticnet_f32() {
    enet_body::<f32, true>()
}

/// DOC-vs-GUARD suspect, isolated: the parameter table gives max_iterations the range `[1, inf)`.
#[kani::proof]
#[kani::unwind(5)]
fn c04_doc_elasticnet_max_iterations_zero() {
    let penalty: f64 = fin();
    let l1: f64 = fin();
    let tol: f64 = fin();
    kani::assume(penalty >= 0.0 && l1 >= 0.0 && l1 <= 1.0 && tol > 0.0);
    let p = ElasticNetParamsBase::<f64, false>::new().penalty(penalty).l1_ratio(l1).tolerance(tol).max_iterations(0);
    let r = p.check_ref();
    witness_reached();
    assert!(r.is_err(), "C04-DOC: max_iterations = 0 lies outside the documented range [1, inf) but check_ref() returned Ok");
}

/// DOC-vs-GUARD suspect, isolated: the parameter table gives tolerance the range `(0, inf)`
/// (the "# Errors" text only promises an error "if the tolerance is negative").
#[kani::proof]
#[kani::unwind(5)]
fn c04_doc_elasticnet_tolerance_zero() {
    let penalty: f64 = fin();
    let l1: f64 = fin();
    let max_iter: u32 = kani::any();
    kani::assume(penalty >= 0.0 && l1 >= 0.0 && l1 <= 1.0 && max_iter >= 1);
    let p = ElasticNetParamsBase::<f64, false>::new().penalty(penalty).l1_ratio(l1).tolerance(0.0).max_iterations(max_iter);
    let r = p.check_ref();
    witness_reached();
    assert!(r.is_err(), "C04-DOC: tolerance = 0 lies outside the documented range (0, inf) but check_ref() returned Ok");
}

// ---------------------------------------------------------------------------------------------
// Logistic regression (binary: Ix1 initial parameters; multinomial: Ix2).
// Documentation used (linfa-logistic/src/error.rs): "gradient_tolerance must be a positive, finite
// number", "alpha must be a positive, finite number", "Initial parameters must be finite"; the type
// docs say "Setting `alpha` close to zero removes regularization".  "positive" is read strictly on
// the accept side (> 0) and leniently on the reject side (< 0); exactly 0 is claimed by neither.
// The guards test finiteness themselves, so every bit pattern (NaN, inf, -0.0) is explored.
fn log_code(e: &LogErr) -> u32 {
    match e {
        LogErr::InvalidAlpha => 1,
        LogErr::InvalidGradientTolerance => 2,
        LogErr::InvalidInitialParameters => 3,
        _ => 99,
    }
}

macro_rules! logistic_harness {
    ($name:ident, $F:ty, $builder:ident, $mk:expr) => {
        #[kani::proof]
        #[kani::unwind(5)]
        fn $name() {
            let alpha: $F = anyf();
            let gtol: $F = anyf();
            let max_iter: u64 = kani::any();
            let icpt: bool = kani::any();
            let w0: $F = anyf();
            let w1: $F = anyf();
            let with_init: bool = kani::any();
            let build = || {
                let p = $builder::<$F>::default().alpha(alpha).gradient_tolerance(gtol).max_iterations(max_iter).with_intercept(icpt);
                if with_init {
                    p.initial_params(($mk)(w0, w1))
                } else {
                    p
                }
            };
            let p = build();
            let init_ok = !with_init || (w0.is_finite() && w1.is_finite());
            let acc = alpha.is_finite() && alpha > 0.0 && gtol.is_finite() && gtol > 0.0 && init_ok;
            let rej = !alpha.is_finite() || alpha < 0.0 || !gtol.is_finite() || gtol < 0.0 || !init_ok;
            let by_val = build().check();
            let r = p.check_ref();
            verdict(r.is_ok(), acc, rej);
            let c_ref = match &r {
                Ok(_) => 0,
                Err(e) => {
                    let truthful = match e {
                        LogErr::InvalidAlpha => !(alpha.is_finite() && alpha > 0.0),
                        LogErr::InvalidGradientTolerance => !(gtol.is_finite() && gtol > 0.0),
                        LogErr::InvalidInitialParameters => !init_ok,
                        _ => false,
                    };
                    assert!(truthful, "C04: the error variant blames a parameter that is inside its range");
                    log_code(e)
                }
            };
            let c_val = match &by_val {
                Ok(_) => 0,
                Err(e) => log_code(e),
            };
            agree(c_ref, c_val);
            std::mem::forget(by_val);
            std::mem::forget(r);
            std::mem::forget(p);
        }
    };
}
logistic_harness!(c04_logistic_f64, f64, LogisticRegression, |a, b| Array1::from(vec![a, b]));
logistic_harness!(c04_logistic_f32, f32, LogisticRegression, |a, b| Array1::from(vec![a, b]));
logistic_harness!(c04_multilogistic_f64, f64, MultiLogisticRegression, |a, b| Array2::from_shape_vec((1, 2), vec![a, b]).unwrap());

// ---------------------------------------------------------------------------------------------
// Tweedie GLM.  Documentation used: builder doc "`alpha` set to 0 is equivalent to unpenalized GLM",
// errors "penalty should be positive, but is {0}" and "tweedie distribution power should not be in
// (0, 1), but is {0}", type doc "NOTE: No distribution exists between 0 and 1".
// Range: alpha >= 0, power not in the open interval (0, 1).  `tol` and `max_iter` have no documented range.
fn tweedie_body<F: SymFloat>() {
    let alpha: F = fin();
    let power: F = fin();
    let tol: F = fin();
    let max_iter: usize = kani::any();
    let icpt: bool = kani::any();
    let mut p = TweedieRegressor::<F>::params().alpha(alpha).power(power).tol(tol).max_iter(max_iter).fit_intercept(icpt);
    match kani::any::<u8>() % 4 {
        0 => {}
        1 => p = p.link(Link::Identity),
        2 => p = p.link(Link::Log),
        _ => p = p.link(Link::Logit),
    }
    let in01 = power > F::zero() && power < F::one();
    let acc = alpha >= F::zero() && !in01;
    let rej = !acc;
    let code = |e: &LinearError<F>| match e {
        LinearError::InvalidPenalty(_) => 1,
        LinearError::InvalidTweediePower(_) => 2,
        _ => 99,
    };
    let by_val = p.clone().check();
    let r = p.check_ref();
    verdict(r.is_ok(), acc, rej);
    let c_ref = match &r {
        Ok(v) => {
            assert!(
                same(v.alpha(), alpha) && same(v.power(), power) && same(v.tol(), tol) && v.max_iter() == max_iter && v.fit_intercept() == icpt,
                "C04: check_ref() changed a parameter"
            );
            0
        }
        Err(e) => {
            let truthful = match e {
                LinearError::InvalidPenalty(x) => alpha < F::zero() && same(*x, alpha),
                LinearError::InvalidTweediePower(x) => in01 && same(*x, power),
                _ => false,
            };
            assert!(truthful, "C04: the error variant blames a parameter that is inside its range (or carries another value)");
            code(e)
        }
    };
    let c_val = match &by_val {
        Ok(v) => {
            assert!(
                same(v.alpha(), alpha) && same(v.power(), power) && same(v.tol(), tol) && v.max_iter() == max_iter && v.fit_intercept() == icpt,
                "C04: check() changed a parameter"
            );
            0
        }
        Err(e) => code(e),
    };
    agree(c_ref, c_val);
    std::mem::forget(by_val);
    std::mem::forget(r);
}

#[kani::proof]
#[kani::unwind(5)]
fn c04_tweedie_f64() {
    tweedie_body::<f64>()
}
#[kani::proof]
#[kani::unwind(5)]
fn c04_tweedie_f32() {
    tweedie_body::<f32>()
}

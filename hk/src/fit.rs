//! `fit` / `fit_with` / `transform` called directly on *real* unchecked builders whose first failing guard
//! test is concrete (so that CBMC's constant propagation keeps the trainer out of symbolic execution) and
//! whose remaining fields are symbolic: the call returns exactly `check_ref()`'s error, converted with the
//! crate's own `From` impl, and does not panic.  (That the trainer is never *entered*, and the valid
//! direction, are shown on the mock in blanket.rs; real training is Engine S territory.)
use crate::util::*;
use linfa::prelude::*;
use linfa::ParamGuard;
use ndarray::{array, Array1, Array2};

/// sequential stand-ins for rayon's bridges (Kani ICEs on rayon-core otherwise; never executed here)
pub fn bridge_unindexed_stub<P, C>(producer: P, consumer: C) -> C::Result
where
    P: rayon::iter::plumbing::UnindexedProducer,
    C: rayon::iter::plumbing::UnindexedConsumer<P::Item>,
{
    use rayon::iter::plumbing::Folder;
    producer.fold_with(consumer.into_folder()).complete()
}
pub fn bridge_producer_consumer_stub<P, C>(_len: usize, producer: P, consumer: C) -> C::Result
where
    P: rayon::iter::plumbing::Producer,
    C: rayon::iter::plumbing::Consumer<P::Item>,
{
    use rayon::iter::plumbing::Folder;
    consumer.into_folder().consume_iter(producer.into_iter()).complete()
}

mod kmeans {
    use super::*;
    use linfa_clustering::{IncrKMeansError, KMeans, KMeansError, KMeansParamsError};

    /// Fit: n_clusters = 0 (first test of the guard), everything else symbolic
    #[kani::proof]
    #[kani::unwind(9)]
    #[kani::stub(rayon::iter::plumbing::bridge_unindexed, super::bridge_unindexed_stub)]
    #[kani::stub(rayon::iter::plumbing::bridge_producer_consumer, super::bridge_producer_consumer_stub)]
    fn c04_fit_kmeans_nclusters() {
        let n_runs: usize = kani::any();
        let tol: f64 = fin();
        let max_iter: u64 = kani::any();
        let p = KMeans::<f64, _>::params(0).n_runs(n_runs).tolerance(tol).max_n_iterations(max_iter);
        let ds = DatasetBase::from(array![[1.0f64], [2.0]]);
        witness_reached();
        let r = p.fit(&ds);
        assert!(matches!(p.check_ref(), Err(KMeansParamsError::NClusters)), "C04: check_ref() of the builder");
        assert!(matches!(r, Err(KMeansError::InvalidParams(KMeansParamsError::NClusters))), "C04: fit() on an invalid unchecked builder did not return exactly check_ref()'s error");
        std::mem::forget(r);
        std::mem::forget(ds);
        std::mem::forget(p);
    }

    /// Fit: n_clusters, n_runs concrete and valid, tolerance = 0 (third test), max_n_iterations symbolic
    #[kani::proof]
    #[kani::unwind(9)]
    #[kani::stub(rayon::iter::plumbing::bridge_unindexed, super::bridge_unindexed_stub)]
    #[kani::stub(rayon::iter::plumbing::bridge_producer_consumer, super::bridge_producer_consumer_stub)]
    fn c04_fit_kmeans_tolerance() {
        let max_iter: u64 = kani::any();
        let p = KMeans::<f64, _>::params(2).n_runs(1).tolerance(0.0).max_n_iterations(max_iter);
        let ds = DatasetBase::from(array![[1.0f64], [2.0]]);
        witness_reached();
        let r = p.fit(&ds);
        assert!(matches!(r, Err(KMeansError::InvalidParams(KMeansParamsError::Tolerance))), "C04: fit() on an invalid unchecked builder did not return exactly check_ref()'s error");
        std::mem::forget(r);
        std::mem::forget(ds);
        std::mem::forget(p);
    }

    /// FitWith (incremental k-means): n_runs = 0 after a concrete valid n_clusters
    #[kani::proof]
    #[kani::unwind(9)]
    #[kani::stub(rayon::iter::plumbing::bridge_unindexed, super::bridge_unindexed_stub)]
    #[kani::stub(rayon::iter::plumbing::bridge_producer_consumer, super::bridge_producer_consumer_stub)]
    fn c04_fit_with_kmeans_nruns() {
        let tol: f64 = fin();
        let max_iter: u64 = kani::any();
        let p = KMeans::<f64, _>::params(2).n_runs(0).tolerance(tol).max_n_iterations(max_iter);
        let ds = DatasetBase::from(array![[1.0f64], [2.0]]);
        witness_reached();
        let r = p.fit_with(None, &ds);
        assert!(matches!(r, Err(IncrKMeansError::InvalidParams(KMeansParamsError::NRuns))), "C04: fit_with() on an invalid unchecked builder did not return exactly check_ref()'s error");
        std::mem::forget(r);
        std::mem::forget(ds);
        std::mem::forget(p);
    }
}

mod dbscan {
    use super::*;
    use linfa_clustering::{Dbscan, DbscanParamsError};

    /// Transformer through TransformGuard: min_points in {0, 1} symbolic is the first test
    #[kani::proof]
    #[kani::unwind(5)]
    #[kani::stub(rayon::iter::plumbing::bridge_unindexed, super::bridge_unindexed_stub)]
    #[kani::stub(rayon::iter::plumbing::bridge_producer_consumer, super::bridge_producer_consumer_stub)]
    fn c04_transform_dbscan_minpoints() {
        let tol: f64 = fin();
        let p = Dbscan::params::<f64>(1).tolerance(tol);
        let x: Array2<f64> = array![[1.0], [2.0]];
        witness_reached();
        let r = p.transform(&x);
        assert!(matches!(r, Err(DbscanParamsError::MinPoints)), "C04: transform() on an invalid unchecked builder did not return exactly check_ref()'s error");
        std::mem::forget(r);
        std::mem::forget(x);
    }
}

// Tried and left to the mock (measured, 14 GB / 30 min cap): the same shape of harness for
//   ElasticNetParams::fit   (penalty = -1 / l1_ratio = 1.5)  -> verified, but 18-27 min and 9-10 GB each
//   DecisionTreeParams::fit (min_impurity_decrease = 0)      -> symex did not finish in 30 min (hashbrown)
//   GaussianNbParams::fit   (var_smoothing = -1)             -> symex did not finish in 30 min (SipHash)
// CBMC explores the trainer although the failing test is concrete (`is_negative()` is not constant-folded).

//! Engine K (Kani / CBMC) proof harnesses for property C04:
//! "invalid hyper-parameters are rejected with an error before any training".
//!
//! Every oracle in this crate is transcribed from doc comments / `#[error]` texts of /repo,
//! never from the guard code.  Each oracle is a pair
//!   * `acc`  ("must accept"): every value lies inside its documented range under the *strictest*
//!     reading of the documentation, and
//!   * `rej`  ("must reject"): some value lies outside its documented range under the *most
//!     lenient* reading.
//! Where the documentation is unambiguous the two are complements and the harness proves
//! `is_ok <=> in_range`; where it is ambiguous (e.g. "positive" while 0 is the documented default)
//! the undecided values are claimed by neither side and are listed in `run_kani.py`.
#![allow(unused)]
extern crate alloc;

#[cfg(kani)]
mod util;
#[cfg(kani)]
mod clustering;
#[cfg(kani)]
mod linear;
#[cfg(kani)]
mod svm;
#[cfg(kani)]
mod misc;
#[cfg(kani)]
mod blanket;
#[cfg(kani)]
mod fit;
#[cfg(kani)]
mod platt;

use crate::util::*;
use linfa::composing::platt_scaling::{PlattError, PlattParams};
use linfa::{ParamGuard, Platt};
use linfa_svm::{Svm, SvmError, SvmParams};

// ---------------------------------------------------------------------------------------------
// Platt scaling.  Documentation used (`PlattError`): "maxiter should be larger than zero",
// "minstep should be positive, is {0}", "sigma should be positive, is {0}".
// "positive": accept side strict (> 0), reject side lenient (< 0); 0 is claimed by neither side
// (the guard accepts 0 and names its variants `MinStepNegative` / `SigmaNegative`).
fn platt_code(e: &PlattError) -> u32 {
    match e {
        PlattError::LineSearchNotConverged => 1,
        PlattError::MaxIterReached => 2,
        PlattError::MaxIterZero => 3,
        PlattError::MinStepNegative(_) => 4,
        PlattError::SigmaNegative(_) => 5,
        PlattError::LinfaError(_) => 6,
    }
}

fn platt_body<F: SymFloat>() {
    let maxiter: usize = kani::any();
    let minstep: F = fin();
    let sigma: F = fin();
    let p: PlattParams<F, ()> = Platt::params().maxiter(maxiter).minstep(minstep).sigma(sigma);
    let acc = maxiter >= 1 && minstep > F::zero() && sigma > F::zero();
    let rej = maxiter == 0 || minstep < F::zero() || sigma < F::zero();
    let by_val = p.clone().check();
    let r = p.check_ref();
    verdict(r.is_ok(), acc, rej);
    let c_ref = match &r {
        Ok(_) => 0,
        Err(e) => {
            // which parameter an error may blame; `MaxIterReached` ("platt scaling did not converge") is
            // an optimiser outcome and never a parameter error (see `c04_doc_platt_maxiter_zero_variant`)
            let truthful = match e {
                PlattError::MaxIterZero => maxiter == 0,
                PlattError::MinStepNegative(x) => !(minstep > F::zero()) && x.to_bits() == minstep.to_f32().unwrap().to_bits(),
                PlattError::SigmaNegative(x) => !(sigma > F::zero()) && x.to_bits() == sigma.to_f32().unwrap().to_bits(),
                _ => false,
            };
            assert!(truthful, "C04: the error variant blames a parameter that is inside its range (or carries another value)");
            platt_code(e)
        }
    };
    let c_val = match &by_val {
        Ok(_) => 0,
        Err(e) => platt_code(e),
    };
    agree(c_ref, c_val);
    if let (Ok(a), Ok(b)) = (&by_val, &r) {
        assert!(a == *b, "C04: check() and check_ref() return different parameter sets");
    }
}

#[kani::proof]
#[kani::unwind(5)]
fn c04_platt_f64() {
    platt_body::<f64>()
}
#[kani::proof]
#[kani::unwind(5)]
fn c04_platt_f32() {
    platt_body::<f32>()
}

/// Former DOC-vs-GUARD finding (fixed in /repo b807a0c, kept as an ordinary check): `PlattError` has the variant `MaxIterZero` ("maxiter should be
/// larger than zero") for exactly this parameter error; `MaxIterReached` means "platt scaling did
/// not converge" and is what the optimiser returns after running out of iterations.
#[kani::proof]
#[kani::unwind(5)]
fn c04_doc_platt_maxiter_zero_variant() {
    let minstep: f64 = fin();
    let sigma: f64 = fin();
    let p: PlattParams<f64, ()> = Platt::params().maxiter(0).minstep(minstep).sigma(sigma);
    let r = p.check_ref();
    witness_reached();
    assert!(r.is_err(), "C04: maxiter = 0 accepted");
    assert!(
        matches!(r, Err(PlattError::MaxIterZero)),
        "C04-DOC: maxiter = 0 must be reported as PlattError::MaxIterZero (\"maxiter should be larger than zero\"), got another variant"
    );
}

// ---------------------------------------------------------------------------------------------
// SVM.  Documentation used: `nu_weight`: "The Nu value should lie in range [0, 1]"; `SvmError`:
// "Invalid epsilon {0}", "Negative C value {0:?} (positive, negative samples", "Nu should be in unit
// range, is {0}", "platt scaling failed" (+ the Platt ranges above, the SVM guard embeds them).
//   eps    : accept > 0, reject < 0 (0 undocumented)
//   C      : accept > 0, reject < 0 ("Negative C value"; 0 undocumented)
//   nu     : accept 0 < nu <= 1, reject nu < 0 or nu > 1 (nu == 0: documented as inside "[0, 1]" but
//            see `c04_doc_svm_nu_zero`)
//   nu_svr's C: like every other C (accept > 0, reject < 0; see `c04_doc_svm_nu_svr_negative_c`)
//   c_svr's loss epsilon has no documented range: claimed by neither side.
fn svm_code(e: &SvmError) -> u32 {
    match e {
        SvmError::InvalidEps(_) => 1,
        SvmError::InvalidC(_) => 2,
        SvmError::InvalidNu(_) => 3,
        SvmError::Platt(pe) => 10 + platt_code(pe),
        SvmError::BaseCrate(_) => 4,
    }
}

fn opt<F: SymFloat>() -> Option<F> {
    if kani::any() {
        Some(fin())
    } else {
        None
    }
}

fn pair_same<F: SymFloat>(a: Option<(F, F)>, b: Option<(F, F)>) -> bool {
    match (a, b) {
        (None, None) => true,
        (Some((a0, a1)), Some((b0, b1))) => same(a0, b0) && same(a1, b1),
        _ => false,
    }
}

fn svm_body<F: SymFloat>() {
    let maxiter: usize = kani::any();
    let minstep: F = fin();
    let sigma: F = fin();
    let eps: F = fin();
    let shrinking: bool = kani::any();
    let a: F = fin();
    let b: Option<F> = opt();
    let mode = kani::any::<u8>() % 5;
    let platt: PlattParams<F, ()> = Platt::params().maxiter(maxiter).minstep(minstep).sigma(sigma);
    let mut p: SvmParams<F, F> = Svm::<F, F>::params().eps(eps).shrinking(shrinking).with_platt_params(platt.clone());
    let (zero, one) = (F::zero(), F::one());
    let nu_ok = a > zero && a <= one;
    let nu_bad = a < zero || a > one;
    let tenth = F::cast(0.1);
    let (m_acc, m_rej, exp_c, exp_nu) = match mode {
        0 => (true, false, Some((one, one)), None), // defaults: "C values of (1, 1)"
        1 => {
            let c2 = b.unwrap_or(one);
            p = p.pos_neg_weights(a, c2);
            (a > zero && c2 > zero, a < zero || c2 < zero, Some((a, c2)), None)
        }
        2 => {
            p = p.nu_weight(a);
            (nu_ok, nu_bad, None, Some((a, a)))
        }
        3 => {
            p = p.c_svr(a, b);
            (a > zero && b.map_or(true, |e| e > zero), a < zero, Some((a, b.unwrap_or(tenth))), None)
        }
        _ => {
            p = p.nu_svr(a, b);
            (nu_ok && b.map_or(true, |c| c > zero), nu_bad || b.map_or(false, |c| c < zero), None, Some((a, b.unwrap_or(one))))
        }
    };
    let p_acc = maxiter >= 1 && minstep > zero && sigma > zero;
    let p_rej = maxiter == 0 || minstep < zero || sigma < zero;
    let acc = p_acc && eps > zero && m_acc;
    let rej = p_rej || eps < zero || m_rej;

    let by_val = p.clone().check();
    let r = p.check_ref();
    verdict(r.is_ok(), acc, rej);
    let c_ref = match &r {
        Ok(v) => {
            assert!(
                pair_same(v.c(), exp_c) && pair_same(v.nu(), exp_nu) && same(v.solver_params().eps, eps) && v.solver_params().shrinking == shrinking && *v.platt_params() == platt,
                "C04: check_ref() changed a parameter"
            );
            0
        }
        Err(e) => {
            let truthful = match e {
                SvmError::Platt(_) => !p_acc,
                SvmError::InvalidEps(x) => !(eps > zero) && x.to_bits() == eps.to_f32().unwrap().to_bits(),
                SvmError::InvalidC(_) => (exp_c.is_some() && !m_acc) || (mode == 4 && b.map_or(false, |c| !(c > zero))),
                SvmError::InvalidNu(x) => exp_nu.is_some() && !nu_ok && x.to_bits() == a.to_f32().unwrap().to_bits(),
                _ => false,
            };
            assert!(truthful, "C04: the error variant blames a parameter that is inside its range (or carries another value)");
            svm_code(e)
        }
    };
    let c_val = match &by_val {
        Ok(v) => {
            assert!(
                pair_same(v.c(), exp_c) && pair_same(v.nu(), exp_nu) && same(v.solver_params().eps, eps) && v.solver_params().shrinking == shrinking && *v.platt_params() == platt,
                "C04: check() changed a parameter"
            );
            0
        }
        Err(e) => svm_code(e),
    };
    agree(c_ref, c_val);
    std::mem::forget(by_val);
    std::mem::forget(r);
    std::mem::forget(p);
}

#[kani::proof]
#[kani::unwind(5)]
fn c04_svm_f64() {
    svm_body::<f64>()
}
#[kani::proof]
#[kani::unwind(5)]
fn c04_svm_f32() {
    svm_body::<f32>()
}

/// DOC-vs-GUARD suspect, isolated: `nu_weight` documents "The Nu value should lie in range [0, 1]"
/// (closed at 0).
#[kani::proof]
#[kani::unwind(5)]
fn c04_doc_svm_nu_zero() {
    let p: SvmParams<f64, bool> = Svm::<f64, bool>::params().nu_weight(0.0);
    let r = p.check_ref();
    witness_reached();
    assert!(r.is_ok(), "C04-DOC: nu = 0 lies inside the documented range [0, 1] but check_ref() returned Err");
    std::mem::forget(r);
    std::mem::forget(p);
}

/// Former DOC-vs-GUARD finding (fixed in /repo 3947bd8, kept as an ordinary check): a negative C is an
/// error ("Negative C value") when it is set with `c_svr`/`pos_neg_weights`; the C handed to
/// `nu_svr(nu, Some(c))` was never looked at.
#[kani::proof]
#[kani::unwind(5)]
fn c04_doc_svm_nu_svr_negative_c() {
    let nu: f64 = fin();
    let c: f64 = fin();
    kani::assume(nu > 0.0 && nu <= 1.0 && c < 0.0);
    let p: SvmParams<f64, f64> = Svm::<f64, f64>::params().nu_svr(nu, Some(c));
    let r = p.check_ref();
    witness_reached();
    assert!(r.is_err(), "C04-DOC: nu_svr(nu, Some(c)) with a negative C value passes check_ref()");
    std::mem::forget(r);
    std::mem::forget(p);
}

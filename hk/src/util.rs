use linfa::Float;

/// symbolic float of the harness' scalar type, built from raw bits (every bit pattern)
pub trait SymFloat: Float {
    fn any_bits() -> Self;
    fn bits(self) -> u64;
}
impl SymFloat for f64 {
    fn any_bits() -> Self {
        kani::any::<f64>()
    }
    fn bits(self) -> u64 {
        self.to_bits()
    }
}
impl SymFloat for f32 {
    fn any_bits() -> Self {
        kani::any::<f32>()
    }
    fn bits(self) -> u64 {
        self.to_bits() as u64
    }
}

/// every finite value except -0.0 (the property speaks about finite values and does not settle -0.0)
pub fn fin<F: SymFloat>() -> F {
    let x = F::any_bits();
    kani::assume(x.is_finite());
    kani::assume(!(x == F::zero() && x.is_sign_negative()));
    x
}

/// every bit pattern (NaN, +-inf, -0.0 included) -- for guards documented to test finiteness themselves
pub fn anyf<F: SymFloat>() -> F {
    F::any_bits()
}

/// every value except NaN and -0.0
pub fn non_nan<F: SymFloat>() -> F {
    let x = F::any_bits();
    kani::assume(!x.is_nan());
    kani::assume(!(x == F::zero() && x.is_sign_negative()));
    x
}

pub fn same<F: SymFloat>(a: F, b: F) -> bool {
    a.bits() == b.bits()
}

/// The C04 verdict obligations + vacuity witnesses.  `acc`/`rej`: see crate docs.
pub fn verdict(ok: bool, acc: bool, rej: bool) {
    // (covers are compiled out for the counterexample run: Kani's concrete playback would
    // otherwise print the cover witness instead of the failing assertion's inputs)
    #[cfg(not(feature = "nocover"))]
    {
        kani::cover!(acc, "WITNESS valid: an in-range parameter set exists");
        kani::cover!(rej, "WITNESS invalid: an out-of-range parameter set exists");
    }
    assert!(!(acc && rej), "C04-ORACLE: oracle is contradictory");
    assert!(!acc || ok, "C04: every value inside its documented range, but check_ref() returned Err");
    assert!(!rej || !ok, "C04: a value outside its documented range, but check_ref() returned Ok");
}

/// check() by value must agree with check_ref(): same verdict, same error variant
pub fn agree(code_ref: u32, code_val: u32) {
    assert!(code_ref == code_val, "C04: check() and check_ref() disagree (verdict or error variant)");
}

/// vacuity witness of the single-claim (`c04_doc_*`, `c04_fit_*`) harnesses: the obligation is reached
pub fn witness_reached() {
    #[cfg(not(feature = "nocover"))]
    {
        kani::cover!(true, "WITNESS valid: the obligation is reached");
        kani::cover!(true, "WITNESS invalid: the obligation is reached");
    }
}

/// every bit pattern except -0.0
pub fn any_no_negzero<F: SymFloat>() -> F {
    let x = F::any_bits();
    kani::assume(!(x == F::zero() && x.is_sign_negative()));
    x
}

/// stub for `alloc::fmt::format` (guards that build their message with `format!`): the text of the
/// message is not part of the property, only the variant is
pub fn fmt_stub(_args: core::fmt::Arguments<'_>) -> String {
    String::new()
}

use crate::util::*;
use linfa::ParamGuard;
use linfa_clustering::*;

fn kmeans_code(e: &KMeansParamsError) -> u32 {
    match e {
        KMeansParamsError::NClusters => 1,
        KMeansParamsError::NRuns => 2,
        KMeansParamsError::Tolerance => 3,
        KMeansParamsError::MaxIterations => 4,
    }
}

/// Documentation used (k_means/errors.rs): "n_clusters cannot be 0", "n_runs cannot be 0",
/// "tolerance must be greater than 0", "max_n_iterations cannot be 0".
fn kmeans_body<F: SymFloat>() {
    let n_clusters: usize = kani::any();
    let n_runs: usize = kani::any();
    let tol: F = fin();
    let max_iter: u64 = kani::any();
    let init = match kani::any::<u8>() % 3 {
        0 => KMeansInit::Random,
        1 => KMeansInit::KMeansPlusPlus,
        _ => KMeansInit::KMeansPara,
    };
    let p = KMeans::<F, _>::params(n_clusters)
        .n_runs(n_runs)
        .tolerance(tol)
        .max_n_iterations(max_iter)
        .init_method(init);
    let acc = n_clusters >= 1 && n_runs >= 1 && tol > F::zero() && max_iter >= 1;
    let rej = !acc;

    let by_val = p.clone().check();
    let r = p.check_ref();
    verdict(r.is_ok(), acc, rej);
    let c_ref = match &r {
        Ok(v) => {
            assert!(v.n_clusters() == n_clusters && v.n_runs() == n_runs && same(v.tolerance(), tol) && v.max_n_iterations() == max_iter,
                "C04: check_ref() changed a parameter");
            0
        }
        Err(e) => {
            // the error names a parameter that really is out of range
            let truthful = match e {
                KMeansParamsError::NClusters => n_clusters == 0,
                KMeansParamsError::NRuns => n_runs == 0,
                KMeansParamsError::Tolerance => !(tol > F::zero()),
                KMeansParamsError::MaxIterations => max_iter == 0,
            };
            assert!(truthful, "C04: the error variant blames a parameter that is inside its range");
            kmeans_code(e)
        }
    };
    let c_val = match &by_val {
        Ok(v) => {
            assert!(v.n_clusters() == n_clusters && v.n_runs() == n_runs && same(v.tolerance(), tol) && v.max_n_iterations() == max_iter,
                "C04: check() changed a parameter");
            0
        }
        Err(e) => kmeans_code(e),
    };
    agree(c_ref, c_val);
    std::mem::forget(by_val);
    std::mem::forget(p);
}

#[kani::proof]
#[kani::unwind(9)]
fn c04_kmeans_f64() {
    kmeans_body::<f64>()
}

#[kani::proof]
#[kani::unwind(9)]
fn c04_kmeans_f32() {
    kmeans_body::<f32>()
}

// ---------------------------------------------------------------------------------------------
// DBSCAN.  Documentation used (dbscan/hyperparams.rs `DbscanParamsError`):
// "min_points must be greater than 1", "tolerance must be greater than 0".
fn dbscan_body<F: SymFloat>() {
    let min_points: usize = kani::any();
    let tol: F = fin();
    let p = Dbscan::params::<F>(min_points).tolerance(tol);
    let acc = min_points > 1 && tol > F::zero();
    let rej = !acc;
    let code = |e: &DbscanParamsError| match e {
        DbscanParamsError::MinPoints => 1,
        DbscanParamsError::Tolerance => 2,
    };
    let by_val = p.clone().check();
    let r = p.check_ref();
    verdict(r.is_ok(), acc, rej);
    let c_ref = match &r {
        Ok(v) => {
            assert!(v.minimum_points() == min_points && same(v.tolerance(), tol), "C04: check_ref() changed a parameter");
            0
        }
        Err(e) => {
            let truthful = match e {
                DbscanParamsError::MinPoints => min_points <= 1,
                DbscanParamsError::Tolerance => !(tol > F::zero()),
            };
            assert!(truthful, "C04: the error variant blames a parameter that is inside its range");
            code(e)
        }
    };
    let c_val = match &by_val {
        Ok(v) => {
            assert!(v.minimum_points() == min_points && same(v.tolerance(), tol), "C04: check() changed a parameter");
            0
        }
        Err(e) => code(e),
    };
    agree(c_ref, c_val);
    std::mem::forget(by_val);
    std::mem::forget(p);
}

#[kani::proof]
#[kani::unwind(5)]
fn c04_dbscan_f64() {
    dbscan_body::<f64>()
}

#[kani::proof]
#[kani::unwind(5)]
fn c04_dbscan_f32() {
    dbscan_body::<f32>()
}

// ---------------------------------------------------------------------------------------------
// OPTICS.  Documentation used (optics/hyperparams.rs messages): "`tolerance` must be greater than 0!",
// "`min_points` must be greater than 1!"; the default tolerance is +infinity, so +inf is in range
// (this harness therefore ranges over every non-NaN value, not only the finite ones).
fn optics_body<F: SymFloat>() {
    let min_points: usize = kani::any();
    let tol: F = non_nan();
    let set_tol: bool = kani::any();
    let p = if set_tol { Optics::params::<F>(min_points).tolerance(tol) } else { Optics::params::<F>(min_points) };
    let eff_tol = if set_tol { tol } else { F::infinity() };
    let acc = min_points > 1 && eff_tol > F::zero();
    let rej = !acc;
    // all errors are OpticsError::InvalidValue(String); the message length identifies the test that fired
    let code = |e: &OpticsError| match e {
        OpticsError::InvalidValue(s) => 100 + s.len() as u32,
    };
    let by_val = p.clone().check();
    let r = p.check_ref();
    verdict(r.is_ok(), acc, rej);
    let c_ref = match &r {
        Ok(v) => {
            assert!(v.minimum_points() == min_points && same(v.tolerance(), eff_tol), "C04: check_ref() changed a parameter");
            0
        }
        Err(e) => code(e),
    };
    let c_val = match &by_val {
        Ok(v) => {
            assert!(v.minimum_points() == min_points && same(v.tolerance(), eff_tol), "C04: check() changed a parameter");
            0
        }
        Err(e) => code(e),
    };
    agree(c_ref, c_val);
    std::mem::forget(by_val);
    std::mem::forget(r);
    std::mem::forget(p);
}

#[kani::proof]
#[kani::unwind(5)]
fn c04_optics_f64() {
    optics_body::<f64>()
}

#[kani::proof]
#[kani::unwind(5)]
fn c04_optics_f32() {
    optics_body::<f32>()
}

// ---------------------------------------------------------------------------------------------
// Gaussian mixture.  Documentation used (gaussian_mixture/hyperparams.rs): builder doc
// "Non-negative regularization added to the diagonal of covariance" (reg_covar >= 0; the error text
// says "must be positive" -- 0 is accepted by the doc comment and the crate's own tests use 0),
// messages "`n_clusters` cannot be 0!", "`tolerance` must be greater than 0!", "`n_runs` cannot be 0!",
// "`max_n_iterations` cannot be 0!".
fn gmm_body<F: SymFloat>() {
    let n_clusters: usize = kani::any();
    let tol: F = fin();
    let reg: F = fin();
    let n_runs: u64 = kani::any();
    let max_iter: u64 = kani::any();
    let init = if kani::any() { GmmInitMethod::KMeans } else { GmmInitMethod::Random };
    let p = GaussianMixtureModel::<F>::params(n_clusters)
        .tolerance(tol)
        .reg_covariance(reg)
        .n_runs(n_runs)
        .max_n_iterations(max_iter)
        .init_method(init);
    gmm_checks(p, n_clusters, tol, reg, n_runs, max_iter)
}

/// a generator that is never asked for a number (the parameter guard does not draw)
#[derive(Clone)]
pub struct NoRng;
impl rand::RngCore for NoRng {
    fn next_u32(&mut self) -> u32 {
        0
    }
    fn next_u64(&mut self) -> u64 {
        0
    }
    fn fill_bytes(&mut self, dest: &mut [u8]) {
        for b in dest {
            *b = 0;
        }
    }
    fn try_fill_bytes(&mut self, dest: &mut [u8]) -> Result<(), rand::Error> {
        self.fill_bytes(dest);
        Ok(())
    }
}

/// the same builder with the generator exchanged *after* every setter ran: `with_rng` must carry all values over
fn gmm_with_rng_body<F: SymFloat>() {
    let n_clusters: usize = kani::any();
    let tol: F = fin();
    let reg: F = fin();
    let n_runs: u64 = kani::any();
    let max_iter: u64 = kani::any();
    let init = if kani::any() { GmmInitMethod::KMeans } else { GmmInitMethod::Random };
    let p = GaussianMixtureModel::<F>::params(n_clusters)
        .tolerance(tol)
        .reg_covariance(reg)
        .n_runs(n_runs)
        .max_n_iterations(max_iter)
        .init_method(init)
        .with_rng(NoRng);
    gmm_checks(p, n_clusters, tol, reg, n_runs, max_iter)
}

fn gmm_checks<F: SymFloat, R: rand::Rng + Clone>(p: linfa_clustering::GmmParams<F, R>, n_clusters: usize, tol: F, reg: F, n_runs: u64, max_iter: u64) {
    let acc = n_clusters >= 1 && tol > F::zero() && reg >= F::zero() && n_runs >= 1 && max_iter >= 1;
    let rej = !acc;
    let code = |e: &GmmError| match e {
        GmmError::InvalidValue(s) => 100 + s.len() as u32,
        _ => 99,
    };
    let by_val = p.clone().check();
    let r = p.check_ref();
    verdict(r.is_ok(), acc, rej);
    let c_ref = match &r {
        Ok(v) => {
            assert!(
                v.n_clusters() == n_clusters && same(v.tolerance(), tol) && same(v.reg_covariance(), reg) && v.n_runs() == n_runs && v.max_n_iterations() == max_iter,
                "C04: check_ref() changed a parameter"
            );
            0
        }
        Err(e) => {
            assert!(matches!(e, GmmError::InvalidValue(_)), "C04: a hyper-parameter error must be GmmError::InvalidValue");
            code(e)
        }
    };
    let c_val = match &by_val {
        Ok(v) => {
            assert!(
                v.n_clusters() == n_clusters && same(v.tolerance(), tol) && same(v.reg_covariance(), reg) && v.n_runs() == n_runs && v.max_n_iterations() == max_iter,
                "C04: check() changed a parameter"
            );
            0
        }
        Err(e) => code(e),
    };
    agree(c_ref, c_val);
    std::mem::forget(by_val);
    std::mem::forget(r);
    std::mem::forget(p);
}

#[kani::proof]
#[kani::unwind(9)]
fn c04_gmm_f64() {
    gmm_body::<f64>()
}

#[kani::proof]
#[kani::unwind(9)]
fn c04_gmm_f32() {
    gmm_body::<f32>()
}

#[kani::proof]
#[kani::unwind(9)]
fn c04_gmm_with_rng_f64() {
    gmm_with_rng_body::<f64>()
}

#[kani::proof]
#[kani::unwind(9)]
fn c04_gmm_with_rng_f32() {
    gmm_with_rng_body::<f32>()
}

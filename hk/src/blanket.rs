//! The blanket `Fit` / `FitWith` / `Transformer` impls of /repo/src/param_guard.rs, exercised on a mock
//! `ParamGuard` whose checked form records that it was entered ("trained"):
//!   invalid  => the call returns exactly `check_ref()`'s error (converted by `From`) and the trainer is never entered;
//!   valid    => the call enters the trainer exactly once and returns what the checked form returns
//!               (success as well as a training error).
use crate::util::*;
use linfa::dataset::{DatasetBase, Records};
use linfa::param_guard::TransformGuard;
use linfa::traits::{Fit, FitWith, Transformer};
use linfa::ParamGuard;
use std::cell::Cell;
use std::fmt;

#[derive(Debug, Clone, Copy, PartialEq, Eq)]
pub enum MockParamError {
    TooSmall(u32),
    TooLarge(u32),
}
impl fmt::Display for MockParamError {
    fn fmt(&self, _f: &mut fmt::Formatter<'_>) -> fmt::Result {
        Ok(())
    }
}
impl std::error::Error for MockParamError {}

#[derive(Debug)]
pub enum MockFitError {
    Params(MockParamError),
    Base(linfa::Error),
    Training(u32),
}
impl fmt::Display for MockFitError {
    fn fmt(&self, _f: &mut fmt::Formatter<'_>) -> fmt::Result {
        Ok(())
    }
}
impl std::error::Error for MockFitError {}
impl From<MockParamError> for MockFitError {
    fn from(e: MockParamError) -> Self {
        MockFitError::Params(e)
    }
}
impl From<linfa::Error> for MockFitError {
    fn from(e: linfa::Error) -> Self {
        MockFitError::Base(e)
    }
}

/// records that are not an ndarray (keeps the harness free of array drop glue)
pub struct Rec {
    tag: u32,
}
impl Records for Rec {
    type Elem = u32;
    fn nsamples(&self) -> usize {
        1
    }
    fn nfeatures(&self) -> usize {
        1
    }
}

pub struct MockValid {
    level: u32,
    fail_training: bool,
    entered: Cell<u32>,
}
pub struct Mock(MockValid);

const LO: u32 = 3;
const HI: u32 = 10;

impl ParamGuard for Mock {
    type Checked = MockValid;
    type Error = MockParamError;
    fn check_ref(&self) -> Result<&MockValid, MockParamError> {
        if self.0.level < LO {
            Err(MockParamError::TooSmall(self.0.level))
        } else if self.0.level > HI {
            Err(MockParamError::TooLarge(self.0.level))
        } else {
            Ok(&self.0)
        }
    }
    fn check(self) -> Result<MockValid, MockParamError> {
        self.check_ref()?;
        Ok(self.0)
    }
}
impl TransformGuard for Mock {}

#[derive(Debug, PartialEq, Eq)]
pub struct Model(u32);

impl Fit<Rec, u32, MockFitError> for MockValid {
    type Object = Model;
    fn fit(&self, ds: &DatasetBase<Rec, u32>) -> Result<Model, MockFitError> {
        self.entered.set(self.entered.get() + 1);
        if self.fail_training {
            Err(MockFitError::Training(ds.records.tag))
        } else {
            Ok(Model(self.level.wrapping_mul(31).wrapping_add(ds.records.tag).wrapping_add(*ds.targets())))
        }
    }
}

impl<'a> FitWith<'a, Rec, u32, MockFitError> for MockValid {
    type ObjectIn = Option<Model>;
    type ObjectOut = Model;
    fn fit_with(&self, model: Option<Model>, ds: &'a DatasetBase<Rec, u32>) -> Result<Model, MockFitError> {
        self.entered.set(self.entered.get() + 1);
        if self.fail_training {
            Err(MockFitError::Training(ds.records.tag))
        } else {
            let base = model.map_or(7, |m| m.0);
            Ok(Model(base.wrapping_mul(17).wrapping_add(self.level).wrapping_add(ds.records.tag)))
        }
    }
}

impl Transformer<Rec, Model> for MockValid {
    fn transform(&self, x: Rec) -> Model {
        self.entered.set(self.entered.get() + 1);
        Model(self.level ^ x.tag)
    }
}

fn mock() -> (Mock, u32, bool) {
    let level: u32 = kani::any();
    let fail_training: bool = kani::any();
    (Mock(MockValid { level, fail_training, entered: Cell::new(0) }), level, fail_training)
}

fn expect_param_error(level: u32) -> MockParamError {
    if level < LO {
        MockParamError::TooSmall(level)
    } else {
        MockParamError::TooLarge(level)
    }
}

fn witness(valid: bool) {
    #[cfg(not(feature = "nocover"))]
    {
        kani::cover!(valid, "WITNESS valid: an in-range parameter set exists");
        kani::cover!(!valid, "WITNESS invalid: an out-of-range parameter set exists");
    }
}

#[kani::proof]
#[kani::unwind(5)]
fn c04_blanket_fit() {
    let (m, level, fail) = mock();
    let tag: u32 = kani::any();
    let y: u32 = kani::any();
    let ds = DatasetBase::new(Rec { tag }, y);
    let valid = level >= LO && level <= HI;
    witness(valid);
    // the unchecked builder has no `fit` of its own: this resolves to the blanket impl of param_guard.rs
    let r: Result<Model, MockFitError> = m.fit(&ds);
    let entered = m.0.entered.get();
    if !valid {
        assert!(entered == 0, "C04: fit() on an invalid unchecked builder entered the trainer");
        let same_err = match (&r, m.check_ref()) {
            (Err(MockFitError::Params(e)), Err(c)) => *e == c && c == expect_param_error(level),
            _ => false,
        };
        assert!(same_err, "C04: fit() on an invalid unchecked builder did not return exactly check_ref()'s error");
    } else {
        assert!(entered == 1, "C04: fit() on a valid unchecked builder must enter the trainer exactly once");
        let direct = m.check_ref().unwrap().fit(&ds);
        let same = match (&r, &direct) {
            (Ok(a), Ok(b)) => a == b && !fail,
            (Err(MockFitError::Training(a)), Err(MockFitError::Training(b))) => a == b && fail && *a == tag,
            _ => false,
        };
        assert!(same, "C04: fit() on a valid unchecked builder differs from fit() on its checked form");
    }
    std::mem::forget(ds);
}

#[kani::proof]
#[kani::unwind(5)]
fn c04_blanket_fit_with() {
    let (m, level, fail) = mock();
    let tag: u32 = kani::any();
    let y: u32 = kani::any();
    let prev: Option<u32> = if kani::any() { Some(kani::any()) } else { None };
    let ds = DatasetBase::new(Rec { tag }, y);
    let valid = level >= LO && level <= HI;
    witness(valid);
    let r: Result<Model, MockFitError> = m.fit_with(prev.map(Model), &ds);
    let entered = m.0.entered.get();
    if !valid {
        assert!(entered == 0, "C04: fit_with() on an invalid unchecked builder entered the trainer");
        let same_err = match (&r, m.check_ref()) {
            (Err(MockFitError::Params(e)), Err(c)) => *e == c && c == expect_param_error(level),
            _ => false,
        };
        assert!(same_err, "C04: fit_with() on an invalid unchecked builder did not return exactly check_ref()'s error");
    } else {
        assert!(entered == 1, "C04: fit_with() on a valid unchecked builder must enter the trainer exactly once");
        let direct = m.check_ref().unwrap().fit_with(prev.map(Model), &ds);
        let same = match (&r, &direct) {
            (Ok(a), Ok(b)) => a == b && !fail,
            (Err(MockFitError::Training(a)), Err(MockFitError::Training(b))) => a == b && fail,
            _ => false,
        };
        assert!(same, "C04: fit_with() on a valid unchecked builder differs from fit_with() on its checked form");
    }
    std::mem::forget(ds);
}

#[kani::proof]
#[kani::unwind(5)]
fn c04_blanket_transform() {
    let (m, level, _fail) = mock();
    let tag: u32 = kani::any();
    let valid = level >= LO && level <= HI;
    witness(valid);
    let r: Result<Model, MockParamError> = m.transform(Rec { tag });
    let entered = m.0.entered.get();
    if !valid {
        assert!(entered == 0, "C04: transform() on an invalid unchecked builder ran the transformation");
        let same_err = match (&r, m.check_ref()) {
            (Err(e), Err(c)) => *e == c && c == expect_param_error(level),
            _ => false,
        };
        assert!(same_err, "C04: transform() on an invalid unchecked builder did not return exactly check_ref()'s error");
    } else {
        assert!(entered == 1, "C04: transform() on a valid unchecked builder must run the transformation exactly once");
        let direct = m.check_ref().unwrap().transform(Rec { tag });
        assert!(r == Ok(direct), "C04: transform() on a valid unchecked builder differs from transform() on its checked form");
    }
}

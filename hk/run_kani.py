#!/usr/bin/env python3
"""Engine K driver: Kani 0.68 / CBMC proof harnesses of /verif/hk (property C04).

  run_kani.py run [C04] [--tier quick|thorough] [--only SUBSTR] [--jobs N] [--suspects]   verify the registered harnesses
  run_kani.py replay <file>         re-execute a recorded counterexample natively (cargo kani playback: real, un-stubbed code)
  run_kani.py list                  print the harness table

`run(prop, tier, seed) -> dict` is what /verif/check.py consumes through registry.EXTRA:
  violations   ready-to-print lines `VIOLATION property=C04 replay=<path>` (only property assertions that failed under
               CBMC *and* whose concrete counterexample fails again natively under `cargo kani playback`)
  inconclusive strings (timeout, memory cap, ICE/build failure, unwinding-assertion failure, unsupported construct,
               unsatisfied vacuity witness, counterexample that does not replay)
  coverage     dict for the evidence file (one record per harness), states/transitions/obligations/discharged, functions.
Every harness is rebuilt from /repo's working tree by `cargo kani` (path dependencies).  A timeout / OOM is "undecided",
never a pass.  Exit code of the CLI: 0 verified, 1 violation, 2 inconclusive.
"""
import json, os, re, shutil, subprocess, sys, threading, time

HK = os.path.dirname(os.path.abspath(__file__))
ROOT = os.path.dirname(HK)
TARGET = os.environ.get("HK_TARGET_DIR", os.path.join(ROOT, "target-kani"))
JOBS = int(os.environ.get("HK_JOBS", "4"))
MEM_KB = int(os.environ.get("HK_MEM_KB", "14000000"))
TIMEOUT = int(os.environ.get("HK_TIMEOUT", "900"))
FLAGS = ["--no-memory-safety-checks", "--no-overflow-checks", "-Z", "unstable-options", "--no-assertion-reach-checks", "-Z", "stubbing"]
CBMC_ARGS = ["--cbmc-args", "--unwindset", "memcmp.0:18"]

G = "check_ref/check of "
BLANKET = ["linfa::param_guard::<impl Fit for P: ParamGuard>::fit", "linfa::param_guard::<impl FitWith for P: ParamGuard>::fit_with", "linfa::param_guard::<impl Transformer for P: TransformGuard>::transform"]


def H(name, builder, ranges, functions, unwind=5, tiers=("quick", "thorough"), role="main", stubs=(), assumes=(), finding=None):
    return dict(name=name, builder=builder, ranges=ranges, functions=list(functions), unwind=unwind, tiers=tiers, role=role, stubs=list(stubs), assumes=list(assumes), finding=finding)


FIN = "all float fields: every finite bit pattern except -0.0 (the property speaks of finite values; guards use is_negative())"
ANYBITS = "all float fields: every bit pattern (NaN, +-inf, -0.0 included; the documentation itself demands finiteness)"


def both(mod, stem, builder, ranges, fn, unwind=5, stubs=(), assumes=(FIN,), f32=True):
    """f64 instantiation in both tiers, f32 instantiation in the thorough tier"""
    out = [H("%s::%s_f64" % (mod, stem), builder + "<f64>", ranges, fn, unwind, stubs=stubs, assumes=assumes)]
    if f32:
        out.append(H("%s::%s_f32" % (mod, stem), builder + "<f32>", ranges, fn, unwind, tiers=("thorough",), stubs=stubs, assumes=assumes))
    return out


HARNESSES = []
HARNESSES += both("clustering", "c04_kmeans", "KMeansParams", "n_clusters>=1, n_runs>=1, tolerance>0, max_n_iterations>=1; init in {Random,KMeansPlusPlus,KMeansPara}",
                  ["linfa_clustering::KMeansParams::{new,n_runs,tolerance,max_n_iterations,init_method,check_ref,check}", "linfa_clustering::KMeans::params"], 9)
HARNESSES += both("clustering", "c04_dbscan", "DbscanParams", "min_points>1, tolerance>0",
                  ["linfa_clustering::DbscanParams::{new,tolerance,check_ref,check}", "linfa_clustering::Dbscan::params"])
HARNESSES += both("clustering", "c04_optics", "OpticsParams", "min_points>1, tolerance>0 (+inf allowed: it is the default)",
                  ["linfa_clustering::OpticsParams::{new,tolerance,check_ref,check}", "linfa_clustering::Optics::params"],
                  assumes=("tolerance: every non-NaN value except -0.0 (+inf is the documented default)",))
HARNESSES += both("clustering", "c04_gmm_with_rng", "GmmParams (generator exchanged by with_rng after the setters)", "as c04_gmm",
                  ["linfa_clustering::GmmParams::{with_rng,check_ref,check}"], 9)
HARNESSES += both("clustering", "c04_gmm", "GmmParams", "n_clusters>=1, tolerance>0, reg_covar>=0 (doc: 'Non-negative'), n_runs>=1, max_n_iterations>=1; init in {KMeans,Random}",
                  ["linfa_clustering::GmmParams::{new,tolerance,reg_covariance,n_runs,max_n_iterations,init_method,check_ref,check}", "linfa_clustering::GaussianMixtureModel::params"], 9)

HARNESSES += both("linear", "c04_elasticnet", "ElasticNetParams", "penalty>=0, 0<=l1_ratio<=1, tolerance: >0 accepted / <0 rejected (0 undecided: table '(0, inf)' vs Errors text 'negative'), max_iterations: >=1 accepted (0 undecided: only the table bounds it)",
                  ["linfa_elasticnet::ElasticNetParamsBase<F,false>::{new,penalty,l1_ratio,tolerance,max_iterations,with_intercept,check_ref,check}"])
HARNESSES += both("linear", "c04_multitask_elasticnet", "MultiTaskElasticNetParams", "same as ElasticNetParams",
                  ["linfa_elasticnet::ElasticNetParamsBase<F,true>::{new,penalty,l1_ratio,tolerance,max_iterations,with_intercept,check_ref,check}"])
HARNESSES += both("linear", "c04_logistic", "LogisticRegressionParams<Ix1>", "alpha finite and >0 accepted / non-finite or <0 rejected (0 undecided: 'positive'), gradient_tolerance likewise, initial_params (None | 2 symbolic entries) all finite",
                  ["linfa_logistic::LogisticRegressionParams<F,Ix1>::{new,alpha,gradient_tolerance,max_iterations,with_intercept,initial_params,check_ref,check}"], assumes=(ANYBITS,))
HARNESSES.append(H("linear::c04_multilogistic_f64", "LogisticRegressionParams<Ix2><f64>", "same as binary logistic; initial_params 1x2", tiers=("thorough",), functions=
                   ["linfa_logistic::LogisticRegressionParams<F,Ix2>::{new,alpha,gradient_tolerance,max_iterations,with_intercept,initial_params,check_ref,check}"], assumes=(ANYBITS,)))
HARNESSES += both("linear", "c04_tweedie", "TweedieRegressorParams", "alpha>=0, power not in the open interval (0,1); link in {unset,Identity,Log,Logit}; tol/max_iter undocumented (free)",
                  ["linfa_linear::TweedieRegressorParams::{new,alpha,power,tol,max_iter,fit_intercept,link,check_ref,check}", "linfa_linear::TweedieRegressor::params"])
HARNESSES += both("svm", "c04_platt", "PlattParams", "maxiter>=1, minstep: >0 accepted / <0 rejected (0 undecided: 'positive'), sigma likewise",
                  ["linfa::composing::platt_scaling::PlattParams::{default,maxiter,minstep,sigma,check_ref,check}", "linfa::Platt::params"])
HARNESSES += both("svm", "c04_svm", "SvmParams", "embedded Platt ranges; eps >0 accepted / <0 rejected; C (pos_neg_weights, c_svr) >0 accepted / <0 rejected; nu (nu_weight, nu_svr) 0<nu<=1 accepted / <0 or >1 rejected; nu_svr C like every C; c_svr loss eps undocumented (free); 5 ways of setting C/nu",
                  ["linfa_svm::SvmParams::{new,eps,shrinking,with_platt_params,pos_neg_weights,nu_weight,c_svr,nu_svr,check_ref,check}", "linfa::composing::platt_scaling::PlattParams::check_ref"])
HARNESSES += both("misc::trees", "c04_trees", "DecisionTreeParams", "min_impurity_decrease: >=F::EPSILON accepted / <=0 rejected ((0,eps) undecided); max_depth, min_weight_split, min_weight_leaf, split_quality undocumented (free)",
                  ["linfa_trees::DecisionTreeParams::{new,split_quality,max_depth,min_weight_split,min_weight_leaf,min_impurity_decrease,check_ref,check}"], stubs=("alloc::fmt::format -> empty String (message text is not part of the property)",))
HARNESSES += both("misc::bayes", "c04_gaussian_nb", "GaussianNbParams", "var_smoothing in [0, inf)", ["linfa_bayes::GaussianNbParams::{new,var_smoothing,check_ref,check}"])
HARNESSES += both("misc::bayes", "c04_multinomial_nb", "MultinomialNbParams", "alpha in [0, inf)", ["linfa_bayes::MultinomialNbParams::{new,alpha,check_ref,check}"])
HARNESSES += both("misc::ftrl", "c04_ftrl", "FtrlParams", "l1_ratio, l2_ratio in [0,1]; alpha finite and >0 accepted / non-finite or <0 rejected (0 undecided); beta finite and >=0 (0 is the documented default)",
                  ["linfa_ftrl::FtrlParams::{default_with_rng,alpha,beta,l1_ratio,l2_ratio,check_ref,check}", "linfa_ftrl::Ftrl::params"], 9, assumes=("all float fields: every bit pattern except -0.0",))
HARNESSES += both("misc::pls", "c04_pls_regression", "PlsRegressionParams", "tolerance finite and >=0, max_iterations>=1", ["linfa_pls::PlsRegressionParams::{tolerance,max_iterations,scale,algorithm,check_ref,check}", "linfa_pls::PlsRegression::params"], assumes=("tolerance: every bit pattern except -0.0",))
HARNESSES.append(H("misc::pls::c04_pls_canonical_f64", "PlsCanonicalParams<f64>", "tolerance finite and >=0, max_iterations>=1", ["linfa_pls::PlsCanonicalParams::{tolerance,max_iterations,scale,algorithm,check_ref,check}"], assumes=("tolerance: every bit pattern except -0.0",)))
HARNESSES.append(H("misc::pls::c04_pls_cca_f64", "PlsCcaParams<f64>", "tolerance finite and >=0, max_iterations>=1", ["linfa_pls::PlsCcaParams::{tolerance,max_iterations,scale,algorithm,check_ref,check}"], assumes=("tolerance: every bit pattern except -0.0",)))
HARNESSES += both("misc::tsne", "c04_tsne", "TSneParams", "perplexity >0 accepted / <0 rejected (0 undecided), approx_threshold>=0 ('a value of 0 disables approximation'), preliminary_iter<=max_iter (larger: rejected)",
                  ["linfa_tsne::TSneParams::{embedding_size,approx_threshold,perplexity,max_iter,preliminary_iter,check_ref,check}"], 9)
HARNESSES += both("misc::ica", "c04_fastica", "FastIcaParams", "tol >0 accepted / <0 rejected (0 undecided: 'positive'); ncomponents, max_iter, random_state, gfunc free",
                  ["linfa_ica::hyperparams::FastIcaParams::{new,tol,max_iter,ncomponents,random_state,gfunc,check_ref,check}"])
HARNESSES.append(H("misc::reduction::c04_diffusion_map", "DiffusionMapParams", "steps>=1, embedding_size>=1", ["linfa_reduction::DiffusionMapParams::{new,steps,check_ref,check}"], assumes=()))
HARNESSES.append(H("misc::reduction::c04_gaussian_random_projection", "RandomProjectionParams<Gaussian>", "target_dim>=1 | eps in the open interval (0,1) | default eps=0.1", ["linfa_reduction::random_projection::RandomProjectionParams<Gaussian,_>::{target_dim,eps,check_ref,check}"], 9))
HARNESSES.append(H("misc::reduction::c04_gaussian_random_projection_with_rng", "RandomProjectionParams<Gaussian> (generator exchanged by with_rng after the setters)", "as c04_gaussian_random_projection", ["linfa_reduction::random_projection::RandomProjectionParams::{with_rng,check_ref,check}"], 9))
HARNESSES.append(H("misc::reduction::c04_sparse_random_projection_with_rng", "RandomProjectionParams<Sparse> (generator exchanged by with_rng after the setters)", "as c04_sparse_random_projection", ["linfa_reduction::random_projection::RandomProjectionParams::{with_rng,check_ref,check}"], 9, tiers=("thorough",)))
HARNESSES.append(H("misc::reduction::c04_sparse_random_projection", "RandomProjectionParams<Sparse>", "target_dim>=1 | eps in the open interval (0,1) | default eps=0.1", ["linfa_reduction::random_projection::RandomProjectionParams<Sparse,_>::{target_dim,eps,check_ref,check}"], 9))
HARNESSES += both("misc::hierarchical", "c04_hierarchical", "HierarchicalCluster", "num_clusters>=1 | max_distance >0 accepted / <0 rejected (0 undecided) | default",
                  ["linfa_hierarchical::HierarchicalCluster::{default,with_method,num_clusters,max_distance,check_ref,check}"])
HARNESSES.append(H("misc::countvec::c04_countvectorizer_numeric", "CountVectorizerParams (numeric tests only)", "n_gram min>=1, max>=1, min<=max; document frequencies: 0<=min<=max<=1",
                   ["linfa_preprocessing::CountVectorizerParams::{default,n_gram_range,document_frequency,max_features,check_ref,check}"],
                   stubs=("regex::Regex::new -> Err(CompiledTooBig) (regex compilation is out of CBMC's reach; 'numeric tests passed' is observed as RegexError)",)))

# --- blanket impls of src/param_guard.rs on a mock ParamGuard -----------------------------------------
HARNESSES.append(H("blanket::c04_blanket_fit", "mock ParamGuard (Fit)", "mock range lo<=level<=hi", BLANKET[:1], assumes=()))
HARNESSES.append(H("blanket::c04_blanket_fit_with", "mock ParamGuard (FitWith)", "mock range", BLANKET[1:2], assumes=()))
HARNESSES.append(H("blanket::c04_blanket_transform", "mock ParamGuard (Transformer via TransformGuard)", "mock range", BLANKET[2:], assumes=()))

# --- documentation-vs-guard suspects, each isolated; run only when known_findings.json has an entry ------
def D(name, builder, claim, fn, unwind=5, stubs=(), role="doc"):
    return H(name, builder, claim, fn, unwind, role=role, stubs=stubs, assumes=(FIN,), finding=name.split("::")[-1])

HARNESSES.append(D("linear::c04_doc_elasticnet_max_iterations_zero", "ElasticNetParams<f64>", "parameter table: max_iterations in [1, inf); guard never looks at it", ["linfa_elasticnet::ElasticNetParamsBase::check_ref"]))
HARNESSES.append(D("linear::c04_doc_elasticnet_tolerance_zero", "ElasticNetParams<f64>", "UNCLAIMED (integrator decision: the doc contradicts itself) parameter table: tolerance in (0, inf); Errors text: 'if the tolerance is negative'; guard rejects only negative values", ["linfa_elasticnet::ElasticNetParamsBase::check_ref"], role="unclaimed"))
HARNESSES.append(D("svm::c04_doc_platt_maxiter_zero_variant", "PlattParams<f64>", "maxiter = 0 is reported as MaxIterReached ('did not converge') although MaxIterZero ('maxiter should be larger than zero') exists", ["linfa::composing::platt_scaling::PlattParams::check_ref"]))
HARNESSES.append(D("svm::c04_doc_svm_nu_zero", "SvmParams<f64,bool>", "nu_weight doc: 'should lie in range [0, 1]'; guard rejects nu = 0", ["linfa_svm::SvmParams::check_ref"]))
HARNESSES.append(D("svm::c04_doc_svm_nu_svr_negative_c", "SvmParams<f64,f64>", "'Negative C value' is an error for c_svr/pos_neg_weights but nu_svr's C is never checked", ["linfa_svm::SvmParams::check_ref"]))
HARNESSES.append(D("misc::trees::c04_doc_trees_tiny_positive", "DecisionTreeParams<f64>", "UNCLAIMED (integrator decision) message: 'should be greater than zero'; guard rejects 0 < x < F::EPSILON", ["linfa_trees::DecisionTreeParams::check_ref"], stubs=("alloc::fmt::format",), role="unclaimed"))
HARNESSES.append(D("misc::tsne::c04_doc_tsne_preliminary_iter", "TSneParams<f64>", "TSneError::PreliminaryIterationsTooLarge exists but is never returned", ["linfa_tsne::TSneParams::check_ref"], 9))
HARNESSES.append(D("misc::countvec::c04_doc_countvectorizer_frequency_above_one", "CountVectorizerParams", "document_frequency doc: 'must lie in 0..=1'; guard only tests < 0", ["linfa_preprocessing::CountVectorizerParams::check_ref"], stubs=("regex::Regex::new",)))

# --- real builders: fit / fit_with / transform on an invalid unchecked builder (thorough tier) --------
RAYON = ("rayon::iter::plumbing::bridge_unindexed -> sequential fold (never executed: the call returns at check_ref()?)", "rayon::iter::plumbing::bridge_producer_consumer -> sequential fold (never executed)")
def FT(name, builder, claim, fn, unwind=5, stubs=()):
    return H(name, builder, claim, fn + BLANKET[:1], unwind, tiers=("thorough",), role="fit", stubs=stubs, assumes=("first failing guard test concrete, remaining fields symbolic; dataset 2x1 concrete",))

HARNESSES.append(FT("fit::kmeans::c04_fit_kmeans_nclusters", "KMeansParams<f64>::fit", "n_clusters=0 => Err(KMeansError::InvalidParams(NClusters))", ["linfa_clustering::KMeansParams::check_ref", "<KMeansError as From<KMeansParamsError>>::from"], 9, RAYON))
HARNESSES.append(FT("fit::kmeans::c04_fit_kmeans_tolerance", "KMeansParams<f64>::fit", "tolerance=0 => Err(InvalidParams(Tolerance))", ["linfa_clustering::KMeansParams::check_ref"], 9, RAYON))
HARNESSES.append(FT("fit::kmeans::c04_fit_with_kmeans_nruns", "KMeansParams<f64>::fit_with", "n_runs=0 => Err(IncrKMeansError::InvalidParams(NRuns))", ["linfa_clustering::KMeansParams::check_ref", "<IncrKMeansError as From<KMeansParamsError>>::from"], 9, RAYON))
HARNESSES.append(FT("fit::dbscan::c04_transform_dbscan_minpoints", "DbscanParams<f64>::transform", "min_points=1 => Err(DbscanParamsError::MinPoints)", ["linfa_clustering::DbscanParams::check_ref"], 5, RAYON))


# =====================================================================================================
# engine
# =====================================================================================================
# relative cost (seconds on an idle machine), only used to start the long harnesses first
COST = {"c04_fit_kmeans_nclusters": 130, "c04_fit_kmeans_tolerance": 130, "c04_fit_with_kmeans_nruns": 130, "c04_transform_dbscan_minpoints": 90,
        "c04_countvectorizer_numeric": 40, "c04_multilogistic": 35, "c04_svm": 30, "c04_logistic": 25, "c04_gmm": 17, "c04_trees": 13, "c04_ftrl": 13,
        "c04_gaussian_random_projection": 12, "c04_sparse_random_projection": 12, "c04_blanket_fit": 11, "c04_blanket_fit_with": 12, "c04_kmeans": 10, "c04_tsne": 10}


# ---- kernels of other properties that are concretely typed (f32) and therefore Kani's, not Engine S's
_h = H("platt::c03_platt_predict_range", "platt_predict<f32>", "for every finite decision value and finite A, B the result is a probability in [0,1] (Pr::new does not panic, no NaN)",
       ["linfa::composing::platt_scaling::platt_predict", "linfa::dataset::Pr::new"], 2,
       stubs=("f32::exp",), assumes=("f32::exp replaced by an arbitrary function with: result >= 0 and not NaN, <= 1 for arguments <= 0, >= 1 for arguments >= 0 (CBMC's own exp model produced a counterexample that does not replay)", "x, A, B finite"))
_h["prop"] = "C03"
HARNESSES.append(_h)


def kenv():
    e = dict(os.environ)
    e["CARGO_NET_OFFLINE"] = "true"
    for k in ("RUSTFLAGS", "CARGO_ENCODED_RUSTFLAGS", "CARGO_TARGET_DIR", "RUSTC_WRAPPER"):
        e.pop(k, None)
    return e


def sh(cmd, cwd, timeout, mem=True, env=None):
    """run under ulimit -v / timeout(1); returns (rc, output, wall_s, maxrss_kb)"""
    import shlex
    inner = " ".join(shlex.quote(c) for c in cmd)
    lim = "ulimit -v %d; " % MEM_KB if mem else ""
    script = "%sexec /usr/bin/time -f 'HK_RUSAGE %%e %%M' timeout -k 10 %d %s" % (lim, timeout, inner)
    t0 = time.time()
    try:
        r = subprocess.run(["bash", "-c", script], cwd=cwd, env=env or kenv(), stdout=subprocess.PIPE, stderr=subprocess.STDOUT, text=True, errors="replace", timeout=timeout + 60)
        rc, out = r.returncode, r.stdout
    except subprocess.TimeoutExpired as ex:
        rc, out = 124, (ex.stdout or b"").decode("utf8", "replace") if isinstance(ex.stdout, bytes) else (ex.stdout or "")
    wall = time.time() - t0
    m = re.search(r"HK_RUSAGE ([0-9.]+) (\d+)", out)
    rss = int(m.group(2)) if m else 0
    return rc, out, wall, rss


def worker_dir(i):
    return os.path.join(TARGET, "w%d" % i)


def ensure_lock():
    """Cargo.lock next to the crate = /repo's lock (same dependency versions as the library's own build)"""
    dst, src = os.path.join(HK, "Cargo.lock"), "/repo/Cargo.lock"
    if not os.path.exists(dst):
        shutil.copy(src, dst)


def build(jobs):
    """compile every dependency once (worker 0), then clone the target dir for the other workers"""
    ensure_lock()
    os.makedirs(TARGET, exist_ok=True)
    cmd = ["cargo", "kani", "--target-dir", worker_dir(0), "--only-codegen", "-Z", "unstable-options", "-Z", "stubbing"]
    rc, out, wall, _ = sh(cmd, HK, 2400, mem=False)
    if rc != 0:
        return False, out[-6000:], wall
    for i in range(1, jobs):
        subprocess.run(["rsync", "-a", "--delete", worker_dir(0) + "/", worker_dir(i) + "/"], check=False)
    return True, "", wall


CHECK_RE = re.compile(r"^Check (\d+): (\S+)\n((?:\t .*\n)+)", re.M)


def parse(out):
    """Kani regular output -> dict"""
    res = dict(verdict=None, checks=0, failed=[], covers=[], undetermined=0, time_s=None, stubs=[])
    m = re.search(r"VERIFICATION:- (SUCCESSFUL|FAILED)", out)
    if m:
        res["verdict"] = m.group(1)
    m = re.search(r"Verification Time: ([0-9.]+)s", out)
    if m:
        res["time_s"] = float(m.group(1))
    m = re.search(r"\*\* (\d+) of (\d+) failed", out)
    if m:
        res["checks"] = int(m.group(2))
    res["stubs"] = sorted(set(re.findall(r"- Stub: (.*)", out)))
    for cm in CHECK_RE.finditer(out):
        name, body = cm.group(2), cm.group(3)
        st = re.search(r"- Status: (\S+)", body)
        de = re.search(r"- Description: \"(.*)\"\n", body)
        lo = re.search(r"- Location: (.*)\n", body)
        status, desc, loc = st.group(1) if st else "?", (de.group(1) if de else "").strip('"'), lo.group(1) if lo else ""
        if ".cover." in name:
            res["covers"].append(dict(desc=desc, status=status))
            continue
        if status in ("FAILURE", "UNDETERMINED"):
            if ".unwind." in name or desc.startswith("unwinding assertion") or "recursion unwinding" in desc:
                kind = "unwinding"
            elif "unsupported_construct" in name or desc.startswith("call to foreign") or "is not currently supported by Kani" in desc:
                kind = "unsupported"
            elif status == "UNDETERMINED":
                kind = "undetermined"
            else:
                kind = "property"
            res["failed"].append(dict(check=name, desc=desc, loc=loc, kind=kind))
    return res


def kani_cmd(h, tdir, extra=()):
    return ["cargo", "kani", "--target-dir", tdir, "--harness", h["name"], "--exact"] + FLAGS + list(extra) + CBMC_ARGS


def playback_text(out):
    """the unit tests printed by --concrete-playback=print"""
    return re.findall(r"```\n(.*?)```", out, re.S)


def decode_vals(test_src):
    """concrete byte vectors of a generated test, little endian -> list of (comment, bytes, as-u64)"""
    vals = []
    for c, v in re.findall(r"//\s*(.*)\n\s*vec!\[([0-9, ]*)\]", test_src):
        b = [int(x) for x in v.replace(" ", "").split(",") if x]
        vals.append(dict(kani_rendering=c.strip(), bytes=b, le_uint=int.from_bytes(bytes(b), "little") if b else 0))
    return vals


def native_replay(h_name, tests, tag):
    """scratch copy of the crate + the generated #[test]s appended to the harness' module file -> cargo kani playback
    (native execution of the real, un-stubbed code).  returns (reproduced: bool|None, log tail)"""
    scratch = os.path.join(TARGET, "replay", tag)
    shutil.rmtree(scratch, ignore_errors=True)
    os.makedirs(scratch)
    for f in ("Cargo.toml", "Cargo.lock", "src"):
        s = os.path.join(HK, f)
        (shutil.copytree if os.path.isdir(s) else shutil.copy)(s, os.path.join(scratch, f))
    mod = h_name.split("::")[0]
    path = os.path.join(scratch, "src", mod + ".rs")
    src = open(path).read()
    # a harness inside a nested module (misc::trees::...) needs its test inside that module: re-open the module
    inner = h_name.split("::")[1:-1]
    block = "\n".join(tests)
    if inner:
        # append inside `mod <inner> { ... }`: find the module's closing brace (modules are top-level in the file)
        m = re.search(r"^mod %s \{\n" % re.escape(inner[0]), src, re.M)
        end = src.find("\n}\n", m.end())
        src = src[:end] + "\n" + "\n".join("    " + l for l in block.splitlines()) + src[end:]
    else:
        src += "\n" + block + "\n"
    open(path, "w").write(src)
    env = kenv()
    env["CARGO_TARGET_DIR"] = os.path.join(TARGET, "playback")
    env["RUST_BACKTRACE"] = "0"
    rc, out, wall, _ = sh(["cargo", "kani", "playback", "-Z", "concrete-playback", "--features", "nocover", "--", "kani_concrete_playback"], scratch, 2400, mem=False, env=env)
    m = re.search(r"test result: (\w+)\. (\d+) passed; (\d+) failed", out)
    if not m:
        return None, out[-3000:]
    return int(m.group(3)) > 0, out[-3000:]


def run_harness(h, widx, timeout, replay=True):
    tdir = worker_dir(widx)
    rc, out, wall, rss = sh(kani_cmd(h, tdir), HK, timeout)
    p = parse(out)
    rec = dict(name=h["name"], builder=h["builder"], documented_ranges=h["ranges"], functions=h["functions"], unwind=h["unwind"], role=h["role"],
               declared_stubs=h["stubs"], stubs_applied=p["stubs"], assumptions=h["assumes"], checks=p["checks"], time_s=round(wall, 1), cbmc_time_s=p["time_s"], maxrss_mb=rss // 1024,
               covers=p["covers"], verdict=None, detail="")
    props = [f for f in p["failed"] if f["kind"] == "property"]
    other = [f for f in p["failed"] if f["kind"] != "property"]
    if p["verdict"] is None:
        low = out.lower()
        why = "timeout (%ds)" % timeout if rc in (124, 137) and wall >= timeout - 5 else ("out of memory (cap %d KB)" % MEM_KB if ("out of memory" in low or "bad_alloc" in low or "memory exhausted" in low or rc in (134, 137)) else ("harness not found / build failed" if "error" in low else "no verdict"))
        rec.update(verdict="undecided", detail="%s; rc=%s; %s" % (why, rc, " | ".join(out.strip().splitlines()[-4:])[-500:]))
        return rec
    wit = {c["desc"].split(":")[0]: c["status"] for c in p["covers"] if c["desc"].startswith("WITNESS")}
    if p["verdict"] == "SUCCESSFUL":
        if wit and len(wit) >= 2 and all(v == "SATISFIED" for v in wit.values()):
            rec["verdict"] = "verified"
        else:
            rec.update(verdict="undecided", detail="vacuity witness not satisfied: %s" % wit)
        if h["stubs"] and not p["stubs"]:
            rec.update(verdict="undecided", detail="declared stub was not applied (Kani printed no '- Stub:' line)")
        return rec
    # FAILED
    if other and not props:
        rec.update(verdict="undecided", detail="; ".join("%s: %s" % (f["kind"], f["desc"][:120]) for f in other[:3]))
        return rec
    if not props:
        rec.update(verdict="undecided", detail="FAILED without a failed check in the output")
        return rec
    rec["failed_checks"] = props
    rec["verdict"] = "failed"
    if other:
        rec["detail"] = "also: " + "; ".join("%s: %s" % (f["kind"], f["desc"][:80]) for f in other[:3])
    if replay:
        # counterexample: covers compiled out so that the printed trace is the failing assertion's
        rc2, out2, wall2, _ = sh(kani_cmd(h, tdir, ["--features", "nocover", "-Z", "concrete-playback", "--concrete-playback=print"]), HK, timeout)
        tests = playback_text(out2)
        rec["counterexample_tests"] = tests
        rec["counterexample_values"] = [decode_vals(t) for t in tests]
        if tests:
            ok, log = native_replay(h["name"], tests, h["name"].replace("::", "-"))
            rec["native_replay"] = dict(reproduced=ok, log_tail=log[-1500:])
        else:
            rec["native_replay"] = dict(reproduced=None, log_tail="no concrete playback test was printed: " + out2[-800:])
        rec["time_s"] = round(wall + wall2, 1)
    return rec


def write_replay(prop, rec):
    d = os.path.join(ROOT, "replays", prop)
    os.makedirs(d, exist_ok=True)
    path = os.path.join(d, rec["name"].split("::")[-1] + ".txt")
    with open(path, "w") as f:
        f.write("# Kani counterexample, property %s\n" % prop)
        f.write("harness: %s\nbuilder: %s\ndocumented: %s\n" % (rec["name"], rec["builder"], rec["documented_ranges"]))
        for c in rec.get("failed_checks", []):
            f.write("failed_assertion: %s\n  at %s\n" % (c["desc"], c["loc"]))
        nr = rec.get("native_replay", {})
        f.write("native_replay_reproduced: %s\n" % nr.get("reproduced"))
        f.write("replay_cmd: python3 %s replay %s\n" % (os.path.join(HK, "run_kani.py"), path))
        for t, vals in zip(rec.get("counterexample_tests", []), rec.get("counterexample_values", [])):
            f.write("\n## concrete values (kani::any() in program order; little-endian bytes)\n")
            for v in vals:
                f.write("  %-28s bytes=%s uint=%d\n" % (v["kani_rendering"], v["bytes"], v["le_uint"]))
            f.write("\n## generated unit test (runs natively with `cargo kani playback`)\n```\n%s```\n" % t)
    return path


def load_known(prop):
    p = os.path.join(ROOT, "known_findings.json")
    if not os.path.exists(p):
        return {}
    out = {}
    for k in json.load(open(p)).get("findings", []):
        if k.get("property") == prop and k.get("engine", "kani") == "kani" and k.get("harness", "").startswith("c04_doc_"):
            out[k["harness"]] = k
    return out


def run(prop="C04", tier="quick", seed=0, only=None, jobs=None, suspects=False, quiet=True):
    """seed is unused: CBMC's verdict covers every bit pattern of the symbolic inputs (nothing is sampled)"""
    import fcntl
    os.makedirs(TARGET, exist_ok=True)
    with open(os.path.join(TARGET, ".hk.lock"), "w") as lk:
        fcntl.flock(lk, fcntl.LOCK_EX)  # the worker target dirs are shared: one driver at a time
        return _run(prop, tier, seed, only, jobs, suspects, quiet)


def _run(prop, tier, seed, only, jobs, suspects, quiet):
    jobs = jobs or JOBS
    t0 = time.time()
    known = load_known(prop)
    sel, skipped = [], []
    for h in HARNESSES:
        if h.get("prop", "C04") != prop:
            continue
        if tier not in h["tiers"] or (only and only not in h["name"]):
            continue
        if h["role"] == "unclaimed" and not suspects:
            skipped.append(h["name"])
            continue
        if h["role"] == "doc":
            k = known.get(h["finding"])
            if k is None and not suspects:
                skipped.append(h["name"])
                continue
        sel.append(h)
    sel.sort(key=lambda h: -COST.get(h["name"].split("::")[-1].rsplit("_f", 1)[0], 1))  # longest first
    res = dict(violations=[], inconclusive=[], coverage={}, states=0, transitions=0, obligations=0, discharged=0, functions=[], known_findings=[])
    ok, err, bwall = build(min(jobs, max(1, len(sel))))
    if not ok:
        res["inconclusive"].append("Kani build of /verif/hk against /repo's current tree failed: " + err[-1500:])
        res["coverage"] = dict(engine="kani", build_failed=True)
        return res
    recs = [None] * len(sel)
    nxt = [0]
    lock = threading.Lock()
    timeout = TIMEOUT if tier == "quick" else 2 * TIMEOUT

    def worker(w):
        while True:
            with lock:
                i = nxt[0]
                nxt[0] += 1
            if i >= len(sel):
                return
            recs[i] = run_harness(sel[i], w, timeout)
            if not quiet:
                r = recs[i]
                print("  %-62s %-9s %6.1fs %5d MB  checks=%-4d %s" % (r["name"], r["verdict"], r["time_s"], r["maxrss_mb"], r["checks"], r["detail"][:150]), flush=True)

    ts = [threading.Thread(target=worker, args=(w,)) for w in range(min(jobs, max(1, len(sel))))]
    for t in ts:
        t.start()
    for t in ts:
        t.join()

    funcs = set()
    for h, r in zip(sel, recs):
        short = h["name"].split("::")[-1]
        if r["verdict"] == "verified":
            res["states"] += 1
            res["transitions"] += 1
            res["obligations"] += r["checks"]
            res["discharged"] += r["checks"]
            funcs.update(h["functions"])
            k = known.get(h.get("finding") or "")
            if h["role"] == "doc" and k and k.get("status") == "known":
                r["detail"] = "recorded finding %s did not show up (fixed?)" % k.get("id")
        elif r["verdict"] == "undecided":
            res["inconclusive"].append("%s: %s" % (h["name"], r["detail"]))
        else:  # failed property assertion
            res["states"] += 1
            res["transitions"] += 2
            res["obligations"] += r["checks"]
            res["discharged"] += r["checks"] - len(r.get("failed_checks", []))
            funcs.update(h["functions"])
            path = write_replay(prop, r)
            r["replay_file"] = path
            rep = r.get("native_replay", {}).get("reproduced")
            k = known.get(h.get("finding") or "") if h["role"] == "doc" else None
            what = "; ".join(c["desc"] for c in r["failed_checks"])[:300]
            if rep is not True:
                res["inconclusive"].append("%s: CBMC counterexample for '%s' did not reproduce natively (%s) -- see %s" % (h["name"], what, rep, path))
            elif k and k.get("status") == "known":
                line = "KNOWN-FINDING: property=%s %s [%s %s: %s; replay=%s]" % (prop, k.get("what") or h["ranges"], k.get("id", ""), short, what, path)
                res["known_findings"].append(line)
                print(line)
            else:
                res["violations"].append("VIOLATION property=%s replay=%s" % (prop, path))
                res["violations"].append("  harness %s (%s): '%s' fails; reproduced natively; values in the replay file" % (h["name"], h["builder"], what))
    res["functions"] = sorted(funcs)
    res["coverage"] = dict(
        engine="Kani 0.68 / CBMC 6.11 (CaDiCaL), bit-precise bounded model checking of the compiled MIR of /repo",
        flags=" ".join(FLAGS + CBMC_ARGS), tier=tier, wall_s=round(time.time() - t0, 1), build_s=round(bwall, 1), jobs=jobs, mem_cap_kb=MEM_KB, timeout_s=timeout,
        rule="states = harnesses decided by CBMC (each ranges over every bit pattern of its symbolic inputs); transitions = CBMC runs (+1 per counterexample extraction); obligations = checks CBMC generated for them (assertions incl. the real code's own panics and the unwinding assertions); discharged = those proved",
        harnesses=recs, suspects_not_registered=skipped,
        undecided=[r["name"] for r in recs if r["verdict"] == "undecided"],
        note="c04_doc_* harnesses isolate documentation-vs-guard disagreements; they run only when known_findings.json carries an entry {property:C04, harness:<name>} (status known -> KNOWN-FINDING, status fixed -> ordinary check)",
    )
    return res


def replay_file(path):
    txt = open(path).read()
    m = re.search(r"^harness: (\S+)", txt, re.M)
    tests = re.findall(r"```\n(.*?)```", txt, re.S)
    if not m or not tests:
        print("not a Kani replay file:", path)
        return 2
    ensure_lock()
    ok, log = native_replay(m.group(1), tests, "cli-" + m.group(1).replace("::", "-"))
    print(log[-2500:])
    if ok is None:
        print("INCONCLUSIVE: the playback test could not be built/run")
        return 2
    print("replay of %s: %s" % (m.group(1), "REPRODUCED (the assertion fails natively on the un-stubbed code)" if ok else "not reproduced (test passed)"))
    return 1 if ok else 0


def main():
    a = sys.argv[1:]
    if not a or a[0] in ("-h", "--help"):
        print(__doc__)
        return 2
    if a[0] == "list":
        for h in HARNESSES:
            print("%-64s %-8s unwind=%d tiers=%s\n      %s" % (h["name"], h["role"], h["unwind"], ",".join(h["tiers"]), h["ranges"]))
        return 0
    if a[0] == "replay":
        return replay_file(a[1])
    if a[0] == "run":
        tier, only, jobs, suspects, prop = "quick", None, None, False, "C04"
        i = 1
        while i < len(a):
            if a[i] == "--tier":
                tier = a[i + 1]; i += 2
            elif a[i] == "--only":
                only = a[i + 1]; i += 2
            elif a[i] == "--jobs":
                jobs = int(a[i + 1]); i += 2
            elif a[i] == "--suspects":
                suspects = True; i += 1
            else:
                prop = a[i]; i += 1
        r = run(prop, tier, 0, only=only, jobs=jobs, suspects=suspects, quiet=False)
        for v in r["violations"]:
            print(v)
        for m in r["inconclusive"]:
            print("INCONCLUSIVE:", m)
        cov = r["coverage"]
        print("kani %s %s: %d harnesses decided, %d/%d checks discharged, %d undecided, %d suspects not registered, wall %.1fs" % (
            prop, tier, r["states"], r["discharged"], r["obligations"], len(cov.get("undecided", [])), len(cov.get("suspects_not_registered", [])), cov.get("wall_s", 0)))
        out = os.path.join(TARGET, "last-run-%s.json" % tier)
        json.dump(r, open(out, "w"), indent=1)
        return 1 if r["violations"] else (2 if r["inconclusive"] else 0)
    print(__doc__)
    return 2


if __name__ == "__main__":
    sys.exit(main())

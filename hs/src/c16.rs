//! C16 — scalers: `LinearScaler` (standard with / without mean / std, min-max with a range, max-abs) and
//! `NormScaler` (l1, l2, max).  Whiteners go through iterative decompositions and are outside Engine S.
use crate::common::*;
use crate::harness;
use linfa::dataset::DatasetBase;
use linfa::traits::{Fit, Transformer};
use linfa_preprocessing::linear_scaling::{LinearScaler, LinearScalerParams, ScalingMethod};
use linfa_preprocessing::norm_scaling::NormScaler;
use ndarray::{Array1, Array2};
use num_traits::Float as NF;

fn tol<F: Scalar>(k: i32) -> F {
    F::lit((2.0f64).powi(-k))
}
fn fabs<F: Scalar>(x: F) -> F {
    NF::abs(x)
}
fn close<F: Scalar>(a: F, b: F, t: F) -> SymB {
    fabs(a - b).s_le(t)
}
fn sum<F: Scalar>(xs: impl Iterator<Item = F>) -> F {
    let mut s = F::lit(0.0);
    for x in xs {
        s = s + x;
    }
    s
}
fn fold<F: Scalar>(xs: impl Iterator<Item = F>, f: fn(F, F) -> F) -> F {
    let mut r: Option<F> = None;
    for x in xs {
        r = Some(match r {
            None => x,
            Some(y) => f(y, x),
        });
    }
    r.unwrap()
}

const STD: usize = 0;
const STD_NO_MEAN: usize = 1;
const STD_NO_STD: usize = 2;
const STD_NEITHER: usize = 3;
const MINMAX: usize = 4;
const MAXABS: usize = 5;

fn matrix<F: Scalar>(name: &str, n: usize, pc: usize, b: i64) -> Array2<F> {
    let mut x = Array2::from_elem((n, pc), F::lit(0.0));
    for i in 0..n {
        for j in 0..pc {
            x[(i, j)] = int::<F>(&format!("{}{}_{}", name, i, j), -b, b);
        }
    }
    x
}

struct Meta {
    targets: Array1<usize>,
    weights: Array1<f32>,
    fnames: Vec<String>,
    tnames: Vec<String>,
}
fn meta(n: usize, pc: usize) -> Meta {
    Meta {
        targets: (0..n).map(|i| 7 * i + 3).collect(),
        weights: (0..n).map(|i| 0.5 + i as f32).collect(),
        fnames: (0..pc).map(|j| format!("feature-{}", j)).collect(),
        tnames: vec!["target".to_string()],
    }
}
fn dataset<F: Scalar>(x: &Array2<F>, m: &Meta) -> DatasetBase<Array2<F>, Array1<usize>> {
    DatasetBase::new(x.clone(), m.targets.clone()).with_weights(m.weights.clone()).with_feature_names(m.fnames.clone()).with_target_names(m.tnames.clone())
}
fn check_meta<F: Scalar>(out: &DatasetBase<Array2<F>, Array1<usize>>, m: &Meta, brk: bool) {
    let want_t = if brk { m.targets.mapv(|t| t + 1) } else { m.targets.clone() };
    check_bool("dataset.targets pass through unchanged", *out.targets() == want_t);
    check_bool("dataset.weights pass through unchanged", out.weights().map(|w| w.to_vec()) == Some(m.weights.to_vec()));
    check_bool("dataset.feature names pass through unchanged", out.feature_names() == &m.fnames[..]);
    check_bool("dataset.target names pass through unchanged", out.target_names() == &m.tnames[..]);
}

fn linear<F: Scalar>(p: &Params) {
    let (n, pc, method, b) = (p.u("n", 3), p.u("p", 1), p.u("method", 0), p.get("B", 64));
    let (rb, mutk) = (p.get("R", 8), p.get("mut", 0));
    let mu = |k: i64| if mutk == k { F::lit(1.0) } else { F::lit(0.0) };
    let x = matrix::<F>("x", n, pc, b);
    let z: Vec<F> = (0..pc).map(|j| int::<F>(&format!("unseen{}", j), -b, b)).collect();
    let (lo, hi) = if method == MINMAX {
        match p.get("range", 0) {
            // symbolic range
            0 => (int::<F>("range_min", -rb, rb), int::<F>("range_max", -rb, rb)),
            // the default range 0..=1
            _ => (F::lit(0.0), F::lit(1.0)),
        }
    } else {
        (F::lit(0.0), F::lit(0.0))
    };
    let nf = F::lit(n as f64);
    let (zero, one) = (F::lit(0.0), F::lit(1.0));
    // column statistics from the input terms (all exact)
    let col = |j: usize| -> Vec<F> { x.column(j).to_vec() };
    let csum: Vec<F> = (0..pc).map(|j| sum(col(j).into_iter())).collect();
    let cv: Vec<F> = (0..pc).map(|j| nf * sum(col(j).into_iter().map(|v| v * v)) - csum[j] * csum[j]).collect(); // n^2 Var
    let cmin: Vec<F> = (0..pc).map(|j| fold(col(j).into_iter(), NF::min)).collect();
    let cmax: Vec<F> = (0..pc).map(|j| fold(col(j).into_iter(), NF::max)).collect();
    let cabs: Vec<F> = (0..pc).map(|j| fold(col(j).into_iter().map(fabs), NF::max)).collect();
    if method <= STD_NEITHER {
        // a fact of the integer grid (n^2 Var is a non-negative integer), stated so that the solver can
        // refute "0 < std <= epsilon" on the constant-column guard; it excludes no input
        for j in 0..pc {
            assume(cv[j].s_eq(zero).or(one.s_le(cv[j])));
        }
    }

    let params = match method {
        STD => LinearScaler::standard(),
        STD_NO_MEAN => LinearScaler::standard_no_mean(),
        STD_NO_STD => LinearScaler::standard_no_std(),
        STD_NEITHER => LinearScalerParams::new(ScalingMethod::Standard(false, false)),
        MINMAX => {
            if p.get("range", 0) == 0 {
                LinearScaler::min_max_range(lo, hi)
            } else {
                LinearScaler::min_max()
            }
        }
        _ => LinearScaler::max_abs(),
    };
    let md = meta(n, pc);
    let ds = dataset(&x, &md);
    let fitted = params.fit(&ds);
    if method == MINMAX {
        let flipped = hi < lo;
        if flipped {
            check_bool("minmax.a range with min > max is rejected", fitted.is_err());
            return;
        }
    }
    check_bool("fit succeeds on non-empty records", fitted.is_ok());
    let scaler = match fitted {
        Ok(s) => s,
        Err(_) => return,
    };
    let (off, sc) = (scaler.offsets().clone(), scaler.scales().clone());
    check_bool("one offset and one scale per feature", off.len() == pc && sc.len() == pc);
    if off.len() != pc || sc.len() != pc {
        return;
    }
    for j in 0..pc {
        observe(off[j]);
        observe(sc[j]);
    }

    // ---- fitted parameters against the textbook statistics
    for j in 0..pc {
        match method {
            STD | STD_NO_MEAN | STD_NO_STD | STD_NEITHER => {
                let s = csum[j] + mu(1);
                check("standard.offset * n == column sum", close(off[j] * nf, s, tol::<F>(30) * (one + fabs(s))));
                if method == STD || method == STD_NO_MEAN {
                    let constant = cv[j].s_eq(zero).and(sc[j].s_eq(one));
                    let n2 = nf * nf + mu(1);
                    let scaled = zero.s_lt(cv[j]).and(zero.s_lt(sc[j])).and(close(sc[j] * sc[j] * cv[j], n2, tol::<F>(30) * n2));
                    check("standard.scale == 1 for a constant column, 1/std otherwise (scale^2 * n^2 Var == n^2)", constant.or(scaled));
                } else {
                    check("standard.scale == 1 without std", sc[j].s_eq(one + mu(1)));
                }
            }
            MINMAX => {
                check("minmax.offset == column minimum", off[j].s_eq(cmin[j] + mu(1)));
                let w = cmax[j] - cmin[j];
                let constant = w.s_eq(zero).and(sc[j].s_eq(one));
                let scaled = zero.s_lt(w).and(close(sc[j] * w, one + mu(1), tol::<F>(30)));
                check("minmax.scale == 1 for a constant column, 1/(max-min) otherwise", constant.or(scaled));
            }
            _ => {
                check("maxabs.offset == 0", off[j].s_eq(zero + mu(1)));
                let constant = cabs[j].s_eq(zero).and(sc[j].s_eq(one));
                let scaled = zero.s_lt(cabs[j]).and(close(sc[j] * cabs[j], one + mu(1), tol::<F>(30)));
                check("maxabs.scale == 1 for an all-zero column, 1/max|x| otherwise", constant.or(scaled));
            }
        }
    }

    // ---- transform of the training data: dataset and array entry points
    let out_ds = scaler.transform(dataset(&x, &md));
    check_meta(&out_ds, &md, mutk == 6);
    let out = out_ds.records().clone();
    let out_arr = scaler.transform(x.clone());
    check_bool("transform keeps the shape", out.dim() == (n, pc) && out_arr.dim() == (n, pc));
    if out.dim() != (n, pc) || out_arr.dim() != (n, pc) {
        return;
    }
    let mut same = true;
    for i in 0..n {
        for j in 0..pc {
            same &= out[(i, j)].identical(out_arr[(i, j)]);
            observe(out[(i, j)]);
        }
    }
    check_bool("dataset and array transform give identical records", same);
    let affine = |v: F, j: usize| -> F {
        let core = (v - off[j]) * sc[j];
        match method {
            STD_NO_MEAN | STD_NEITHER => core + off[j],
            MINMAX => core * (hi - lo) + lo,
            _ => core,
        }
    };
    for i in 0..n {
        for j in 0..pc {
            let e = affine(x[(i, j)], j) + mu(2);
            check("transform == affine map given by offsets() / scales() (and the range)", close(out[(i, j)], e, tol::<F>(30) * (one + fabs(e))));
        }
    }

    // ---- postconditions of the statement, per column of the transformed training data
    for j in 0..pc {
        let oc: Vec<F> = out.column(j).to_vec();
        let so = sum(oc.iter().copied());
        let vo = nf * sum(oc.iter().map(|&v| v * v)) - so * so; // n^2 Var(out)
        let sabs = sum(col(j).into_iter().map(fabs));
        let n2 = nf * nf + mu(3);
        let constant = cv[j].s_eq(zero);
        match method {
            STD => {
                check("standard: zero mean", fabs(so).s_le(tol::<F>(30) * nf - mu(3)));
                check("standard: unit variance on a non-constant column", constant.or(close(vo, n2, tol::<F>(30) * n2)));
                let centred = SymB::all(&oc.iter().map(|&v| fabs(v).s_le(tol::<F>(30) - mu(3))).collect::<Vec<_>>());
                check("standard: a constant column is only centred", constant.not().or(centred));
            }
            STD_NO_MEAN => {
                check("standard_no_mean: keeps the mean", close(so, csum[j] + mu(3), tol::<F>(30) * (one + sabs)));
                check("standard_no_mean: unit variance on a non-constant column", constant.or(close(vo, n2, tol::<F>(30) * n2)));
                let kept = SymB::all(&(0..n).map(|i| close(oc[i], x[(i, j)] + mu(3), tol::<F>(30) * (one + sabs))).collect::<Vec<_>>());
                check("standard_no_mean: a constant column is unchanged", constant.not().or(kept));
            }
            STD_NO_STD => {
                check("standard_no_std: zero mean", fabs(so).s_le(tol::<F>(30) * (one + sabs) - mu(3)));
                check("standard_no_std: keeps the spread", close(vo, cv[j] + mu(3), tol::<F>(30) * (one + cv[j])));
            }
            STD_NEITHER => {
                check("standard(false,false): keeps the mean", close(so, csum[j] + mu(3), tol::<F>(30) * (one + sabs)));
                check("standard(false,false): keeps the spread", close(vo, cv[j] + mu(3), tol::<F>(30) * (one + cv[j])));
            }
            MINMAX => {
                let t = tol::<F>(30) * (one + fabs(lo) + fabs(hi));
                let omin = fold(oc.iter().copied(), NF::min);
                let omax = fold(oc.iter().copied(), NF::max);
                let nonconst = cmin[j].s_lt(cmax[j]);
                check("minmax: a non-constant column attains the lower end of the range as its minimum", nonconst.not().or(close(omin, lo + mu(3), t)));
                check("minmax: a non-constant column attains the upper end of the range as its maximum", nonconst.not().or(close(omax, hi + mu(3), t)));
            }
            _ => {
                let oabs = fold(oc.iter().map(|&v| fabs(v)), NF::max);
                check("maxabs: a non-zero column has maximum absolute value one", cabs[j].s_eq(zero).or(close(oabs, one + mu(3), tol::<F>(30))));
            }
        }
    }

    // ---- a fixed row-wise map: reordered rows and an unseen row, in one other matrix and alone
    let rot: Vec<usize> = (0..n).map(|i| (i + 1) % n).collect();
    let y = Array2::from_shape_fn((n + 1, pc), |(i, j)| if i < n { x[(rot[i], j)] } else { z[j] });
    let oy = scaler.transform(y);
    let mut moved = oy.dim() == (n + 1, pc);
    if moved {
        for i in 0..n {
            for j in 0..pc {
                moved &= oy[(i, j)].identical(out[(if mutk == 4 { i } else { rot[i] }, j)]);
            }
        }
    }
    check_bool("rows of a reordered / extended matrix get the images they had in the training matrix (identical)", moved || (mutk == 4 && n == 1));
    if oy.dim() == (n + 1, pc) {
        let alone = scaler.transform(Array2::from_shape_fn((1, pc), |(_, j)| z[j]));
        let mut same_alone = alone.dim() == (1, pc);
        for j in 0..pc {
            let e = affine(z[j], j) + mu(5);
            check("unseen row: transform == the same affine map", close(oy[(n, j)], e, tol::<F>(30) * (one + fabs(e))));
            same_alone = same_alone && alone[(0, j)].identical(oy[(n, j)]);
            observe(oy[(n, j)]);
        }
        check_bool("unseen row: same image alone and inside another matrix (identical)", same_alone);
    }
}

fn norm<F: Scalar>(p: &Params) {
    let (n, pc, kind, b) = (p.u("n", 2), p.u("p", 2), p.u("norm", 1), p.get("B", 64));
    let mutk = p.get("mut", 0);
    let zero_row = p.get("zero", -1);
    let mu = |k: i64| if mutk == k { F::lit(1.0) } else { F::lit(0.0) };
    let (zero, one) = (F::lit(0.0), F::lit(1.0));
    let mut x = matrix::<F>("x", n, pc, b);
    for i in 0..n {
        if i as i64 == zero_row {
            for j in 0..pc {
                x[(i, j)] = zero;
            }
        } else {
            // non-zero rows (an all-zero row is the subject of the `zero=` instance)
            assume(SymB::any(&(0..pc).map(|j| x[(i, j)].s_eq(zero).not()).collect::<Vec<_>>()));
        }
    }
    let scaler = match kind {
        1 => NormScaler::l1(),
        2 => NormScaler::l2(),
        _ => NormScaler::max(),
    };
    let md = meta(n, pc);
    let out_ds = scaler.transform(dataset(&x, &md));
    check_meta(&out_ds, &md, mutk == 6);
    let out = out_ds.records().clone();
    let out_arr: Array2<F> = scaler.transform(x.clone());
    check_bool("transform keeps the shape", out.dim() == (n, pc) && out_arr.dim() == (n, pc));
    if out.dim() != (n, pc) || out_arr.dim() != (n, pc) {
        return;
    }
    let mut same = true;
    for i in 0..n {
        for j in 0..pc {
            same &= out[(i, j)].identical(out_arr[(i, j)]);
            observe(out[(i, j)]);
        }
    }
    check_bool("dataset and array transform give identical records", same);
    for i in 0..n {
        let r: Vec<F> = out.row(i).to_vec();
        if i as i64 == zero_row {
            check_bool("norm: an all-zero row stays finite", r.iter().all(|v| NF::is_finite(*v)));
            continue;
        }
        check_bool("norm: output is finite", r.iter().all(|v| NF::is_finite(*v)));
        let nrm = match kind {
            1 => sum(r.iter().map(|&v| fabs(v))),
            2 => sum(r.iter().map(|&v| v * v)),
            _ => fold(r.iter().map(|&v| fabs(v)), NF::max),
        };
        check("norm: a non-zero row has unit norm (l2: squared)", close(nrm, one + mu(1), tol::<F>(30)));
        // same direction as the input row: proportional with a non-negative factor
        for j in 0..pc {
            check("norm: output keeps the sign of the input", zero.s_le(r[j] * x[(i, j)] - mu(2)));
            for k in (j + 1)..pc {
                let t = tol::<F>(30) * (one + fabs(x[(i, j)]) + fabs(x[(i, k)]));
                check("norm: output row is proportional to the input row", close(r[j] * x[(i, k)], r[k] * x[(i, j)] + mu(2), t));
            }
        }
    }
    // row-wise: a reordered matrix, and every row alone
    let rot: Vec<usize> = (0..n).map(|i| (i + 1) % n).collect();
    let oy: Array2<F> = scaler.transform(Array2::from_shape_fn((n, pc), |(i, j)| x[(rot[i], j)]));
    let mut moved = oy.dim() == (n, pc);
    for i in 0..n {
        let alone: Array2<F> = scaler.transform(Array2::from_shape_fn((1, pc), |(_, j)| x[(i, j)]));
        moved = moved && alone.dim() == (1, pc);
        for j in 0..pc {
            let same_bits = |a: F, b: F| a.identical(b) || (NF::is_nan(a) && NF::is_nan(b));
            moved = moved && same_bits(oy[(i, j)], out[(if mutk == 4 { i } else { rot[i] }, j)]) && same_bits(alone[(0, j)], out[(i, j)]);
        }
    }
    check_bool("norm: every row has the same image in a reordered matrix and alone (identical)", moved || (mutk == 4 && n == 1));
}

/// degenerate inputs (concrete shapes, one path)
fn errors<F: Scalar>(_p: &Params) {
    let empty = || DatasetBase::from(Array2::<F>::from_elem((0, 2), F::lit(0.0)));
    let all: Vec<(&str, LinearScalerParams<F>)> = vec![
        ("standard", LinearScaler::standard()),
        ("standard_no_mean", LinearScaler::standard_no_mean()),
        ("standard_no_std", LinearScaler::standard_no_std()),
        ("standard(false,false)", LinearScalerParams::new(ScalingMethod::Standard(false, false))),
        ("min_max", LinearScaler::min_max()),
        ("min_max_range", LinearScaler::min_max_range(F::lit(-2.0), F::lit(3.0))),
        ("max_abs", LinearScaler::max_abs()),
    ];
    for (_, params) in &all {
        check_bool("empty training data is rejected with an error", params.fit(&empty()).is_err());
    }
    let some = DatasetBase::from(Array2::<F>::from_shape_fn((2, 2), |(i, j)| F::lit((i * 2 + j) as f64)));
    check_bool("minmax.a range with min > max is rejected", LinearScaler::min_max_range(F::lit(1.0), F::lit(0.0)).fit(&some).is_err());
    check_bool("empty training data is rejected with an error", LinearScaler::min_max_range(F::lit(1.0), F::lit(0.0)).fit(&empty()).is_err());
    for (_, params) in &all {
        let s = params.fit(&some);
        check_bool("fit succeeds on non-empty records", s.is_ok());
        if let Ok(s) = s {
            let o = s.transform(Array2::<F>::from_elem((0, 2), F::lit(0.0)));
            check_bool("transform of an empty matrix is empty", o.dim() == (0, 2));
        }
    }
    for sc in [NormScaler::l1(), NormScaler::l2(), NormScaler::max()] {
        let o: Array2<F> = sc.transform(Array2::<F>::from_elem((0, 2), F::lit(0.0)));
        check_bool("transform of an empty matrix is empty", o.dim() == (0, 2));
    }
}

pub fn register(v: &mut Vec<HarnessDef>) {
    harness!(v, "c16.linear", "C16", linear,
        "LinearScaler (method 0 standard, 1 no mean, 2 no std, 3 neither, 4 min-max [range=0 symbolic range, 1 default], 5 max-abs) fitted on a symbolic n x p integer matrix incl. constant / zero columns: fitted offsets/scales == textbook statistics, transform == affine map, postconditions of the statement, reordered + unseen rows, metadata",
        ["linfa_preprocessing::linear_scaling::ScalingMethod::{fit,standardize,min_max,max_abs}", "LinearScalerParams::fit", "LinearScaler::{offsets,scales}", "<LinearScaler as Transformer<Array2>>::transform", "<LinearScaler as Transformer<DatasetBase>>::transform", "ndarray mean_axis / std_axis (Welford), linfa_linalg::norm::Norm::norm_max"],
        ["entries are integers in [-B,B], min-max range ends integers in [-R,R]", "f64 only", "sqrt / division are rounded: obligations on scales and outputs carry a relative tolerance 2^-30"]);
    harness!(v, "c16.norm", "C16", norm,
        "NormScaler (norm 1 l1, 2 l2, 3 max) on a symbolic n x p integer matrix: unit norm, direction kept, finite, row-wise (reordered / single rows identical), metadata; zero=i makes row i all-zero",
        ["<linfa_preprocessing::norm_scaling::NormScaler as Transformer<Array2>>::transform", "<NormScaler as Transformer<DatasetBase>>::transform", "linfa_linalg::norm::Norm::{norm_l1,norm_l2,norm_max}"],
        ["entries are integers in [-B,B]", "rows other than the `zero` row are non-zero"]);
    harness!(v, "c16.errors", "C16", errors,
        "empty training data and a flipped min-max range are errors; empty matrices transform to empty matrices",
        ["LinearScalerParams::fit", "ScalingMethod::{standardize,min_max,max_abs}", "LinearScaler::transform", "NormScaler::transform"],
        []);
}

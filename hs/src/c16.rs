//! C16 — scalers: `LinearScaler` (standard with / without mean / std, min-max with a range, max-abs) and
//! `NormScaler` (l1, l2, max).  Whiteners go through iterative decompositions and are outside Engine S.
use crate::common::*;
use crate::harness;
use linfa::dataset::DatasetBase;
use linfa::traits::{Fit, Transformer};
use linfa_preprocessing::linear_scaling::{LinearScaler, LinearScalerParams, ScalingMethod};
use linfa_preprocessing::norm_scaling::NormScaler;
use ndarray::{Array1, Array2};
use num_traits::Float as NF;

fn tol<F: Scalar>(k: i32) -> F {
    F::lit((2.0f64).powi(-k))
}
fn fabs<F: Scalar>(x: F) -> F {
    NF::abs(x)
}
fn close<F: Scalar>(a: F, b: F, t: F) -> SymB {
    // two one-sided comparisons: the solver handles them far better than an `ite`-encoded absolute value
    (a - b).s_le(t).and((b - a).s_le(t))
}
fn sum<F: Scalar>(xs: impl Iterator<Item = F>) -> F {
    let mut s = F::lit(0.0);
    for x in xs {
        s = s + x;
    }
    s
}
fn fold<F: Scalar>(xs: impl Iterator<Item = F>, f: fn(F, F) -> F) -> F {
    let mut r: Option<F> = None;
    for x in xs {
        r = Some(match r {
            None => x,
            Some(y) => f(y, x),
        });
    }
    r.unwrap()
}

const STD: usize = 0;
const STD_NO_MEAN: usize = 1;
const STD_NO_STD: usize = 2;
const STD_NEITHER: usize = 3;
const MINMAX: usize = 4;
const MAXABS: usize = 5;

fn matrix<F: Scalar>(name: &str, n: usize, pc: usize, b: i64) -> Array2<F> {
    let mut x = Array2::from_elem((n, pc), F::lit(0.0));
    for i in 0..n {
        for j in 0..pc {
            x[(i, j)] = int::<F>(&format!("{}{}_{}", name, i, j), -b, b);
        }
    }
    x
}

struct Meta {
    targets: Array1<usize>,
    weights: Array1<f32>,
    fnames: Vec<String>,
    tnames: Vec<String>,
}
fn meta(n: usize, pc: usize) -> Meta {
    Meta {
        targets: (0..n).map(|i| 7 * i + 3).collect(),
        weights: (0..n).map(|i| 0.5 + i as f32).collect(),
        fnames: (0..pc).map(|j| format!("feature-{}", j)).collect(),
        tnames: vec!["target".to_string()],
    }
}
fn dataset<F: Scalar>(x: &Array2<F>, m: &Meta) -> DatasetBase<Array2<F>, Array1<usize>> {
    DatasetBase::new(x.clone(), m.targets.clone()).with_weights(m.weights.clone()).with_feature_names(m.fnames.clone()).with_target_names(m.tnames.clone())
}
fn check_meta<F: Scalar>(out: &DatasetBase<Array2<F>, Array1<usize>>, m: &Meta, brk: bool) {
    let want_t = if brk { m.targets.mapv(|t| t + 1) } else { m.targets.clone() };
    check_bool("dataset.targets pass through unchanged", *out.targets() == want_t);
    check_bool("dataset.weights pass through unchanged", out.weights().map(|w| w.to_vec()) == Some(m.weights.to_vec()));
    check_bool("dataset.feature names pass through unchanged", out.feature_names() == &m.fnames[..]);
    check_bool("dataset.target names pass through unchanged", out.target_names() == &m.tnames[..]);
}

fn linear<F: Scalar>(p: &Params) {
    let (n, pc, method, b) = (p.u("n", 3), p.u("p", 1), p.u("method", 0), p.get("B", 64));
    let (rb, mutk) = (p.get("R", 8), p.get("mut", 0));
    let mu = |k: i64| if mutk == k { F::lit(1.0) } else { F::lit(0.0) };
    let x = matrix::<F>("x", n, pc, b);
    let z: Vec<F> = (0..pc).map(|j| int::<F>(&format!("unseen{}", j), -b, b)).collect();
    let (lo, hi) = if method == MINMAX {
        match p.get("range", 0) {
            // symbolic range
            0 => (int::<F>("range_min", -rb, rb), int::<F>("range_max", -rb, rb)),
            // the default range 0..=1
            _ => (F::lit(0.0), F::lit(1.0)),
        }
    } else {
        (F::lit(0.0), F::lit(0.0))
    };
    let nf = F::lit(n as f64);
    let (zero, one) = (F::lit(0.0), F::lit(1.0));
    // column statistics from the input terms (all exact)
    let col = |j: usize| -> Vec<F> { x.column(j).to_vec() };
    let csum: Vec<F> = (0..pc).map(|j| sum(col(j).into_iter())).collect();
    let cv: Vec<F> = (0..pc).map(|j| nf * sum(col(j).into_iter().map(|v| v * v)) - csum[j] * csum[j]).collect(); // n^2 Var
    let cmin: Vec<F> = (0..pc).map(|j| fold(col(j).into_iter(), NF::min)).collect();
    let cmax: Vec<F> = (0..pc).map(|j| fold(col(j).into_iter(), NF::max)).collect();
    let cabs: Vec<F> = (0..pc).map(|j| fold(col(j).into_iter().map(fabs), NF::max)).collect();
    if method <= STD_NEITHER {
        // a fact of the integer grid (n^2 Var is a non-negative integer), stated so that the solver can
        // refute "0 < std <= epsilon" on the constant-column guard; it excludes no input
        for j in 0..pc {
            assume(cv[j].s_eq(zero).or(one.s_le(cv[j])));
        }
    }

    let params = match method {
        STD => LinearScaler::standard(),
        STD_NO_MEAN => LinearScaler::standard_no_mean(),
        STD_NO_STD => LinearScaler::standard_no_std(),
        STD_NEITHER => LinearScalerParams::new(ScalingMethod::Standard(false, false)),
        MINMAX => {
            if p.get("range", 0) == 0 {
                LinearScaler::min_max_range(lo, hi)
            } else {
                LinearScaler::min_max()
            }
        }
        _ => LinearScaler::max_abs(),
    };
    let md = meta(n, pc);
    let ds = dataset(&x, &md);
    let fitted = params.fit(&ds);
    if method == MINMAX {
        let flipped = hi < lo;
        if flipped {
            check_bool("minmax.a range with min > max is rejected", fitted.is_err());
            return;
        }
    }
    check_bool("fit succeeds on non-empty records", fitted.is_ok());
    let scaler = match fitted {
        Ok(s) => s,
        Err(_) => return,
    };
    let (off, sc) = (scaler.offsets().clone(), scaler.scales().clone());
    check_bool("one offset and one scale per feature", off.len() == pc && sc.len() == pc);
    if off.len() != pc || sc.len() != pc {
        return;
    }
    let observable = true;
    for j in 0..pc {
        observe(off[j]);
        if observable {
            observe(sc[j]);
        }
    }

    let part = p.u("part", 0);
    // col >= 0: only the obligations of that column (smaller solver queries; the exploration is the same)
    let only = p.get("col", -1);
    let sel = |j: usize| only < 0 || only as usize == j;
    // ob >= 0: only that obligation group (the engine puts all obligations of a path into one query)
    let ob = p.get("ob", -1);
    let cg = |g: i64, name: &str, c: SymB| {
        if ob < 0 || ob == g {
            check(name, c)
        }
    };
    let p2 = |x: f64| -> f64 {
        let mut q = 1.0f64;
        while q < x {
            q *= 2.0;
        }
        q
    };
    let bf = b as f64;
    // absolute tolerances: 2^-30 relative to the largest magnitude the compared quantity can take on the domain
    // (constants: the solver copes badly with tolerances that are themselves non-linear terms)
    let t_one = tol::<F>(30);
    let t_lin = F::lit(p2(2.0 * n as f64 * bf) * (2.0f64).powi(-30));
    let t_var = F::lit(p2((n * n) as f64 * bf * bf) * (2.0f64).powi(-30));
    // standard deviation of every column, by ndarray (auxiliary value: its defining relation to the moment
    // sums is itself an obligation below)
    let sd: Vec<F> = if method == STD || method == STD_NO_MEAN { x.std_axis(ndarray::Axis(0), zero).to_vec() } else { vec![one; pc] };

    // ---- part 0: fitted parameters against the textbook statistics
    for j in 0..pc {
        if part != 0 {
            break;
        }
        if !sel(j) {
            continue;
        }
        match method {
            STD | STD_NO_MEAN | STD_NO_STD | STD_NEITHER => {
                let s = csum[j] + mu(1);
                cg(1, "standard.offset * n == column sum", close(off[j] * nf, s, t_lin));
                if method == STD || method == STD_NO_MEAN {
                    let constant = cv[j].s_eq(zero);
                    cg(2, "standard.scale == 1 for a constant column", constant.not().or(sc[j].s_eq(one + mu(1))));
                    cg(3, "standard.scale * std == 1 for a non-constant column", constant.or(close(sc[j] * sd[j], one + mu(1), t_one)));
                    cg(4, "standard.std >= 0 and n^2 std^2 == n sum x^2 - (sum x)^2", zero.s_le(sd[j]).and(close(nf * nf * (sd[j] * sd[j]), cv[j] + mu(1), t_var)));
                } else {
                    cg(2, "standard.scale == 1 without std", sc[j].s_eq(one + mu(1)));
                }
            }
            MINMAX => {
                cg(1, "minmax.offset == column minimum", off[j].s_eq(cmin[j] + mu(1)));
                let w = cmax[j] - cmin[j];
                cg(2, "minmax.scale == 1 for a constant column", w.s_eq(zero).not().or(sc[j].s_eq(one + mu(1))));
                cg(3, "minmax.scale * (max - min) == 1 for a non-constant column", w.s_eq(zero).or(close(sc[j] * w, one + mu(1), t_one)));
            }
            _ => {
                cg(1, "maxabs.offset == 0", off[j].s_eq(zero + mu(1)));
                cg(2, "maxabs.scale == 1 for an all-zero column", cabs[j].s_eq(zero).not().or(sc[j].s_eq(one + mu(1))));
                cg(3, "maxabs.scale * max|x| == 1 for a non-zero column", cabs[j].s_eq(zero).or(close(sc[j] * cabs[j], one + mu(1), t_one)));
            }
        }
    }

    // ---- transform of the training data: dataset and array entry points
    let out_ds = scaler.transform(dataset(&x, &md));
    check_meta(&out_ds, &md, mutk == 6);
    let out = out_ds.records().clone();
    let out_arr = scaler.transform(x.clone());
    check_bool("transform keeps the shape", out.dim() == (n, pc) && out_arr.dim() == (n, pc));
    if out.dim() != (n, pc) || out_arr.dim() != (n, pc) {
        return;
    }
    let mut same = true;
    for i in 0..n {
        for j in 0..pc {
            same &= out[(i, j)].identical(out_arr[(i, j)]);
            if observable {
                observe(out[(i, j)]);
            }
        }
    }
    check_bool("dataset and array transform give identical records", same);
    let affine = |v: F, j: usize| -> F {
        let core = (v - off[j]) * sc[j];
        match method {
            STD_NO_MEAN | STD_NEITHER => core + off[j],
            MINMAX => core * (hi - lo) + lo,
            _ => core,
        }
    };
    if part == 0 {
        for i in 0..n {
            for j in (0..pc).filter(|&j| sel(j)) {
                let e = affine(x[(i, j)], j) + mu(2);
                cg(5, "transform == affine map given by offsets() / scales() (and the range)", close(out[(i, j)], e, tol::<F>(30) * (one + fabs(e))));
            }
        }
    }

    // ---- part 1: postconditions of the statement, per column of the transformed training data.
    // Where the direct statement needs products of rounded terms the solver cannot expand (unit variance,
    // range ends with a symbolic range) it is stated through a cross-multiplied witness:
    //   out * std == x - mean  with  n^2 std^2 == n^2 Var(x)  (part 0)      =>  Var(out) == 1
    //   out == lo + u (hi - lo) (part 0, affine) with min u == 0, max u == 1  =>  both range ends attained
    // and the direct form is part 2.
    for j in 0..pc {
        if part != 1 && part != 2 {
            break;
        }
        if !sel(j) {
            continue;
        }
        let oc: Vec<F> = out.column(j).to_vec();
        let so = sum(oc.iter().copied());
        let vo = nf * sum(oc.iter().map(|&v| v * v)) - so * so; // n^2 Var(out)
        let n2 = nf * nf + mu(3);
        let constant = cv[j].s_eq(zero);
        // n (x_i - mean)
        let centred: Vec<F> = (0..n).map(|i| nf * x[(i, j)] - csum[j]).collect();
        match (method, part) {
            (STD, 1) => {
                cg(11, "standard: zero mean", fabs(so).s_le(t_one * nf - mu(3)));
                for i in 0..n {
                    cg(12, "standard: n * out * std == n * (x - mean) on a non-constant column", constant.or(close(nf * (oc[i] * sd[j]), centred[i] + mu(3), t_lin)));
                    cg(13, "standard: a constant column is only centred", constant.not().or(fabs(oc[i]).s_le(t_one - mu(3))));
                }
            }
            (STD, 2) | (STD_NO_MEAN, 2) => {
                cg(21, "standard: unit variance on a non-constant column", constant.or(close(vo, n2, t_one * n2)));
                cg(22, "standard: scale^2 * n^2 Var == n^2 on a non-constant column", constant.or(close(sc[j] * sc[j] * cv[j], n2, t_one * n2)));
            }
            (STD_NO_MEAN, 1) => {
                cg(11, "standard_no_mean: keeps the mean", close(so, csum[j] + mu(3), t_lin));
                for i in 0..n {
                    cg(12, "standard_no_mean: (n * out - sum x) * std == n * (x - mean) on a non-constant column", constant.or(close((nf * oc[i] - csum[j]) * sd[j], centred[i] + mu(3), t_lin)));
                    cg(13, "standard_no_mean: a constant column is unchanged", constant.not().or(close(oc[i], x[(i, j)] + mu(3), t_lin)));
                }
            }
            (STD_NO_STD, 1) => {
                cg(11, "standard_no_std: zero mean", fabs(so).s_le(t_lin - mu(3)));
                cg(12, "standard_no_std: keeps the spread", close(vo, cv[j] + mu(3), t_var));
            }
            (STD_NEITHER, 1) => {
                cg(11, "standard(false,false): keeps the mean", close(so, csum[j] + mu(3), t_lin));
                cg(12, "standard(false,false): keeps the spread", close(vo, cv[j] + mu(3), t_var));
            }
            (MINMAX, 1) => {
                // unit-interval witness u_i = (x_i - offset) * scale
                let u: Vec<F> = (0..n).map(|i| (x[(i, j)] - off[j]) * sc[j]).collect();
                let nonconst = cmin[j].s_lt(cmax[j]);
                let umin = fold(u.iter().copied(), NF::min);
                let umax = fold(u.iter().copied(), NF::max);
                cg(12, "minmax: on a non-constant column the unit-interval image attains 0 as its minimum", nonconst.not().or(close(umin, zero + mu(3), t_one)));
                cg(13, "minmax: on a non-constant column the unit-interval image attains 1 as its maximum", nonconst.not().or(close(umax, one + mu(3), t_one)));
                for i in 0..n {
                    let e = lo + u[i] * (hi - lo) + mu(3);
                    cg(14, "minmax: output == min + unit-interval image * (max - min)", close(oc[i], e, tol::<F>(30) * (one + fabs(e))));
                }
            }
            (MINMAX, 2) => {
                let t = tol::<F>(30) * (one + fabs(lo) + fabs(hi));
                let omin = fold(oc.iter().copied(), NF::min);
                let omax = fold(oc.iter().copied(), NF::max);
                let nonconst = cmin[j].s_lt(cmax[j]);
                cg(21, "minmax: a non-constant column attains the lower end of the range as its minimum", nonconst.not().or(close(omin, lo + mu(3), t)));
                cg(22, "minmax: a non-constant column attains the upper end of the range as its maximum", nonconst.not().or(close(omax, hi + mu(3), t)));
            }
            (MAXABS, 1) => {
                let oabs = fold(oc.iter().map(|&v| fabs(v)), NF::max);
                cg(12, "maxabs: a non-zero column has maximum absolute value one", cabs[j].s_eq(zero).or(close(oabs, one + mu(3), t_one)));
            }
            _ => {}
        }
    }
    if part != 0 {
        return;
    }

    // ---- a fixed row-wise map: reordered rows and an unseen row, in one other matrix and alone
    let rot: Vec<usize> = (0..n).map(|i| (i + 1) % n).collect();
    let y = Array2::from_shape_fn((n + 1, pc), |(i, j)| if i < n { x[(rot[i], j)] } else { z[j] });
    let oy = scaler.transform(y);
    let mut moved = oy.dim() == (n + 1, pc);
    if moved {
        for i in 0..n {
            for j in 0..pc {
                moved &= oy[(i, j)].identical(out[(if mutk == 4 { i } else { rot[i] }, j)]);
            }
        }
    }
    check_bool("rows of a reordered / extended matrix get the images they had in the training matrix (identical)", moved || (mutk == 4 && n == 1));
    // the same matrix in other memory layouts: column-major, and an owned array cut out of a wider one
    {
        use ndarray::ShapeBuilder;
        let mut cm = Array2::from_elem((n, pc).f(), zero);
        cm.assign(&x);
        let mut wide = Array2::from_elem((n, pc + 1), zero);
        wide.slice_mut(ndarray::s![.., ..pc]).assign(&x);
        let cut = wide.slice_move(ndarray::s![.., ..pc]);
        let mut same_layout = true;
        for v in [scaler.transform(cm), scaler.transform(cut)] {
            same_layout = same_layout && v.dim() == (n, pc) && (0..n).all(|i| (0..pc).all(|j| v[(i, j)].identical(out[(i, j)])));
        }
        check_bool("the image does not depend on the memory layout of the records (column-major, strided)", same_layout);
    }
    if oy.dim() == (n + 1, pc) {
        let alone = scaler.transform(Array2::from_shape_fn((1, pc), |(_, j)| z[j]));
        let mut same_alone = alone.dim() == (1, pc);
        for j in 0..pc {
            let e = affine(z[j], j) + mu(5);
            if sel(j) {
                cg(6, "unseen row: transform == the same affine map", close(oy[(n, j)], e, tol::<F>(30) * (one + fabs(e))));
            }
            same_alone = same_alone && alone[(0, j)].identical(oy[(n, j)]);
            if observable {
                observe(oy[(n, j)]);
            }
        }
        check_bool("unseen row: same image alone and inside another matrix (identical)", same_alone);
    }
}

fn norm<F: Scalar>(p: &Params) {
    let (n, pc, kind, b) = (p.u("n", 2), p.u("p", 2), p.u("norm", 1), p.get("B", 64));
    let mutk = p.get("mut", 0);
    let zero_row = p.get("zero", -1);
    // ob >= 0: only that obligation group (1 unit norm directly, 2 out * N == x, 3 N is the norm)
    let ob = p.get("ob", -1);
    let cg = |g: i64, name: &str, c: SymB| {
        if ob < 0 || ob == g {
            check(name, c)
        }
    };
    let mu = |k: i64| if mutk == k { F::lit(1.0) } else { F::lit(0.0) };
    let (zero, one) = (F::lit(0.0), F::lit(1.0));
    let mut x = matrix::<F>("x", n, pc, b);
    // scale=k: entries are integers times 2^k (exact): rows of very small / very large norm
    let scale = p.get("scale", 0) as i32;
    let unit = F::lit((scale as f64).exp2());
    let x_int = x.clone();
    if scale != 0 {
        x.mapv_inplace(|v| v * unit);
    }
    for i in 0..n {
        if i as i64 == zero_row {
            for j in 0..pc {
                x[(i, j)] = zero;
            }
        } else {
            // non-zero rows (an all-zero row is the subject of the `zero=` instance)
            assume(SymB::any(&(0..pc).map(|j| x[(i, j)].s_eq(zero).not()).collect::<Vec<_>>()));
        }
    }
    let scaler = match kind {
        1 => NormScaler::l1(),
        2 => NormScaler::l2(),
        _ => NormScaler::max(),
    };
    let md = meta(n, pc);
    let out_ds = scaler.transform(dataset(&x, &md));
    check_meta(&out_ds, &md, mutk == 6);
    let out = out_ds.records().clone();
    let out_arr: Array2<F> = scaler.transform(x.clone());
    check_bool("transform keeps the shape", out.dim() == (n, pc) && out_arr.dim() == (n, pc));
    if out.dim() != (n, pc) || out_arr.dim() != (n, pc) {
        return;
    }
    let mut same = true;
    for i in 0..n {
        for j in 0..pc {
            same &= out[(i, j)].identical(out_arr[(i, j)]);
            observe(out[(i, j)]);
        }
    }
    check_bool("dataset and array transform give identical records", same);
    for i in 0..n {
        let r: Vec<F> = out.row(i).to_vec();
        if i as i64 == zero_row {
            check_bool("norm: an all-zero row stays finite", r.iter().all(|v| NF::is_finite(*v)));
            continue;
        }
        check_bool("norm: output is finite", r.iter().all(|v| NF::is_finite(*v)));
        let nrm = match kind {
            1 => sum(r.iter().map(|&v| fabs(v))),
            2 => sum(r.iter().map(|&v| v * v)),
            _ => fold(r.iter().map(|&v| fabs(v)), NF::max),
        };
        cg(1, "norm: a non-zero row has unit norm (l2: squared)", close(nrm, one + mu(1), tol::<F>(30)));
        // cross-multiplied form with the norm of the input row as auxiliary value N:
        //   out_j * N == x_j   and   N is the norm of the row (N >= 0; l2: N^2 == sum x^2)   =>  ||out|| = 1, same direction
        let xr = x.row(i);
        let nn: F = match kind {
            1 => xr.iter().map(|v| fabs(*v)).sum(),
            // (through the integer multiples of 2^scale, so that the oracle itself neither under- nor overflows)
            2 => NF::sqrt(x_int.row(i).iter().map(|&v| v * v).sum::<F>()) * unit,
            _ => xr.iter().fold(zero, |f, &v| NF::max(fabs(v), f)),
        };
        let t_x = F::lit(b as f64 * ((-30 + scale) as f64).exp2());
        for j in 0..pc {
            cg(2, "norm: output * norm of the input row == input", close(r[j] * nn, x[(i, j)] + mu(2), t_x));
        }
        let textbook = match kind {
            1 => nn.s_eq(sum(xr.iter().map(|&v| fabs(v))) + mu(3)),
            2 => {
                let ni = NF::sqrt(x_int.row(i).iter().map(|&v| v * v).sum::<F>());
                zero.s_le(ni).and(close(ni * ni, sum(x_int.row(i).iter().map(|&v| v * v)) + mu(3), F::lit(b as f64 * b as f64 * pc as f64 * (2.0f64).powi(-30))))
            }
            _ => nn.s_eq(fold(xr.iter().map(|&v| fabs(v)), NF::max) + mu(3)),
        };
        cg(3, "norm: the auxiliary value is the l1 / l2 / max norm of the input row", textbook);
    }
    // row-wise: a reordered matrix, and every row alone
    let rot: Vec<usize> = (0..n).map(|i| (i + 1) % n).collect();
    let oy: Array2<F> = scaler.transform(Array2::from_shape_fn((n, pc), |(i, j)| x[(rot[i], j)]));
    let mut moved = oy.dim() == (n, pc);
    for i in 0..n {
        let alone: Array2<F> = scaler.transform(Array2::from_shape_fn((1, pc), |(_, j)| x[(i, j)]));
        moved = moved && alone.dim() == (1, pc);
        for j in 0..pc {
            let same_bits = |a: F, b: F| a.identical(b) || (NF::is_nan(a) && NF::is_nan(b));
            moved = moved && same_bits(oy[(i, j)], out[(if mutk == 4 { i } else { rot[i] }, j)]) && same_bits(alone[(0, j)], out[(i, j)]);
        }
    }
    check_bool("norm: every row has the same image in a reordered matrix and alone (identical)", moved || (mutk == 4 && n == 1));
    {
        use ndarray::ShapeBuilder;
        let mut cm = Array2::from_elem((n, pc).f(), zero);
        cm.assign(&x);
        let mut wide = Array2::from_elem((n, pc + 1), zero);
        wide.slice_mut(ndarray::s![.., ..pc]).assign(&x);
        let cut = wide.slice_move(ndarray::s![.., ..pc]);
        let same_bits = |a: F, b: F| a.identical(b) || (NF::is_nan(a) && NF::is_nan(b));
        let mut same_layout = true;
        for v in [scaler.transform(cm), scaler.transform(cut)] {
            same_layout = same_layout && v.dim() == (n, pc) && (0..n).all(|i| (0..pc).all(|j| same_bits(v[(i, j)], out[(i, j)])));
        }
        check_bool("norm: the image does not depend on the memory layout of the records (column-major, strided)", same_layout);
    }
}

/// columns far from the origin: what matters is the spread, not the offset
fn far_from_origin<F: Scalar>(p: &Params) {
    let (n, b, offs, method) = (p.u("n", 3), p.get("B", 8), p.get("offs", 27), p.u("method", 0));
    let xi: Vec<F> = (0..n).map(|i| int::<F>(&format!("x{}", i), -b, b)).collect();
    // one path per ordering of the rows, so that witnesses with different values are evaluated
    for i in 0..n {
        for j in i + 1..n {
            let _ = xi[i] < xi[j] || xi[j] < xi[i];
        }
    }
    let shift = F::lit((offs as f64).exp2());
    let x = Array2::from_shape_fn((n, 1), |(i, _)| xi[i] + shift);
    let params = match method {
        STD => LinearScaler::standard(),
        MINMAX => LinearScaler::min_max(),
        _ => LinearScaler::max_abs(),
    };
    let md = meta(n, 1);
    let scaler = match params.fit(&dataset(&x, &md)) {
        Ok(s) => s,
        Err(_) => {
            check_bool("far.fit succeeds on non-empty records", false);
            return;
        }
    };
    let out: Array2<F> = scaler.transform(x.clone());
    check_bool("far.transform keeps the shape", out.dim() == (n, 1));
    if out.dim() != (n, 1) {
        return;
    }
    let o: Vec<F> = out.column(0).to_vec();
    let constant = SymB::all(&(1..n).map(|i| xi[i].s_eq(xi[0])).collect::<Vec<_>>());
    let (zero, one) = (F::lit(0.0), F::lit(1.0));
    // Tolerance.  The data are exact, but their condition number for a variance is kappa = |mean| / std >= 2^offs / B:
    // ndarray's running-mean (Welford) variance is accurate to about n * kappa * eps only, which is what linfa inherits;
    // a formula that squares the raw values (E[x^2] - mean^2) is off by kappa^2 * eps, i.e. by orders of magnitude more.
    let t = F::lit((1e-6f64).max(64.0 * f64::EPSILON * (offs as f64).exp2()) * n as f64);
    match method {
        STD => {
            let s = sum(o.iter().copied());
            let v = sum(o.iter().map(|&u| u * u));
            check("far.standard: zero mean", fabs(s).s_le(t));
            check("far.standard: unit variance on a non-constant column", constant.or(fabs(v - F::lit(n as f64)).s_le(t)));
            check("far.standard: a constant column is only centred", constant.not().or(SymB::all(&o.iter().map(|&u| fabs(u).s_le(t)).collect::<Vec<_>>())));
        }
        MINMAX => {
            let (mn, mx) = (fold(o.iter().copied(), NF::min), fold(o.iter().copied(), NF::max));
            check("far.minmax: a non-constant column attains 0 and 1", constant.or(fabs(mn).s_le(t).and(fabs(mx - one).s_le(t))));
        }
        _ => {
            let mx = fold(o.iter().map(|&u| fabs(u)), NF::max);
            check("far.maxabs: maximum absolute value one", fabs(mx - one).s_le(t));
        }
    }
    for u in &o {
        observe(*u);
    }
    let _ = zero;
}

/// degenerate inputs (concrete shapes, one path)
fn errors<F: Scalar>(_p: &Params) {
    let empty = || DatasetBase::from(Array2::<F>::from_elem((0, 2), F::lit(0.0)));
    let all: Vec<(&str, LinearScalerParams<F>)> = vec![
        ("standard", LinearScaler::standard()),
        ("standard_no_mean", LinearScaler::standard_no_mean()),
        ("standard_no_std", LinearScaler::standard_no_std()),
        ("standard(false,false)", LinearScalerParams::new(ScalingMethod::Standard(false, false))),
        ("min_max", LinearScaler::min_max()),
        ("min_max_range", LinearScaler::min_max_range(F::lit(-2.0), F::lit(3.0))),
        ("max_abs", LinearScaler::max_abs()),
    ];
    for (_, params) in &all {
        check_bool("empty training data is rejected with an error", params.fit(&empty()).is_err());
    }
    let some = DatasetBase::from(Array2::<F>::from_shape_fn((2, 2), |(i, j)| F::lit((i * 2 + j) as f64)));
    check_bool("minmax.a range with min > max is rejected", LinearScaler::min_max_range(F::lit(1.0), F::lit(0.0)).fit(&some).is_err());
    check_bool("empty training data is rejected with an error", LinearScaler::min_max_range(F::lit(1.0), F::lit(0.0)).fit(&empty()).is_err());
    for (_, params) in &all {
        let s = params.fit(&some);
        check_bool("fit succeeds on non-empty records", s.is_ok());
        if let Ok(s) = s {
            let o = s.transform(Array2::<F>::from_elem((0, 2), F::lit(0.0)));
            check_bool("transform of an empty matrix is empty", o.dim() == (0, 2));
        }
    }
    for sc in [NormScaler::l1(), NormScaler::l2(), NormScaler::max()] {
        let o: Array2<F> = sc.transform(Array2::<F>::from_elem((0, 2), F::lit(0.0)));
        check_bool("transform of an empty matrix is empty", o.dim() == (0, 2));
    }
}

pub fn register(v: &mut Vec<HarnessDef>) {
    harness!(v, "c16.linear", "C16", linear,
        "LinearScaler (method 0 standard, 1 no mean, 2 no std, 3 neither, 4 min-max [range=0 symbolic range, 1 default], 5 max-abs) fitted on a symbolic n x p integer matrix incl. constant / zero columns. part 0: fitted offsets/scales == textbook statistics (ob 1-4), transform == affine map from offsets()/scales() (5), unseen row (6), reordered rows / dataset vs array identical, metadata; part 1: postconditions of the statement (11 mean, 12 spread, 13 constant column / upper end, 14 range map); part 2: direct non-linear forms (mostly beyond z3, not registered); col=j restricts to one column",
        ["linfa_preprocessing::linear_scaling::ScalingMethod::{fit,standardize,min_max,max_abs}", "LinearScalerParams::fit", "LinearScaler::{offsets,scales}", "<LinearScaler as Transformer<Array2>>::transform", "<LinearScaler as Transformer<DatasetBase>>::transform", "ndarray mean_axis / std_axis (running mean), linfa_linalg::norm::Norm::norm_max"],
        ["entries are integers in [-B,B], min-max range ends integers in [-R,R]", "f64 only", "sqrt / division are rounded: obligations on scales and outputs carry tolerances 2^-30 relative to the largest magnitude on the domain", "standard: unit variance is stated as out*std == x-mean with n^2 std^2 == n sum x^2 - (sum x)^2 (std = ndarray's std_axis of the column as auxiliary value); min-max: both range ends attained is stated as out == min + u (max-min) with min u == 0, max u == 1", "the integer-grid fact n^2 Var == 0 or >= 1 is stated as a hint so that the solver can refute 0 < std <= epsilon on the constant-column guard"]);
    harness!(v, "c16.norm", "C16", norm,
        "NormScaler (norm 1 l1, 2 l2, 3 max) on a symbolic n x p integer matrix: ob 1 unit norm directly, 2 output * N == input, 3 N is the norm of the input row; finite, row-wise (reordered / single rows identical), dataset vs array identical, metadata; zero=i makes row i all-zero and demands finite output (recorded defect)",
        ["<linfa_preprocessing::norm_scaling::NormScaler as Transformer<Array2>>::transform", "<NormScaler as Transformer<DatasetBase>>::transform", "linfa_linalg::norm::Norm::{norm_l1,norm_l2,norm_max}"],
        ["entries are integers in [-B,B]", "rows other than the `zero` row are non-zero"]);
    harness!(v, "c16.far_from_origin", "C16", far_from_origin,
        "standard / min-max / max-abs scaling of columns whose values lie far from the origin (integers shifted by 2^offs): the postconditions of the statement recomputed from the outputs (zero mean, unit variance, ends of the range attained)",
        ["LinearScalerParams::fit", "ScalingMethod::{standardize,min_max,max_abs}", "LinearScaler::transform"],
        ["one column of n integers in [-B,B] shifted by 2^offs; one path (and witness) per ordering of the rows", "the solver decides the obligations in exact arithmetic; a formula that cancels in floating point shows on the witnesses"]);
    harness!(v, "c16.errors", "C16", errors,
        "empty training data and a flipped min-max range are errors; empty matrices transform to empty matrices",
        ["LinearScalerParams::fit", "ScalingMethod::{standardize,min_max,max_abs}", "LinearScaler::transform", "NormScaler::transform"],
        []);
}

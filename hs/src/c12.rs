//! C12 — logistic regression: class coding, probabilities, decisions and stationarity, for every
//! label vector over a small alphabet (labels symbolic, features from a small concrete family:
//! linfa-logistic is tied to argmin's primitive floats, so features cannot be symbolic).
use crate::common::*;
use crate::harness_sym;
use linfa::prelude::*;
use linfa_logistic::{LogisticRegression, MultiLogisticRegression};
use ndarray::{Array1, Array2};

fn dataset(id: usize, n: usize) -> Array2<f64> {
    // small families of non-degenerate feature matrices (1 or 2 columns), offsets and scales differ
    let a: [[f64; 2]; 7] = [[-1.5, 0.5], [-0.5, -1.0], [0.25, 2.0], [1.0, 0.0], [2.0, -0.5], [-2.0, 1.5], [0.75, 0.75]];
    match id {
        0 => Array2::from_shape_fn((n, 1), |(i, _)| a[i % 7][0]),
        1 => Array2::from_shape_fn((n, 2), |(i, j)| a[i % 7][j]),
        2 => Array2::from_shape_fn((n, 1), |(i, _)| 10.0 + 4.0 * a[i % 7][0]),
        _ => Array2::from_shape_fn((n, 2), |(i, j)| if j == 0 { 100.0 * a[i % 7][0] } else { 0.01 * a[i % 7][1] - 3.0 }),
    }
}

fn sigmoid(z: f64) -> f64 {
    if z >= 0.0 {
        1.0 / (1.0 + (-z).exp())
    } else {
        let e = z.exp();
        e / (1.0 + e)
    }
}

/// perfectly separable in the direction of some feature or by a linear functional? (1-D exact test;
/// in 2-D we only accept label vectors where both classes share a duplicated point pattern, see below)
fn separable_1d(x: &Array2<f64>, t: &[f64]) -> bool {
    let mut idx: Vec<usize> = (0..t.len()).collect();
    idx.sort_by(|&i, &j| x[(i, 0)].partial_cmp(&x[(j, 0)]).unwrap());
    let s: Vec<f64> = idx.iter().map(|&i| t[i]).collect();
    let changes = s.windows(2).filter(|w| w[0] != w[1]).count();
    // one sign change and no tie in x across the change
    if changes > 1 {
        return false;
    }
    true
}

fn binary(p: &Params) {
    let (n, data, alpha_i, icpt) = (p.u("n", 4), p.u("data", 0), p.u("alpha", 1), p.u("intercept", 1) == 1);
    let alpha = [0.0, 1.0, 0.125, 8.0][alpha_i];
    let n_labels = p.u("labels", 3);
    let x = dataset(data, n);
    let y_sym: Vec<SymLabel> = (0..n).map(|i| SymLabel::input(&format!("y{}", i), n_labels)).collect();
    let y = Array1::from_iter(y_sym.iter().cloned());
    let yc: Vec<usize> = y_sym.iter().map(|l| l.resolve(n_labels)).collect();
    let mut distinct = yc.clone();
    distinct.sort();
    distinct.dedup();
    if alpha == 0.0 && distinct.len() == 2 {
        // alpha = 0 is only claimed on data that is not separable
        let t: Vec<f64> = yc.iter().map(|&c| if c == distinct[1] { 1.0 } else { -1.0 }).collect();
        assume_bool(x.ncols() == 1 && !separable_1d(&x, &t));
    }
    let ds = Dataset::new(x.clone(), y);
    let fit = LogisticRegression::default().alpha(alpha).with_intercept(icpt).max_iterations(p.get("iters", 5000) as u64).fit(&ds);
    check_bool("binary.fit succeeds exactly when there are two distinct classes", fit.is_ok() == (distinct.len() == 2));
    let m = match fit {
        Ok(m) => m,
        Err(_) => return,
    };
    let pos = m.labels().pos.class.resolve(n_labels);
    let neg = m.labels().neg.class.resolve(n_labels);
    check_bool("binary.reported classes are the two distinct training labels", pos != neg && distinct.contains(&pos) && distinct.contains(&neg));
    let probs = m.predict_probabilities(&x);
    let pred: Array1<SymLabel> = m.predict(&x);
    for i in 0..n {
        check_bool("binary.probability in [0,1]", probs[i] >= 0.0 && probs[i] <= 1.0);
        let want = if probs[i] >= 0.5 { pos } else { neg };
        check_bool("binary.predicted class is the one probability and threshold imply", pred[i].resolve(n_labels) == want);
    }
    {
        let d = x.ncols();
        let mut ext = Array2::<f64>::zeros((n + 4, d));
        ext.slice_mut(ndarray::s![..n, ..]).assign(&x);
        for j in 0..d {
            ext[(n, j)] = x[(0, j)] * 1e3;
            ext[(n + 1, j)] = x[(n - 1, j)] * -1e6;
            ext[(n + 2, j)] = 1e6;
        }
        let pe = m.predict_probabilities(&ext);
        check_bool("binary.one probability per input row", pe.len() == n + 4);
        if pe.len() == n + 4 {
            check_bool("binary.probabilities stay in [0,1] in a batch with extreme rows", pe.iter().all(|v| *v >= 0.0 && *v <= 1.0));
            check_bool("binary.a row's probability does not depend on the other rows of the batch", (0..n).all(|i| (pe[i] - probs[i]).abs() <= 1e-12));
        }
    }
    // the decision threshold is configurable: the predicted class must follow it
    // (also thresholds that coincide with a published probability, and the two ends of the range)
    let mut thresholds = vec![0.25f64, 0.75, 0.1, 0.9, 0.0, 1.0];
    thresholds.extend(probs.iter().cloned());
    for &t in &thresholds {
        let mt = m.clone().set_threshold(t);
        let pr: Array1<SymLabel> = mt.predict(&x);
        for i in 0..n {
            let want = if probs[i] >= t { pos } else { neg };
            check_bool("binary.predicted class follows a non-default threshold", pr[i].resolve(n_labels) == want);
        }
    }
    // stationarity of the documented objective  sum_i log(1+exp(-t_i z_i)) + alpha/2 |w|^2  (no penalty on b)
    let (w, b) = (m.params().clone(), m.intercept());
    let mut gw = vec![0.0; x.ncols()];
    let mut gb = 0.0;
    for i in 0..n {
        let t = if yc[i] == pos { 1.0 } else { -1.0 };
        let z: f64 = (0..x.ncols()).map(|j| x[(i, j)] * w[j]).sum::<f64>() + b;
        let g = (sigmoid(t * z) - 1.0) * t;
        for j in 0..x.ncols() {
            gw[j] += g * x[(i, j)];
        }
        gb += g;
    }
    if p.u("mut", 0) == 1 {
        gb += alpha * b; // (testing only) pretend the intercept is penalised: must be reported
    }
    for j in 0..x.ncols() {
        gw[j] += alpha * w[j];
    }
    let scale = 1.0 + x.iter().fold(0.0f64, |a, v| a.max(v.abs()));
    let gmax = gw.iter().fold(0.0f64, |a, v| a.max(v.abs()));
    check_bool("binary.gradient of the penalised negative log-likelihood w.r.t. weights vanishes (<= 1e-3 * scale)", gmax <= 1e-3 * scale);
    if icpt {
        check_bool("binary.gradient w.r.t. the intercept vanishes (<= 1e-3)", gb.abs() <= 1e-3);
    } else {
        check_bool("binary.no intercept is fitted when disabled", b == 0.0);
    }
}

fn multinomial(p: &Params) {
    let (n, data, alpha_i, icpt) = (p.u("n", 4), p.u("data", 0), p.u("alpha", 1), p.u("intercept", 1) == 1);
    let alpha = [0.0, 1.0, 0.125, 8.0][alpha_i];
    let n_labels = p.u("labels", 3);
    let x = dataset(data, n);
    let y_sym: Vec<SymLabel> = (0..n).map(|i| SymLabel::input(&format!("y{}", i), n_labels)).collect();
    let yc: Vec<usize> = y_sym.iter().map(|l| l.resolve(n_labels)).collect();
    let mut distinct = yc.clone();
    distinct.sort();
    distinct.dedup();
    let ds = Dataset::new(x.clone(), Array1::from_iter(y_sym.iter().cloned()));
    let fit = MultiLogisticRegression::default().alpha(alpha).with_intercept(icpt).max_iterations(p.get("iters", 500) as u64).fit(&ds);
    let m = match fit {
        Ok(m) => m,
        Err(e) => {
            // an optimiser failure (line search on badly scaled features; the docs ask for normalised
            // features) is an error, not a model: nothing to check
            note(&format!("multinomial fit returned an error: {}", e));
            return;
        }
    };
    let classes: Vec<usize> = m.classes().iter().map(|c| c.resolve(n_labels)).collect();
    check_bool("multinomial.reported classes are the sorted distinct training labels", classes == distinct);
    if classes != distinct {
        return;
    }
    let k = classes.len();
    let probs = m.predict_probabilities(&x);
    let pred: Array1<SymLabel> = m.predict(&x);
    for i in 0..n {
        let mut s = 0.0;
        let mut best = 0;
        for c in 0..k {
            check_bool("multinomial.probability in [0,1]", probs[(i, c)] >= 0.0 && probs[(i, c)] <= 1.0);
            s += probs[(i, c)];
            if probs[(i, c)] > probs[(i, best)] {
                best = c;
            }
        }
        check_bool("multinomial.probabilities of a row sum to one", (s - 1.0).abs() <= 1e-9);
        let got = pred[i].resolve(n_labels);
        let gi = classes.iter().position(|&c| c == got);
        check_bool("multinomial.predicted class is one of maximal probability", gi.map(|g| probs[(i, g)] >= probs[(i, best)] - 1e-12).unwrap_or(false));
    }
    // the same rows inside a batch that also holds extreme rows: valid probabilities everywhere, and the ordinary
    // rows keep the probabilities they have on their own
    {
        let d = x.ncols();
        let mut ext = Array2::<f64>::zeros((n + 4, d));
        ext.slice_mut(ndarray::s![..n, ..]).assign(&x);
        for j in 0..d {
            ext[(n, j)] = x[(0, j)] * 1e3;
            ext[(n + 1, j)] = x[(n - 1, j)] * -1e6;
            ext[(n + 2, j)] = 1e6;
        }
        let pe = m.predict_probabilities(&ext);
        check_bool("multinomial.one probability row per input row", pe.dim() == (n + 4, k));
        if pe.dim() == (n + 4, k) {
            for i in 0..n + 4 {
                let s: f64 = (0..k).map(|c| pe[(i, c)]).sum();
                check_bool("multinomial.probabilities stay in [0,1] and sum to one in a batch with extreme rows", (0..k).all(|c| pe[(i, c)] >= 0.0 && pe[(i, c)] <= 1.0) && (s - 1.0).abs() <= 1e-9);
            }
            for i in 0..n {
                check_bool("multinomial.a row's probabilities do not depend on the other rows of the batch", (0..k).all(|c| (pe[(i, c)] - probs[(i, c)]).abs() <= 1e-12));
            }
        }
    }
    // stationarity of  -sum_i log softmax(x_i W + b)[y_i] + alpha/2 |W|^2
    let (w, b) = (m.params().clone(), m.intercept().clone());
    let d = x.ncols();
    let mut gw = vec![vec![0.0; k]; d];
    let mut gb = vec![0.0; k];
    for i in 0..n {
        for c in 0..k {
            let yi = if classes[c] == yc[i] { 1.0 } else { 0.0 };
            let diff = probs[(i, c)] - yi;
            for j in 0..d {
                gw[j][c] += x[(i, j)] * diff;
            }
            gb[c] += diff;
        }
    }
    let scale = 1.0 + x.iter().fold(0.0f64, |a, v| a.max(v.abs()));
    let mut gmax = 0.0f64;
    for j in 0..d {
        for c in 0..k {
            gmax = gmax.max((gw[j][c] + alpha * w[(j, c)]).abs());
        }
    }
    if gmax > 1e-3 * scale {
        note(&format!("multinomial: |grad_w|_inf = {:e}, |grad_b|_inf = {:e}, scale {}, labels {:?}, W = {:?}", gmax, gb.iter().fold(0.0f64, |a, v| a.max(v.abs())), scale, yc, w));
    }
    if alpha > 0.0 {
        check_bool("multinomial.gradient w.r.t. weights vanishes (<= 1e-3 * scale)", gmax <= 1e-3 * scale);
        if icpt {
            check_bool("multinomial.gradient w.r.t. intercepts vanishes (<= 1e-3)", gb.iter().all(|g| g.abs() <= 1e-3));
        }
    }
    let _ = b;
}


// ---- Tweedie GLM: configurations are solver-chosen, data concrete -------------------------------
fn unit_deviance(p: f64, y: f64, mu: f64) -> f64 {
    if p == 0.0 {
        (y - mu) * (y - mu)
    } else if p == 1.0 {
        2.0 * ((if y > 0.0 { y * (y / mu).ln() } else { 0.0 }) - y + mu)
    } else if p == 2.0 {
        2.0 * ((mu / y).ln() + y / mu - 1.0)
    } else {
        2.0 * (y.max(0.0).powf(2.0 - p) / ((1.0 - p) * (2.0 - p)) - y * mu.powf(1.0 - p) / (1.0 - p) + mu.powf(2.0 - p) / (2.0 - p))
    }
}
fn inv_link(link: usize, z: f64) -> f64 {
    match link {
        0 => z,
        1 => z.exp(),
        _ => sigmoid(z),
    }
}
fn tweedie(p: &Params) {
    use linfa_linear::{Link, TweedieRegressor};
    let powers = [0.0, 1.0, 1.5, 2.0, 3.0];
    let pw = powers[choice("power", 5)];
    let link = choice("link", 3); // 0 identity, 1 log, 2 logit
    let icpt = choice("intercept", 2) == 1;
    let alpha = [0.0, 0.5][choice("alpha", 2)];
    let data = choice("data", 3);
    let n = p.u("n", 6);
    // features (1-2 columns) and a positive target in (0,1) so that every link's range contains it
    let a: [[f64; 2]; 7] = [[-1.5, 0.5], [-0.5, -1.0], [0.25, 2.0], [1.0, 0.0], [2.0, -0.5], [-2.0, 1.5], [0.75, 0.75]];
    let yv: [f64; 7] = [0.2, 0.35, 0.5, 0.6, 0.8, 0.15, 0.55];
    let x = match data {
        0 => Array2::from_shape_fn((n, 1), |(i, _)| a[i % 7][0]),
        1 => Array2::from_shape_fn((n, 2), |(i, j)| a[i % 7][j]),
        _ => Array2::from_shape_fn((n, 1), |(i, _)| 3.0 + 0.5 * a[i % 7][0]),
    };
    let scale_y = if link == 2 { 1.0 } else { 4.0 };
    let y = Array1::from_shape_fn(n, |i| scale_y * yv[i % 7]);
    // claimed combinations: identity link only for the normal distribution (mu may leave the support
    // otherwise), logit only for the normal distribution with targets in (0,1); log link for every power
    assume_bool(link == 1 || pw == 0.0);
    let ds = Dataset::new(x.clone(), y.clone());
    let mk = || TweedieRegressor::params().power(pw).alpha(alpha).fit_intercept(icpt).max_iter(20000).tol(1e-7).link(match link { 0 => Link::Identity, 1 => Link::Log, _ => Link::Logit });
    // support: a target outside the distribution's support is rejected before optimising
    if pw >= 1.0 {
        let mut ybad = y.clone();
        ybad[0] = if pw >= 2.0 { 0.0 } else { -1.0 };
        check_bool("tweedie.target outside the support is rejected with an error", mk().fit(&Dataset::new(x.clone(), ybad)).is_err());
        if pw < 2.0 {
            let mut yzero = y.clone();
            yzero[0] = 0.0;
            check_bool("tweedie.zero target is inside the support for 1 <= power < 2", mk().fit(&Dataset::new(x.clone(), yzero)).is_ok());
        }
    }
    let m = match mk().fit(&ds) {
        Ok(m) => m,
        Err(e) => {
            note(&format!("tweedie fit error: {}", e));
            return;
        }
    };
    let pred = m.predict(&x);
    for v in pred.iter() {
        let ok = match link {
            0 => v.is_finite(),
            1 => *v > 0.0 && v.is_finite(),
            _ => *v > 0.0 && *v < 1.0,
        };
        check_bool("tweedie.prediction lies in the range of the link", ok);
    }
    // stationarity of 1/2 (deviance + alpha |w|^2) by central differences of the textbook deviance
    let d = x.ncols();
    let obj = |w: &[f64], b: f64| -> f64 {
        let mut dev = 0.0;
        for i in 0..n {
            let z: f64 = (0..d).map(|j| x[(i, j)] * w[j]).sum::<f64>() + b;
            dev += unit_deviance(pw, y[i], inv_link(link, z));
        }
        0.5 * (dev + alpha * w.iter().map(|v| v * v).sum::<f64>())
    };
    let w0: Vec<f64> = m.coef.to_vec();
    let b0 = m.intercept;
    let h = 1e-6;
    let mut gmax = 0.0f64;
    for j in 0..d {
        let (mut wp, mut wm) = (w0.clone(), w0.clone());
        wp[j] += h;
        wm[j] -= h;
        gmax = gmax.max(((obj(&wp, b0) - obj(&wm, b0)) / (2.0 * h)).abs());
    }
    if icpt {
        gmax = gmax.max(((obj(&w0, b0 + h) - obj(&w0, b0 - h)) / (2.0 * h)).abs());
    } else {
        check_bool("tweedie.no intercept is fitted when disabled", b0 == 0.0);
    }
    if gmax > 1e-3 {
        note(&format!("tweedie: |grad|_inf = {:e} power {} link {} icpt {} alpha {} data {} w {:?} b {}", gmax, pw, link, icpt, alpha, data, w0, b0));
    }
    check_bool("tweedie.gradient of 1/2 (deviance + alpha |w|^2) vanishes (<= 1e-3)", gmax <= 1e-3);
}

pub fn register(v: &mut Vec<HarnessDef>) {
    harness_sym!(v, "c12.binary", "C12", binary,
        "binary logistic regression on every label vector over a 3-letter alphabet: error iff not two classes, class set, probabilities, decision rule, stationarity of the documented objective recomputed from first principles",
        ["linfa_logistic::ValidLogisticRegression::fit", "label_classes", "logistic_loss / logistic_grad (through argmin L-BFGS)", "FittedLogisticRegression::{labels, params, intercept, predict_probabilities, predict_inplace}", "logistic"],
        ["features concrete (four small families incl. offset and badly scaled columns); labels symbolic", "alpha = 0 only on non-separable 1-D label vectors", "stationarity tolerance 1e-3 (solver gradient tolerance 1e-4)"]);
    harness_sym!(v, "c12.multinomial", "C12", multinomial,
        "multinomial logistic regression on every label vector: sorted class set, rows of probabilities sum to one, arg-max decision, stationarity for alpha > 0",
        ["linfa_logistic::ValidMultiLogisticRegression::fit", "label_classes_multi", "multi_logistic_loss / multi_logistic_grad", "MultiFittedLogisticRegression::{classes, params, intercept, predict_probabilities, predict_inplace}", "softmax_inplace", "log_sum_exp"],
        ["features concrete; labels symbolic", "stationarity only for alpha > 0 (alpha = 0 needs non-separable data in every one-vs-rest sense)"]);
    harness_sym!(v, "c12.tweedie", "C12", tweedie,
        "Tweedie GLM over solver-enumerated configurations (power, link, intercept, alpha, data family) on concrete data: support errors, predictions in the link's range, stationarity by central differences of the textbook deviance",
        ["linfa_linear::TweedieRegressorValidParams::fit", "TweedieProblem::{cost, gradient}", "TweedieDistribution::{in_range, deviance, deviance_derivative}", "Link::{link, inverse, inverse_derviative}", "TweedieRegressor::predict_inplace"],
        ["data concrete (three feature families, targets in the support of every power)", "identity and logit links only with power 0; log link with every power", "iteration budget 20000, tol 1e-7; stationarity tolerance 1e-3"]);
}

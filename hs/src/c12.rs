//! C12 — logistic regression: class coding, probabilities, decisions and stationarity, for every
//! label vector over a small alphabet (labels symbolic, features from a small concrete family:
//! linfa-logistic is tied to argmin's primitive floats, so features cannot be symbolic).
use crate::common::*;
use crate::harness_sym;
use linfa::prelude::*;
use linfa_logistic::{LogisticRegression, MultiLogisticRegression};
use ndarray::{Array1, Array2};

fn dataset(id: usize, n: usize) -> Array2<f64> {
    // small families of non-degenerate feature matrices (1 or 2 columns), offsets and scales differ
    let a: [[f64; 2]; 7] = [[-1.5, 0.5], [-0.5, -1.0], [0.25, 2.0], [1.0, 0.0], [2.0, -0.5], [-2.0, 1.5], [0.75, 0.75]];
    match id {
        0 => Array2::from_shape_fn((n, 1), |(i, _)| a[i % 7][0]),
        1 => Array2::from_shape_fn((n, 2), |(i, j)| a[i % 7][j]),
        2 => Array2::from_shape_fn((n, 1), |(i, _)| 10.0 + 4.0 * a[i % 7][0]),
        _ => Array2::from_shape_fn((n, 2), |(i, j)| if j == 0 { 100.0 * a[i % 7][0] } else { 0.01 * a[i % 7][1] - 3.0 }),
    }
}

fn sigmoid(z: f64) -> f64 {
    if z >= 0.0 {
        1.0 / (1.0 + (-z).exp())
    } else {
        let e = z.exp();
        e / (1.0 + e)
    }
}

/// perfectly separable in the direction of some feature or by a linear functional? (1-D exact test;
/// in 2-D we only accept label vectors where both classes share a duplicated point pattern, see below)
fn separable_1d(x: &Array2<f64>, t: &[f64]) -> bool {
    let mut idx: Vec<usize> = (0..t.len()).collect();
    idx.sort_by(|&i, &j| x[(i, 0)].partial_cmp(&x[(j, 0)]).unwrap());
    let s: Vec<f64> = idx.iter().map(|&i| t[i]).collect();
    let changes = s.windows(2).filter(|w| w[0] != w[1]).count();
    // one sign change and no tie in x across the change
    if changes > 1 {
        return false;
    }
    true
}

fn binary(p: &Params) {
    let (n, data, alpha_i, icpt) = (p.u("n", 4), p.u("data", 0), p.u("alpha", 1), p.u("intercept", 1) == 1);
    let alpha = [0.0, 1.0, 0.125, 8.0][alpha_i];
    let n_labels = p.u("labels", 3);
    let x = dataset(data, n);
    let y_sym: Vec<SymLabel> = (0..n).map(|i| SymLabel::input(&format!("y{}", i), n_labels)).collect();
    let y = Array1::from_iter(y_sym.iter().cloned());
    let yc: Vec<usize> = y_sym.iter().map(|l| l.resolve(n_labels)).collect();
    let mut distinct = yc.clone();
    distinct.sort();
    distinct.dedup();
    if alpha == 0.0 && distinct.len() == 2 {
        // alpha = 0 is only claimed on data that is not separable
        let t: Vec<f64> = yc.iter().map(|&c| if c == distinct[1] { 1.0 } else { -1.0 }).collect();
        assume_bool(x.ncols() == 1 && !separable_1d(&x, &t));
    }
    let ds = Dataset::new(x.clone(), y);
    let fit = LogisticRegression::default().alpha(alpha).with_intercept(icpt).max_iterations(p.get("iters", 5000) as u64).fit(&ds);
    check_bool("binary.fit succeeds exactly when there are two distinct classes", fit.is_ok() == (distinct.len() == 2));
    let m = match fit {
        Ok(m) => m,
        Err(_) => return,
    };
    let pos = m.labels().pos.class.resolve(n_labels);
    let neg = m.labels().neg.class.resolve(n_labels);
    check_bool("binary.reported classes are the two distinct training labels", pos != neg && distinct.contains(&pos) && distinct.contains(&neg));
    let probs = m.predict_probabilities(&x);
    let pred: Array1<SymLabel> = m.predict(&x);
    for i in 0..n {
        check_bool("binary.probability in [0,1]", probs[i] >= 0.0 && probs[i] <= 1.0);
        let want = if probs[i] >= 0.5 { pos } else { neg };
        check_bool("binary.predicted class is the one probability and threshold imply", pred[i].resolve(n_labels) == want);
    }
    // stationarity of the documented objective  sum_i log(1+exp(-t_i z_i)) + alpha/2 |w|^2  (no penalty on b)
    let (w, b) = (m.params().clone(), m.intercept());
    let mut gw = vec![0.0; x.ncols()];
    let mut gb = 0.0;
    for i in 0..n {
        let t = if yc[i] == pos { 1.0 } else { -1.0 };
        let z: f64 = (0..x.ncols()).map(|j| x[(i, j)] * w[j]).sum::<f64>() + b;
        let g = (sigmoid(t * z) - 1.0) * t;
        for j in 0..x.ncols() {
            gw[j] += g * x[(i, j)];
        }
        gb += g;
    }
    if p.u("mut", 0) == 1 {
        gb += alpha * b; // (testing only) pretend the intercept is penalised: must be reported
    }
    for j in 0..x.ncols() {
        gw[j] += alpha * w[j];
    }
    let scale = 1.0 + x.iter().fold(0.0f64, |a, v| a.max(v.abs()));
    let gmax = gw.iter().fold(0.0f64, |a, v| a.max(v.abs()));
    check_bool("binary.gradient of the penalised negative log-likelihood w.r.t. weights vanishes (<= 1e-3 * scale)", gmax <= 1e-3 * scale);
    if icpt {
        check_bool("binary.gradient w.r.t. the intercept vanishes (<= 1e-3)", gb.abs() <= 1e-3);
    } else {
        check_bool("binary.no intercept is fitted when disabled", b == 0.0);
    }
}

fn multinomial(p: &Params) {
    let (n, data, alpha_i, icpt) = (p.u("n", 4), p.u("data", 0), p.u("alpha", 1), p.u("intercept", 1) == 1);
    let alpha = [0.0, 1.0, 0.125, 8.0][alpha_i];
    let n_labels = p.u("labels", 3);
    let x = dataset(data, n);
    let y_sym: Vec<SymLabel> = (0..n).map(|i| SymLabel::input(&format!("y{}", i), n_labels)).collect();
    let yc: Vec<usize> = y_sym.iter().map(|l| l.resolve(n_labels)).collect();
    let mut distinct = yc.clone();
    distinct.sort();
    distinct.dedup();
    let ds = Dataset::new(x.clone(), Array1::from_iter(y_sym.iter().cloned()));
    let fit = MultiLogisticRegression::default().alpha(alpha).with_intercept(icpt).max_iterations(p.get("iters", 500) as u64).fit(&ds);
    let m = match fit {
        Ok(m) => m,
        Err(e) => {
            // an optimiser failure (line search on badly scaled features; the docs ask for normalised
            // features) is an error, not a model: nothing to check
            note(&format!("multinomial fit returned an error: {}", e));
            return;
        }
    };
    let classes: Vec<usize> = m.classes().iter().map(|c| c.resolve(n_labels)).collect();
    check_bool("multinomial.reported classes are the sorted distinct training labels", classes == distinct);
    if classes != distinct {
        return;
    }
    let k = classes.len();
    let probs = m.predict_probabilities(&x);
    let pred: Array1<SymLabel> = m.predict(&x);
    for i in 0..n {
        let mut s = 0.0;
        let mut best = 0;
        for c in 0..k {
            check_bool("multinomial.probability in [0,1]", probs[(i, c)] >= 0.0 && probs[(i, c)] <= 1.0);
            s += probs[(i, c)];
            if probs[(i, c)] > probs[(i, best)] {
                best = c;
            }
        }
        check_bool("multinomial.probabilities of a row sum to one", (s - 1.0).abs() <= 1e-9);
        let got = pred[i].resolve(n_labels);
        let gi = classes.iter().position(|&c| c == got);
        check_bool("multinomial.predicted class is one of maximal probability", gi.map(|g| probs[(i, g)] >= probs[(i, best)] - 1e-12).unwrap_or(false));
    }
    // stationarity of  -sum_i log softmax(x_i W + b)[y_i] + alpha/2 |W|^2
    let (w, b) = (m.params().clone(), m.intercept().clone());
    let d = x.ncols();
    let mut gw = vec![vec![0.0; k]; d];
    let mut gb = vec![0.0; k];
    for i in 0..n {
        for c in 0..k {
            let yi = if classes[c] == yc[i] { 1.0 } else { 0.0 };
            let diff = probs[(i, c)] - yi;
            for j in 0..d {
                gw[j][c] += x[(i, j)] * diff;
            }
            gb[c] += diff;
        }
    }
    let scale = 1.0 + x.iter().fold(0.0f64, |a, v| a.max(v.abs()));
    let mut gmax = 0.0f64;
    for j in 0..d {
        for c in 0..k {
            gmax = gmax.max((gw[j][c] + alpha * w[(j, c)]).abs());
        }
    }
    if gmax > 1e-3 * scale {
        note(&format!("multinomial: |grad_w|_inf = {:e}, |grad_b|_inf = {:e}, scale {}, labels {:?}, W = {:?}", gmax, gb.iter().fold(0.0f64, |a, v| a.max(v.abs())), scale, yc, w));
    }
    if alpha > 0.0 {
        check_bool("multinomial.gradient w.r.t. weights vanishes (<= 1e-3 * scale)", gmax <= 1e-3 * scale);
        if icpt {
            check_bool("multinomial.gradient w.r.t. intercepts vanishes (<= 1e-3)", gb.iter().all(|g| g.abs() <= 1e-3));
        }
    }
    let _ = b;
}

pub fn register(v: &mut Vec<HarnessDef>) {
    harness_sym!(v, "c12.binary", "C12", binary,
        "binary logistic regression on every label vector over a 3-letter alphabet: error iff not two classes, class set, probabilities, decision rule, stationarity of the documented objective recomputed from first principles",
        ["linfa_logistic::ValidLogisticRegression::fit", "label_classes", "logistic_loss / logistic_grad (through argmin L-BFGS)", "FittedLogisticRegression::{labels, params, intercept, predict_probabilities, predict_inplace}", "logistic"],
        ["features concrete (four small families incl. offset and badly scaled columns); labels symbolic", "alpha = 0 only on non-separable 1-D label vectors", "stationarity tolerance 1e-3 (solver gradient tolerance 1e-4)"]);
    harness_sym!(v, "c12.multinomial", "C12", multinomial,
        "multinomial logistic regression on every label vector: sorted class set, rows of probabilities sum to one, arg-max decision, stationarity for alpha > 0",
        ["linfa_logistic::ValidMultiLogisticRegression::fit", "label_classes_multi", "multi_logistic_loss / multi_logistic_grad", "MultiFittedLogisticRegression::{classes, params, intercept, predict_probabilities, predict_inplace}", "softmax_inplace", "log_sum_exp"],
        ["features concrete; labels symbolic", "stationarity only for alpha > 0 (alpha = 0 needs non-separable data in every one-vs-rest sense)"]);
}

//! C20 — same data, parameters and seed give bit-identical results: every estimator is built and
//! fitted several times from scratch inside one run (fresh default builders, fresh std HashMaps with
//! fresh random SipHash keys, i.e. different iteration orders) on the same symbolic data; learned
//! quantities must be the *same terms* (hash-consed, commutativity- but not associativity-normalised,
//! hence bit-identical IEEE values for every input of the path) and predictions must agree.
use crate::common::*;
use crate::harness;
use linfa::prelude::*;
use linfa::traits::{Fit, FitWith, Predict, Transformer};
use ndarray::{Array1, Array2};

fn sym_matrix<F: Scalar>(name: &str, n: usize, d: usize, b: i64) -> Array2<F> {
    let mut m = Array2::from_elem((n, d), F::lit(0.0));
    for i in 0..n {
        for j in 0..d {
            m[(i, j)] = int::<F>(&format!("{}{}_{}", name, i, j), -b, b);
        }
    }
    m
}

fn same_vec<F: Scalar>(name: &str, a: &[F], b: &[F]) {
    check_bool(&format!("{}: same number of learned values", name), a.len() == b.len());
    if a.len() == b.len() {
        check_bool(&format!("{}: learned values are bit-identical between two fits", name), a.iter().zip(b).all(|(x, y)| x.identical(*y)));
    }
}

fn twice<F: Scalar>(p: &Params) {
    let which = p.u("model", 0);
    let (n, d, reps) = (p.u("n", 3), p.u("d", 1), p.u("reps", 4));
    let b = p.get("B", 8);
    let x = sym_matrix::<F>("x", n, d, b);
    let q = sym_matrix::<F>("q", 1, d, b);
    let pattern = p.u("pattern", 0b0110);
    let labels = Array1::from_iter((0..n).map(|i| (pattern >> i) & 1));
    let yreg = Array1::from_iter((0..n).map(|i| int::<F>(&format!("y{}", i), -b, b)));
    // every closure builds its parameters from the public default constructor and fits from scratch
    let mut runs: Vec<(Vec<F>, Vec<usize>)> = Vec::new();
    for _ in 0..reps {
        let (vals, preds): (Vec<F>, Vec<usize>) = match which {
            0 => {
                use linfa_clustering::KMeans;
                // default builder: Xoshiro256Plus seeded with 42, L2 distance; Random initialisation
                // (the default k-means++ samples from float weights, which concretises)
                let m = KMeans::<F, _>::params(2).init_method(linfa_clustering::KMeansInit::Random).n_runs(2).max_n_iterations(2).tolerance(F::lit(1e-9)).fit(&DatasetBase::from(x.clone()));
                match m {
                    Ok(m) => (m.centroids().iter().cloned().chain(std::iter::once(m.inertia())).collect(), m.predict(&q).to_vec()),
                    Err(_) => (vec![], vec![usize::MAX]),
                }
            }
            1 => {
                use linfa_clustering::KMeans;
                let m = KMeans::params_with(2, rand_xoshiro::Xoshiro256Plus::seed_from_u64(7), linfa_nn::distance::L1Dist).init_method(linfa_clustering::KMeansInit::Random).n_runs(2).max_n_iterations(2).tolerance(F::lit(1e-9)).fit(&DatasetBase::from(x.clone()));
                match m {
                    Ok(m) => (m.centroids().iter().cloned().chain(std::iter::once(m.inertia())).collect(), m.predict(&q).to_vec()),
                    Err(_) => (vec![], vec![usize::MAX]),
                }
            }
            2 => {
                let m = linfa_trees::DecisionTree::<F, usize>::params().fit(&Dataset::new(x.clone(), labels.clone())).expect("tree");
                let splits: Vec<F> = m.iter_nodes().filter(|nd| !nd.is_leaf()).map(|nd| nd.split().1).collect();
                let mut pr: Vec<usize> = m.predict(&q).to_vec();
                pr.extend(m.predict(&x).iter());
                pr.extend(m.iter_nodes().filter(|nd| !nd.is_leaf()).map(|nd| nd.split().0));
                (splits, pr)
            }
            3 => {
                // constant data has zero variance in every class and no smoothing (epsilon = 1e-9 * largest variance):
                // ln(0) in the likelihood -- not the subject here
                let first = x[(0, 0)];
                assume(SymB::any(&x.iter().map(|v| v.s_eq(first).not()).collect::<Vec<_>>()));
                let m = linfa_bayes::GaussianNb::<F, usize>::params().fit(&Dataset::new(x.clone(), labels.clone())).expect("gnb");
                let mut pr = m.predict(&q).to_vec();
                pr.extend(m.predict(&x).iter());
                (vec![], pr)
            }
            4 => {
                let xa = x.mapv(|v| num_traits::Float::abs(v));
                let m = linfa_bayes::MultinomialNb::<F, usize>::params().fit(&Dataset::new(xa.clone(), labels.clone())).expect("mnb");
                let mut pr = m.predict(&q.mapv(|v| num_traits::Float::abs(v))).to_vec();
                pr.extend(m.predict(&xa).iter());
                (vec![], pr)
            }
            5 => {
                let m = linfa_elasticnet::ElasticNet::<F>::params().penalty(F::lit(0.25)).l1_ratio(F::lit(0.5)).max_iterations(3).fit(&Dataset::new(x.clone(), yreg.clone())).expect("enet");
                let mut v: Vec<F> = m.hyperplane().to_vec();
                v.push(m.intercept());
                v.extend(m.predict(&q).iter());
                (v, vec![])
            }
            6 => {
                match linfa_linear::LinearRegression::default().fit(&Dataset::new(x.clone(), yreg.clone())) {
                    Ok(m) => {
                        let mut v: Vec<F> = m.params().to_vec();
                        v.push(m.intercept());
                        v.extend(m.predict(&q).iter());
                        (v, vec![])
                    }
                    Err(_) => (vec![], vec![usize::MAX]), // rank deficient data is rejected; both fits must agree on that
                }
            }
            7 => {
                use linfa_preprocessing::linear_scaling::LinearScaler;
                let m = LinearScaler::<F>::min_max().fit(&DatasetBase::from(x.clone())).expect("scaler");
                let mut v: Vec<F> = m.offsets().to_vec();
                v.extend(m.scales().iter());
                v.extend(m.transform(q.clone()).iter());
                (v, vec![])
            }
            _ => {
                let lb = labels.mapv(|l| l == 1);
                let m = linfa_svm::Svm::<F, bool>::params().linear_kernel().fit(&Dataset::new(x.clone(), lb)).expect("svm");
                let mut v: Vec<F> = m.alpha.clone();
                v.push(m.rho);
                (v, m.predict(&q).iter().map(|b| *b as usize).collect())
            }
        };
        runs.push((vals, preds));
    }
    for r in &runs[1..] {
        same_vec("refit", &runs[0].0, &r.0);
        check_bool("refit: predictions and discrete learned quantities equal between two fits", runs[0].1 == r.1);
    }
    for v in &runs[0].0 {
        observe(*v);
    }
    for v in &runs[0].1 {
        observe_usize(*v);
    }
}
use rand::SeedableRng;

pub fn register(v: &mut Vec<HarnessDef>) {
    harness!(v, "c20.twice", "C20", twice,
        "fit the same symbolic data `reps` times from freshly constructed default builders (fresh hash maps / RNG clones): learned quantities are identical terms, predictions equal",
        ["KMeans::params (default seed) / KMeansValidParams::fit (rng cloned per fit) / KMeansInit::Random", "DecisionTree::fit", "GaussianNb / MultinomialNb fit + predict", "ElasticNet::fit", "LinearRegression::fit", "LinearScaler::fit", "Svm::fit (C-SVC, linear kernel)"],
        ["one rayon worker: thread schedules are outside the claim", "hash iteration orders as drawn in `reps` repetitions per path (random SipHash keys cannot be controlled)"]);
}

//! C11 — least-squares estimators return a minimiser of their documented objective.
//!
//! * `c11.ols`     `LinearRegression::fit` (QR): residual orthogonal to every column and to the ones column.
//! * `c11.enet`    `ElasticNet::fit` (coordinate descent): KKT in w, exact zeros, KKT in the intercept,
//!                 duality gap non-negative and an upper bound on the suboptimality in (w, b).
//! * `c11.mtenet`  `MultiTaskElasticNet::fit` (block coordinate descent), p = 1: group-lasso KKT, intercepts, gap.
//!
//! All outputs pass through divisions (and sqrt for QR / block soft thresholding): they are *rounded*
//! terms, so every obligation carries an absolute tolerance `TOL` (the IEEE error on the domain is
//! < 1e-12; the defects this check looks for are O(1)).
use crate::common::*;
use crate::harness;
use linfa::traits::Fit;
use linfa::Dataset;
use linfa_elasticnet::{ElasticNet, MultiTaskElasticNet};
use linfa_linear::LinearRegression;
use ndarray::{Array1, Array2};
use std::panic::{catch_unwind, resume_unwind, AssertUnwindSafe};

/// 2^-20 (dyadic, so that "exact term + TOL" stays exact)
const TOL: f64 = 9.5367431640625e-7;
/// 2^-16, for squared norms
const TOL2: f64 = 1.52587890625e-5;

fn fabs<F: Scalar>(x: F) -> F {
    num_traits::Float::abs(x)
}
/// Harness-side branches on exact input relations.  They do not restrict the domain; they split it into
/// more paths so that more concrete witnesses are evaluated where z3 cannot flip linfa's own
/// (non-linear, rounded) branch conditions.
fn diversify<F: Scalar>(v: &[F], k: usize) {
    let m = v.len();
    for i in 0..k.min(2 * m) {
        if i < m {
            let _ = v[i].s_lt(F::lit(0.0)).branch();
        } else {
            let _ = v[i - m].s_lt(v[(i - m + 1) % m]).branch();
        }
    }
}
/// Outputs are compared between the symbolic run's IEEE shadow and the native f64 run after rounding to
/// 2^-24: ndarray evaluates `dot` / `general_mat_mul` of f64 with matrixmultiply (other summation order, FMA)
/// and of other scalars with its generic loop, so rounded terms may differ in the last bits.
fn observe_q<F: Scalar>(v: F) {
    let q = 16777216.0;
    let x = v.shadow();
    observe(F::lit(if x.is_finite() { (x * q).round() / q + 0.0 } else { 0.0 })); // + 0.0: -0.0 -> 0.0
}
fn near<F: Scalar>(a: F, b: F, tol: f64) -> SymB {
    fabs(a - b).s_le(F::lit(tol))
}

/// n x p integer design and n integer targets; `centred` restricts the domain to zero-sum columns
fn data<F: Scalar>(n: usize, p: usize, b: i64, centred: bool) -> (Array2<F>, Array1<F>) {
    let mut x = Array2::from_elem((n, p), F::lit(0.0));
    for i in 0..n {
        for j in 0..p {
            x[(i, j)] = int::<F>(&format!("x{}_{}", i, j), -b, b);
        }
    }
    let y = Array1::from_iter((0..n).map(|i| int::<F>(&format!("y{}", i), -b, b)));
    if centred {
        for j in 0..p {
            let mut s = F::lit(0.0);
            for i in 0..n {
                s = s + x[(i, j)];
            }
            assume(s.s_eq(F::lit(0.0)));
        }
    }
    (x, y)
}

/// determinant by Laplace expansion (exact polynomial of the inputs; sizes <= 3)
fn det<F: Scalar>(m: &Vec<Vec<F>>) -> F {
    let k = m.len();
    if k == 1 {
        return m[0][0];
    }
    let mut d = F::lit(0.0);
    for c in 0..k {
        let minor: Vec<Vec<F>> = (1..k).map(|r| (0..k).filter(|cc| *cc != c).map(|cc| m[r][cc]).collect()).collect();
        let t = m[0][c] * det(&minor);
        d = if c % 2 == 0 { d + t } else { d - t };
    }
    d
}

/// Full column rank of the design (with the ones column when an intercept is fitted): some maximal minor is
/// non-zero (Cauchy-Binet: the Gram determinant is the sum of their squares).
fn full_rank<F: Scalar>(x: &Array2<F>, icpt: bool) -> SymB {
    let (n, p) = x.dim();
    let q = p + icpt as usize;
    let col = |i: usize, j: usize| if j < p { x[(i, j)] } else { F::lit(1.0) };
    let mut minors: Vec<SymB> = vec![];
    let mut rows: Vec<usize> = (0..q).collect();
    loop {
        let m: Vec<Vec<F>> = rows.iter().map(|&i| (0..q).map(|j| col(i, j)).collect()).collect();
        minors.push(det(&m).s_eq(F::lit(0.0)).not());
        // next q-subset of 0..n
        let mut k = q;
        while k > 0 && rows[k - 1] == n - q + k - 1 {
            k -= 1;
        }
        if k == 0 {
            break;
        }
        rows[k - 1] += 1;
        for t in k..q {
            rows[t] = rows[t - 1] + 1;
        }
    }
    SymB::any(&minors)
}

fn residual<F: Scalar>(x: &Array2<F>, y: &Array1<F>, w: &[F], b: F) -> Vec<F> {
    let (n, p) = x.dim();
    (0..n)
        .map(|i| {
            let mut r = y[i] - b;
            for j in 0..p {
                r = r - x[(i, j)] * w[j];
            }
            r
        })
        .collect()
}

// ------------------------------------------------------------------------------------------- OLS
fn ols<F: Scalar>(pr: &Params) {
    let (n, p, icpt, b) = (pr.u("n", 3), pr.u("p", 1), pr.u("icpt", 1) == 1, pr.get("B", 8));
    let mutate = pr.u("mut", 0);
    let (x, y) = data::<F>(n, p, b, false);
    // property: full column rank
    assume(full_rank(&x, icpt));
    let all: Vec<F> = x.iter().cloned().chain(y.iter().cloned()).collect();
    diversify(&all, pr.u("div", 0));
    let ds = Dataset::new(x.clone(), y.clone());
    let model = match LinearRegression::new().with_intercept(icpt).fit(&ds) {
        Ok(m) => m,
        Err(_) => {
            check_bool("ols.fit succeeds on full-column-rank data", false);
            return;
        }
    };
    let w: Vec<F> = model.params().to_vec();
    let mut b0 = model.intercept();
    check_bool("ols.one coefficient per feature", w.len() == p);
    if !icpt {
        check("ols.intercept is 0 when not fitted", b0.s_eq(F::lit(0.0)));
    }
    if mutate == 1 {
        b0 = b0 + F::lit(0.001);
    }
    let r = residual(&x, &y, &w, b0);
    for j in 0..p {
        let mut s = F::lit(0.0);
        for i in 0..n {
            s = s + x[(i, j)] * r[i];
        }
        check("ols.residual orthogonal to every feature column", near(s, F::lit(0.0), TOL));
    }
    if icpt {
        let mut s = F::lit(0.0);
        for i in 0..n {
            s = s + r[i];
        }
        check("ols.residual orthogonal to the constant column", near(s, F::lit(0.0), TOL));
    }
    for v in &w {
        observe_q(*v);
    }
    observe_q(b0);
}

// ------------------------------------------------------------------------------------ elastic net
/// obligation groups selected by the bit mask `ob`
const OB_KKT_W: usize = 1;
const OB_ZERO: usize = 2;
const OB_GAP_SIGN: usize = 4;
const OB_ICPT: usize = 8;
const OB_GAP_BOUND: usize = 16;
const OB_FINITE: usize = 32;

fn enet<F: Scalar>(pr: &Params) {
    let (n, p, icpt, b) = (pr.u("n", 2), pr.u("p", 1), pr.u("icpt", 1) == 1, pr.get("B", 8));
    // penalty = pen/8, l1_ratio = l1/4 (dyadic), tolerance = 2^-tolk
    let pen = pr.get("pen", 0) as f64 / 8.0;
    let l1 = pr.get("l1", 2) as f64 / 4.0;
    let iters = pr.get("iters", 4) as u32;
    let tolk = pr.get("tolk", 10) as i32;
    let centred = pr.u("centred", 0) == 1;
    let ob = pr.u("ob", 31);
    let mutate = pr.u("mut", 0);
    let (x, y) = data::<F>(n, p, b, centred);
    // perturbation of the returned point for the "gap bounds the suboptimality" obligation
    let pb = pr.get("PB", 16);
    let dw: Vec<F> = (0..p).map(|j| grid::<F>(&format!("dw{}", j), pb, 2)).collect();
    let db = if icpt { grid::<F>("db", pb, 2) } else { F::lit(0.0) };
    let all: Vec<F> = x.iter().cloned().chain(y.iter().cloned()).collect();
    diversify(&all, pr.u("div", 0));

    let ds = Dataset::new(x.clone(), y.clone());
    let model = ElasticNet::<F>::params()
        .penalty(F::lit(pen))
        .l1_ratio(F::lit(l1))
        .with_intercept(icpt)
        .max_iterations(iters)
        .tolerance(F::lit((2.0f64).powi(-tolk)))
        .fit(&ds)
        .expect("elastic net fit");
    let mut w: Vec<F> = model.hyperplane().to_vec();
    let mut b0 = model.intercept();
    let mut gap = model.duality_gap();
    check_bool("enet.one coefficient per feature", w.len() == p);
    if !icpt {
        check("enet.intercept is 0 when not fitted", b0.s_eq(F::lit(0.0)));
    }
    match mutate {
        1 => w[0] = w[0] + F::lit(0.001),
        2 => b0 = b0 + F::lit(0.001),
        3 => gap = gap - F::lit(0.01),
        4 => w[0] = w[0] + F::lit(TOL2), // breaks only the exact-zero obligation (and KKT by 1e-5*|x|^2)
        _ => {}
    }
    let nf = F::lit(n as f64);
    let t1 = F::lit(n as f64 * pen * l1); // n * penalty * l1_ratio
    let t2 = F::lit(n as f64 * pen * (1.0 - l1)); // n * penalty * (1 - l1_ratio)
    let r = residual(&x, &y, &w, b0);
    let zero = F::lit(0.0);

    // the last coordinate is exact after every sweep; the others only at convergence (p = 1: always)
    let exact_coords: Vec<usize> = if p == 1 { vec![0] } else { vec![p - 1] };
    for &j in &exact_coords {
        let mut g = zero; // x_j . r
        let mut nrm = zero;
        for i in 0..n {
            g = g + x[(i, j)] * r[i];
            nrm = nrm + x[(i, j)] * x[(i, j)];
        }
        let s = g - t2 * w[j]; // must lie in t1 * subdifferential(|w_j|)
        if ob & OB_KKT_W != 0 {
            let pos = zero.s_lt(w[j]).implies(near(s, t1, TOL));
            let neg = w[j].s_lt(zero).implies(near(s, -t1, TOL));
            let zer = w[j].s_eq(zero).implies(fabs(s).s_le(t1 + F::lit(TOL)));
            check("enet.KKT in w (soft-threshold stationarity)", SymB::all(&[pos, neg, zer]));
        }
        if ob & OB_ZERO != 0 {
            // partial-residual correlation rho_j = x_j.(r + x_j w_j); under the l1 threshold => w_j == 0 exactly
            let rho = g + nrm * w[j];
            check("enet.coefficient under the l1 threshold is exactly zero", (fabs(rho) + F::lit(TOL)).s_le(t1).implies(w[j].s_eq(zero)));
        }
    }
    if ob & OB_GAP_SIGN != 0 {
        check("enet.duality gap is non-negative", F::lit(-TOL).s_le(gap));
    }
    if icpt && ob & OB_ICPT != 0 {
        let mut s = zero;
        for i in 0..n {
            s = s + r[i];
        }
        check("enet.intercept stationarity (mean residual zero)", near(s, zero, TOL));
    }
    if ob & OB_GAP_BOUND != 0 {
        // n * objective at (w,b) and at the perturbed point; `duality_gap()` is on the same n-scaled objective
        let obj = |w: &[F], b: F| {
            let r = residual(&x, &y, w, b);
            let mut s = zero;
            for i in 0..n {
                s = s + r[i] * r[i];
            }
            let mut o = s / F::lit(2.0);
            for j in 0..p {
                o = o + t1 * fabs(w[j]) + t2 * w[j] * w[j] / F::lit(2.0);
            }
            o
        };
        let w2: Vec<F> = (0..p).map(|j| w[j] + dw[j]).collect();
        let lowered = obj(&w, b0) - obj(&w2, b0 + db);
        check("enet.no perturbation of (w,b) lowers the objective by more than the duality gap", lowered.s_le(gap + F::lit(TOL)));
    }
    let _ = nf;
    for v in &w {
        observe_q(*v);
    }
    observe_q(b0);
    observe_q(gap);
    observe_usize(model.n_steps() as usize);
}

// ------------------------------------------------------------------------- multi-task elastic net
fn mtenet<F: Scalar>(pr: &Params) {
    let (n, icpt, b) = (pr.u("n", 2), pr.u("icpt", 1) == 1, pr.get("B", 8));
    let tasks = 2usize;
    let pen = pr.get("pen", 0) as f64 / 8.0;
    let l1 = pr.get("l1", 2) as f64 / 4.0;
    let iters = pr.get("iters", 4) as u32;
    let tolk = pr.get("tolk", 10) as i32;
    let centred = pr.u("centred", 0) == 1;
    let ob = pr.u("ob", 47);
    let mutate = pr.u("mut", 0);
    // `p` > 1: several (possibly correlated) features; only finiteness and the sign of the duality gap are
    // demanded then (the group-lasso KKT obligations below are written for one feature)
    let pfeat = pr.u("p", 1);
    let mut x = Array2::from_elem((n, pfeat), F::lit(0.0));
    for i in 0..n {
        x[(i, 0)] = int::<F>(&format!("x{}", i), -b, b);
        for j in 1..pfeat {
            x[(i, j)] = int::<F>(&format!("x{}_{}", i, j), -b, b);
        }
    }
    let mut y = Array2::from_elem((n, tasks), F::lit(0.0));
    for i in 0..n {
        for t in 0..tasks {
            y[(i, t)] = int::<F>(&format!("y{}_{}", i, t), -b, b);
        }
    }
    if centred {
        let mut s = F::lit(0.0);
        for i in 0..n {
            s = s + x[(i, 0)];
        }
        assume(s.s_eq(F::lit(0.0)));
    }
    // `orth` = 1 (p = 2): the two feature columns are orthogonal, so one sweep of block coordinate descent is
    // exact for every row and the returned point must satisfy the group-lasso KKT conditions in EVERY feature row
    let orth = pr.u("orth", 0) == 1 && pfeat == 2;
    if orth {
        let mut d = F::lit(0.0);
        for i in 0..n {
            d = d + x[(i, 0)] * x[(i, 1)];
        }
        assume(d.s_eq(F::lit(0.0)));
    }
    let all: Vec<F> = x.iter().cloned().chain(y.iter().cloned()).collect();
    diversify(&all, pr.u("div", 0));
    let ds = Dataset::new(x.clone(), y.clone());
    let params = MultiTaskElasticNet::<F>::params()
        .penalty(F::lit(pen))
        .l1_ratio(F::lit(l1))
        .with_intercept(icpt)
        .max_iterations(iters)
        .tolerance(F::lit((2.0f64).powi(-tolk)));
    // A division by a term that is zero on this path aborts the symbolic run (no real-arithmetic meaning);
    // IEEE yields NaN/inf there.  It is reported under the finiteness obligation, which the concrete replay
    // of the same input then confirms (or not) on the values linfa really returns.
    let model = match catch_unwind(AssertUnwindSafe(|| params.fit(&ds))) {
        Ok(m) => m.expect("multi-task elastic net fit"),
        Err(p) => {
            if let Some(symx::Abort::DivByZero) = p.downcast_ref::<symx::Abort>() {
                if ob & OB_FINITE != 0 {
                    check_bool("mtenet.coefficients, intercepts and gap are finite", false);
                }
                return;
            }
            resume_unwind(p)
        }
    };
    let hp = model.hyperplane();
    let finite = hp.iter().chain(model.intercept().iter()).all(|v| num_traits::Float::is_finite(*v)) && num_traits::Float::is_finite(model.duality_gap());
    if ob & OB_FINITE != 0 {
        check_bool("mtenet.coefficients, intercepts and gap are finite", finite);
    }
    if !finite {
        return;
    }
    check_bool("mtenet.hyperplane is (features x tasks)", hp.dim() == (pfeat, tasks));
    if pfeat > 1 {
        if ob & OB_GAP_SIGN != 0 {
            check("mtenet.duality gap is non-negative", F::lit(-TOL).s_le(model.duality_gap()));
        }
        if orth && !icpt && ob & OB_KKT_W != 0 {
            let zero = F::lit(0.0);
            let t1 = F::lit(n as f64 * pen * l1);
            let t2 = F::lit(n as f64 * pen * (1.0 - l1));
            // residual per task at the returned point
            let r: Vec<Vec<F>> = (0..tasks)
                .map(|t| (0..n).map(|i| y[(i, t)] - x[(i, 0)] * hp[(0, t)] - x[(i, 1)] * hp[(1, t)]).collect())
                .collect();
            for j in 0..pfeat {
                let wj = [hp[(j, 0)], hp[(j, 1)]];
                let s: Vec<F> = (0..tasks)
                    .map(|t| {
                        let mut g = zero;
                        for i in 0..n {
                            g = g + x[(i, j)] * r[t][i];
                        }
                        g - t2 * wj[t]
                    })
                    .collect();
                let s_n2 = s[0] * s[0] + s[1] * s[1];
                let w_is0 = wj[0].s_eq(zero).and(wj[1].s_eq(zero));
                let cross = s[0] * wj[1] - s[1] * wj[0];
                let dot = s[0] * wj[0] + s[1] * wj[1];
                let nonzero = SymB::all(&[near(cross, zero, TOL), F::lit(-TOL).s_le(dot), near(s_n2, t1 * t1, TOL2)]);
                let atzero = s_n2.s_le(t1 * t1 + F::lit(TOL2));
                check("mtenet.KKT in every row of W on an orthogonal design", w_is0.implies(atzero).and(w_is0.not().implies(nonzero)));
            }
        }
        observe(model.duality_gap());
        return;
    }
    let mut w: Vec<F> = (0..tasks).map(|t| hp[(0, t)]).collect();
    let b0: Vec<F> = model.intercept().to_vec();
    let mut gap = model.duality_gap();
    match mutate {
        1 => w[0] = w[0] + F::lit(0.001),
        3 => gap = gap - F::lit(0.01),
        _ => {}
    }
    let zero = F::lit(0.0);
    let t1 = F::lit(n as f64 * pen * l1);
    let t2 = F::lit(n as f64 * pen * (1.0 - l1));
    // residual per task
    let r: Vec<Vec<F>> = (0..tasks).map(|t| (0..n).map(|i| y[(i, t)] - x[(i, 0)] * w[t] - b0[t]).collect()).collect();
    // s_t = x . r_t - t2 * w_t  must be  t1 * w/||w||  (w != 0)  or  ||s|| <= t1  (w == 0)
    let s: Vec<F> = (0..tasks)
        .map(|t| {
            let mut g = zero;
            for i in 0..n {
                g = g + x[(i, 0)] * r[t][i];
            }
            g - t2 * w[t]
        })
        .collect();
    let s_n2 = s[0] * s[0] + s[1] * s[1];
    let w_is0 = w[0].s_eq(zero).and(w[1].s_eq(zero));
    if ob & OB_KKT_W != 0 {
        let cross = s[0] * w[1] - s[1] * w[0];
        let dot = s[0] * w[0] + s[1] * w[1];
        let nonzero = SymB::all(&[near(cross, zero, TOL), F::lit(-TOL).s_le(dot), near(s_n2, t1 * t1, TOL2)]);
        let atzero = s_n2.s_le(t1 * t1 + F::lit(TOL2));
        check("mtenet.KKT in W (block soft-threshold stationarity)", w_is0.implies(atzero).and(w_is0.not().implies(nonzero)));
    }
    if ob & OB_ZERO != 0 {
        // partial-residual correlation under the threshold => the whole row is exactly zero
        let mut nrm = zero;
        for i in 0..n {
            nrm = nrm + x[(i, 0)] * x[(i, 0)];
        }
        // rho_t = x.(r_t + x w_t) = s_t + t2 w_t + nrm w_t
        let rho: Vec<F> = (0..tasks).map(|t| s[t] + t2 * w[t] + nrm * w[t]).collect();
        let rho_n2 = rho[0] * rho[0] + rho[1] * rho[1];
        check("mtenet.row under the l1 threshold is exactly zero", (rho_n2 + F::lit(TOL2)).s_le(t1 * t1).implies(w_is0));
    }
    if ob & OB_GAP_SIGN != 0 {
        check("mtenet.duality gap is non-negative", F::lit(-TOL).s_le(gap));
    }
    if icpt && ob & OB_ICPT != 0 {
        for t in 0..tasks {
            let mut sr = zero;
            for i in 0..n {
                sr = sr + r[t][i];
            }
            check("mtenet.intercept stationarity (mean residual zero per task)", near(sr, zero, TOL));
        }
    }
    for t in 0..tasks {
        observe_q(w[t]);
        observe_q(b0[t]);
    }
    observe_q(gap);
}

pub fn register(v: &mut Vec<HarnessDef>) {
    harness!(v, "c11.ols", "C11", ols,
        "LinearRegression::fit on symbolic integer data: residual orthogonal to every feature column and to the ones column",
        ["linfa_linear::LinearRegression::fit", "linfa_linear::ols::solve_least_squares", "linfa_linalg::qr::{QRInto::qr_into, QRDecomp::solve_into, qt_mul, is_invertible}", "linfa_linalg::householder::{clear_column, reflection_axis_mut}", "linfa_linalg::triangular::solve_triangular_system", "linfa_linear::FittedLinearRegression::{params, intercept}"],
        ["features and targets are integers in [-B,B]", "full column rank: some maximal minor of the (augmented) design != 0", "outputs are rounded terms (sqrt, /): obligations carry an absolute tolerance 2^-20"]);
    harness!(v, "c11.enet", "C11", enet,
        "ElasticNet::fit (coordinate descent) on symbolic integer data, concrete dyadic penalty / l1_ratio: KKT in w, exact zeros, intercept stationarity, duality gap >= 0 and >= suboptimality",
        ["linfa_elasticnet::ElasticNetValidParams::fit", "linfa_elasticnet::algorithm::{compute_intercept, coordinate_descent, duality_gap, variance_params}", "linfa_elasticnet::ElasticNet::{hyperplane, intercept, duality_gap, n_steps}", "linfa_elasticnet::ElasticNetParams::{penalty, l1_ratio, with_intercept, max_iterations, tolerance, check_ref}"],
        ["features and targets are integers in [-B,B]; perturbations dw, db on the 1/4-grid, |.| <= PB/4", "centred=1: every feature column sums to zero", "p = 2: KKT in w / exact zero are demanded for the last coordinate of a sweep only (the others hold at convergence)", "outputs are rounded terms (/): obligations carry an absolute tolerance 2^-20"]);
    harness!(v, "c11.mtenet", "C11", mtenet,
        "MultiTaskElasticNet::fit (block coordinate descent), 2 tasks, 1 feature: finite output, group-lasso KKT, exact zero row, intercepts, duality gap >= 0",
        ["linfa_elasticnet::MultiTaskElasticNetValidParams::fit", "linfa_elasticnet::algorithm::{compute_intercept, block_coordinate_descent, block_soft_thresholding, duality_gap_mtl, variance_params}", "linfa_elasticnet::MultiTaskElasticNet::{hyperplane, intercept, duality_gap}"],
        ["features and targets are integers in [-B,B]", "centred=1: the feature column sums to zero", "p=2, orth=1: the two feature columns are orthogonal (sum_i x_i0*x_i1 = 0); KKT is then demanded in every row of W", "outputs are rounded terms (sqrt, /): tolerances 2^-20 (2^-16 on squared norms)"]);
}

//! C14 — a fitted decision tree is a well-formed binary partition that honours its hyper-parameters,
//! routes training rows consistently and predicts (weighted) leaf majorities; plus the tree part of
//! C20 (results must not depend on `HashMap` iteration order).
//!
//! Features are symbolic integers; labels and sample weights are resolved to concrete values on the
//! path (solver-chosen, or fixed by `pattern` / `wpat`), because linfa keeps class weights in a
//! `HashMap<L, f32>`.  The oracle walks the tree through the public accessors and recomputes
//! everything from the training rows routed by the documented rule `feature <= split value -> left`.
use crate::common::*;
use crate::harness;
use linfa::prelude::*;
use linfa::Label;
use linfa_trees::{DecisionTree, SplitQuality, TreeNode};
use ndarray::{Array1, Array2};
use std::collections::BTreeSet;

#[derive(Clone, Debug)]
struct Cfg {
    n: usize,
    d: usize,
    classes: usize,
    crit: usize,
    depth: Option<usize>,
    mws: f32,
    mwl: f32,
    mid: f64,
    /// hidden: perturbs one oracle (never set by the registry) to show that the obligation can fail
    mutant: i64,
    /// hidden: demand min_weight_split in training *weight* (doc of the setter) instead of samples (C14 text)
    wsplit: bool,
}

fn cfg(p: &Params) -> Cfg {
    let depth = p.get("depth", -1);
    Cfg {
        n: p.u("n", 3),
        d: p.u("d", 1),
        classes: p.u("classes", 2),
        crit: p.u("crit", 0),
        depth: if depth < 0 { None } else { Some(depth as usize) },
        mws: p.get("mws4", 8) as f32 / 4.0,
        mwl: p.get("mwl4", 4) as f32 / 4.0,
        mid: p.get("mid_e6", 10) as f64 * 1e-6,
        mutant: p.get("mut", 0),
        wsplit: p.get("wsplit", 0) == 1,
    }
}

struct Data<F> {
    x: Array2<F>,
    y: Vec<usize>,
    /// `None`: dataset without sample weights
    w: Option<Vec<f32>>,
}
impl<F> Data<F> {
    fn weight(&self, i: usize) -> f64 {
        self.w.as_ref().map(|w| w[i] as f64).unwrap_or(1.0)
    }
}

/// make a small integer input concrete on the path
fn pick<F: Scalar>(v: F, n: usize) -> usize {
    for k in 0..n.saturating_sub(1) {
        if v == F::lit(k as f64) {
            return k;
        }
    }
    n.saturating_sub(1)
}

fn digits(mut code: i64, base: usize, n: usize) -> Vec<usize> {
    (0..n)
        .map(|_| {
            let r = (code % base as i64) as usize;
            code /= base as i64;
            r
        })
        .collect()
}

/// features: symbolic integers in [-B,B] (`adj=e`: concrete neighbouring doubles 2^e + i ulp instead); labels: `pattern >= 0` = digits base `classes`, `-1` = chosen by
/// the solver (every pattern is reached on some path; `canon=1` keeps one representative per renaming of the
/// classes); weights: `wpat = -1` none, `-2` chosen by the solver in wlo..wlo+wmax-1, `>= 0` digits base wmax.
fn inputs<F: Scalar>(p: &Params, c: &Cfg) -> Data<F> {
    let b = p.get("B", 1024);
    let mut x = Array2::from_elem((c.n, c.d), F::lit(0.0));
    let adj = p.get("adj", -1);
    for i in 0..c.n {
        for j in 0..c.d {
            x[(i, j)] = if adj >= 0 {
                // concrete neighbouring doubles 2^adj + i ulp: the midpoint of two neighbours is not representable
                // (outside the exact grid of the symbolic engine, so these instances are concrete: one path per labelling)
                let base = 2f64.powi(adj as i32);
                let ulp = f64::from_bits(base.to_bits() + 1) - base;
                F::lit(base + i as f64 * ulp)
            } else if p.get("xseq", 0) == 1 {
                // concrete distinct features (one path): larger nodes than the solver could explore symbolically
                F::lit(((i * 5 + j * 7 + 3) % c.n.max(1)) as f64 + j as f64 * 0.5)
            } else {
                int::<F>(&format!("x{}_{}", i, j), -b, b)
            };
        }
    }
    let pattern = p.get("pattern", -1);
    let wpat = p.get("wpat", -1);
    let (wmax, wlo) = (p.u("wmax", 2), p.get("wlo", 1));
    let wdiv = p.get("wdiv", 1) as f32;
    let ysym: Vec<F> = if pattern < 0 && pattern != -3 { (0..c.n).map(|i| int::<F>(&format!("y{}", i), 0, c.classes as i64 - 1)).collect() } else { vec![] };
    let wsym: Vec<F> = if wpat == -2 { (0..c.n).map(|i| int::<F>(&format!("w{}", i), 0, wmax as i64 - 1)).collect() } else { vec![] };
    if p.get("distinct", 0) == 1 {
        for j in 0..c.d {
            for i in 0..c.n {
                for k in i + 1..c.n {
                    assume(x[(i, j)].s_eq(x[(k, j)]).not());
                }
            }
        }
    }
    // pattern = -3 / wpat = -3: labels / weights from a small generator seeded with `wseed`
    let mut lcg = (p.get("wseed", 0) as u64).wrapping_mul(0x9E3779B97F4A7C15).wrapping_add(0x1234567);
    let mut draw = |m: usize| -> usize {
        lcg = lcg.wrapping_mul(6364136223846793005).wrapping_add(1442695040888963407);
        ((lcg >> 33) % m as u64) as usize
    };
    let ysym: Vec<F> = if pattern == -3 { vec![] } else { ysym };
    let y: Vec<usize> = if pattern == -3 {
        (0..c.n).map(|i| if i < c.classes { i } else { draw(c.classes) }).collect()
    } else if pattern < 0 {
        ysym.iter().map(|v| pick(*v, c.classes)).collect()
    } else {
        digits(pattern, c.classes, c.n)
    };
    if pattern < 0 && p.get("canon", 0) == 1 {
        // restricted growth string: class k+1 appears only after class k
        let mut top = 0;
        let mut ok = true;
        for &v in &y {
            if v > top {
                ok = false;
            }
            if v == top {
                top += 1;
            }
        }
        assume_bool(ok);
    }
    let w = match wpat {
        -1 => None,
        -3 => Some((0..c.n).map(|_| (wlo + draw(wmax) as i64) as f32 / wdiv).collect()),
        // `wdiv` > 1 gives fractional (non-dyadic for wdiv = 10) f32 weights: sums of them depend on the order
        -2 => Some(wsym.iter().map(|v| (wlo + pick(*v, wmax) as i64) as f32 / wdiv).collect()),
        code => Some(digits(code, wmax, c.n).into_iter().map(|k| (wlo + k as i64) as f32 / wdiv).collect()),
    };
    Data { x, y, w }
}

fn fit_tree<F: Scalar, L: Label>(c: &Cfg, d: &Data<F>, labels: &[L]) -> DecisionTree<F, L> {
    let mut ds = DatasetBase::new(d.x.clone(), Array1::from(labels.to_vec()));
    if let Some(w) = &d.w {
        ds = ds.with_weights(Array1::from(w.clone()));
    }
    DecisionTree::<F, L>::params()
        .split_quality(if c.crit == 0 { SplitQuality::Gini } else { SplitQuality::Entropy })
        .max_depth(c.depth)
        .min_weight_split(c.mws)
        .min_weight_leaf(c.mwl)
        .min_impurity_decrease(F::lit(c.mid))
        .fit(&ds)
        .expect("fit with valid hyper-parameters")
}

/// impurity of a vector of class weights, in f64 from the definition
fn impurity(crit: usize, cw: &[f64]) -> f64 {
    let tot: f64 = cw.iter().sum();
    if tot <= 0.0 {
        return 0.0;
    }
    if crit == 0 {
        1.0 - cw.iter().map(|w| (w / tot) * (w / tot)).sum::<f64>()
    } else {
        cw.iter().map(|w| w / tot).map(|q| if q > 0.0 { -q * q.log2() } else { 0.0 }).sum()
    }
}

struct Leaf {
    rows: Vec<usize>,
    /// class index of the prediction (None: not one of the classes of the harness)
    pred: Option<usize>,
}

/// Walk of a fitted tree from `root_node()` with the training rows routed by `feature <= split -> left`.
struct Walk<'a, F, L> {
    c: &'a Cfg,
    d: &'a Data<F>,
    class_labels: Vec<L>,
    /// emit the C14 obligations (false: only collect)
    checks: bool,
    nodes: Vec<(*const TreeNode<F, L>, usize)>,
    leaves: Vec<Leaf>,
    row_leaf: Vec<Option<usize>>,
    splits: Vec<(usize, F, F)>,
    /// some leaf has two classes of maximal weight
    tied_leaf: bool,
    /// every leaf is a leaf for a reason that no tie-break can change (pure / depth limit / too few rows) and has
    /// a unique modal class: then every fit of this data, whatever the hash order, returns this very tree
    stable: bool,
    wellformed: bool,
    /// canonical description for tree-to-tree comparison
    desc: Vec<(String, bool, Option<usize>, usize, F, F)>,
}

impl<'a, F: Scalar, L: Label> Walk<'a, F, L> {
    fn new(c: &'a Cfg, d: &'a Data<F>, class_labels: Vec<L>, checks: bool) -> Self {
        Walk { c, d, class_labels, checks, nodes: vec![], leaves: vec![], row_leaf: vec![None; c.n], splits: vec![], tied_leaf: false, stable: true, wellformed: true, desc: vec![] }
    }
    fn ck(&self, name: &str, ok: bool) {
        if self.checks {
            check_bool(name, ok);
        }
    }
    fn class_weights(&self, rows: &[usize]) -> Vec<f64> {
        let mut cw = vec![0.0; self.c.classes];
        for &i in rows {
            cw[self.d.y[i]] += self.d.weight(i);
        }
        cw
    }
    fn visit(&mut self, node: &TreeNode<F, L>, rows: Vec<usize>, depth: usize, path: String) {
        let c = self.c;
        let m = c.mutant;
        self.nodes.push((node as *const _, depth));
        self.ck("c14.node.depth() is the distance from the root", node.depth() == depth + (m == 9) as usize);
        if let Some(md) = c.depth {
            self.ck("c14.no node is deeper than max_depth", if m == 1 { depth < md } else { depth <= md });
        }
        let kids = node.children();
        let (l, r) = (kids[0].as_deref(), kids[1].as_deref());
        let (f, s, dec) = node.split();
        if node.is_leaf() {
            let pred = node.prediction();
            self.ck("c14.a leaf has no children and carries a prediction", (l.is_none() || m == 10) && r.is_none() && pred.is_some() && kids.len() == 2 && m != 10);
            if l.is_some() || r.is_some() {
                self.wellformed = false;
            }
            let k = pred.and_then(|pl| self.class_labels.iter().position(|x| *x == pl));
            let seen = k.map(|k| self.d.y.iter().any(|&v| v == k && (m != 7 || v == 0))).unwrap_or(false);
            self.ck("c14.only labels seen in training are predicted", seen);
            let cw = self.class_weights(&rows);
            let top = cw.iter().cloned().fold(f64::MIN, f64::max);
            let modal = !rows.is_empty() && k.map(|k| if m == 6 { cw[k] >= top + 1.0 } else { cw[k] >= top }).unwrap_or(false);
            self.ck("c14.a leaf predicts a (weighted) most frequent label of the training rows reaching it", modal);
            let n_top = cw.iter().filter(|v| **v == top).count();
            if n_top > 1 {
                self.tied_leaf = true;
            }
            let pure = cw.iter().filter(|v| **v > 0.0).count() <= 1;
            let forced = pure || c.depth.map(|md| depth >= md).unwrap_or(false) || (rows.len() as f32) < c.mws;
            if n_top > 1 || !forced {
                self.stable = false;
            }
            for &i in &rows {
                self.row_leaf[i] = Some(self.leaves.len());
            }
            self.desc.push((path, true, k, 0, F::lit(0.0), F::lit(0.0)));
            self.leaves.push(Leaf { rows, pred: k });
            return;
        }
        self.ck("c14.a split node has two children and no prediction", l.is_some() && r.is_some() && node.prediction().is_none() && kids.len() == 2 && m != 11);
        self.ck("c14.split feature index is a column of the training matrix", (f + (m == 12) as usize) < c.d);
        self.desc.push((path.clone(), false, None, f, s, dec));
        let (l, r) = match (l, r) {
            (Some(l), Some(r)) if f < c.d => (l, r),
            _ => {
                self.wellformed = false;
                return;
            }
        };
        self.splits.push((f, s, dec));
        // min_weight_split: C14 says "training samples" (what fit compares); the setter's doc says weight
        let reached = if c.wsplit { rows.iter().map(|&i| self.d.weight(i)).sum::<f64>() as f32 } else { rows.len() as f32 };
        self.ck("c14.a split node was reached by at least min_weight_split training samples", if m == 2 { reached >= c.mws + 1.0 } else { reached >= c.mws });
        // documented routing of the training rows (DecisionTree doc: `feature <= split value` falls left)
        let (mut lr, mut rr) = (vec![], vec![]);
        for &i in &rows {
            if self.d.x[(i, f)] <= s {
                lr.push(i);
            } else {
                rr.push(i);
            }
        }
        let (cwp, cwl, cwr) = (self.class_weights(&rows), self.class_weights(&lr), self.class_weights(&rr));
        let (wp, wl, wr): (f64, f64, f64) = (cwp.iter().sum(), cwl.iter().sum(), cwr.iter().sum());
        let need = if m == 3 { c.mwl + 1.0 } else { c.mwl };
        self.ck("c14.a split leaves at least min_weight_leaf of training weight on each side", wl as f32 >= need && wr as f32 >= need);
        if self.checks {
            let children = if m == 4 { 0.5 * impurity(c.crit, &cwl) + 0.5 * impurity(c.crit, &cwr) } else { (wl / wp) * impurity(c.crit, &cwl) + (wr / wp) * impurity(c.crit, &cwr) };
            let actual = impurity(c.crit, &cwp) - children;
            // linfa evaluates the criterion in f32 (class weights are f32): compare with an f32-sized tolerance
            let diff = num_traits::Float::abs(dec - F::lit(actual));
            check("c14.the reported impurity decrease is the actual decrease of the chosen criterion", diff.s_le(F::lit(1e-5)));
            let floor = if m == 5 { c.mid + 0.3 } else { c.mid };
            check("c14.the reported impurity decrease is at least min_impurity_decrease", F::lit(floor).s_le(dec));
        }
        self.visit(l, lr, depth + 1, format!("{}L", path));
        self.visit(r, rr, depth + 1, format!("{}R", path));
    }
}

/// the C14 obligations for one label type
fn tree_checks<F: Scalar, L: Label>(p: &Params, mk: impl Fn(usize) -> L) {
    let c = cfg(p);
    let d = inputs::<F>(p, &c);
    let class_labels: Vec<L> = (0..c.classes).map(&mk).collect();
    let labels: Vec<L> = d.y.iter().map(|&k| mk(k)).collect();
    let tree = if c.mwl > 0.0 {
        fit_tree(&c, &d, &labels)
    } else {
        // the parameter guard accepts min_weight_leaf <= 0 ("no minimum"): fit must still return a tree
        match std::panic::catch_unwind(std::panic::AssertUnwindSafe(|| fit_tree(&c, &d, &labels))) {
            Ok(t) => t,
            Err(e) => {
                if e.downcast_ref::<symx::Abort>().is_some() {
                    std::panic::resume_unwind(e);
                }
                check_bool("c14.fit returns a tree when min_weight_leaf is 0 (the parameter guard accepts it)", false);
                return;
            }
        }
    };
    let mut w = Walk::new(&c, &d, class_labels.clone(), true);
    w.visit(tree.root_node(), (0..c.n).collect(), 0, String::new());

    // accessors agree with the tree reachable from root_node()
    let it: Vec<&TreeNode<F, L>> = tree.iter_nodes().collect();
    let mut level_order = it.len() == w.nodes.len() + (c.mutant == 19) as usize;
    let mut last = 0;
    for nd in &it {
        match w.nodes.iter().find(|(q, _)| *q == *nd as *const _) {
            Some((_, dp)) => {
                if *dp < last {
                    level_order = false;
                }
                last = *dp;
            }
            None => level_order = false,
        }
    }
    if w.wellformed {
        check_bool("c14.iter_nodes visits every node once, level by level", level_order);
        check_bool("c14.num_leaves counts the leaves", tree.num_leaves() == w.leaves.len() + (c.mutant == 15) as usize);
        check_bool("c14.max_depth() is the depth of the deepest node", tree.max_depth() == w.nodes.iter().map(|x| x.1).max().unwrap_or(0) + (c.mutant == 17) as usize);
        let used: BTreeSet<usize> = w.splits.iter().map(|s| s.0).collect();
        let rep = tree.features();
        check_bool("c14.features() lists exactly the split features", rep.iter().cloned().collect::<BTreeSet<usize>>() == used && rep.len() == used.len() + (c.mutant == 18) as usize);
    }

    // prediction of the training rows through the real predict
    let pred = tree.predict(&d.x);
    check_bool("c14.predict returns one label per row", pred.len() == c.n + (c.mutant == 21) as usize);
    if w.wellformed && pred.len() == c.n {
        for i in 0..c.n {
            let want = w.row_leaf[i].and_then(|q| w.leaves[q].pred);
            let got = class_labels.iter().position(|x| *x == pred[i]);
            let ok = want.is_some() && if c.mutant == 8 { got != want } else { got == want };
            check_bool("c14.predict sends every training row to the label of the leaf it was routed to while fitting", ok);
        }
    }

    // rep > 1: the training rows again inside a larger batch (each row `rep` times, rotated by one): batch sizes
    // beyond what the symbolic training set has
    let rep = p.u("rep", 1);
    if rep > 1 && w.wellformed {
        let m = c.n * rep;
        let big = Array2::from_shape_fn((m, c.d), |(r, j)| d.x[((r + 1) % c.n, j)]);
        let pb = tree.predict(&big);
        check_bool("c14.predict returns one label per row (large batch)", pb.len() == m);
        for r in 0..m.min(pb.len()) {
            let want = w.row_leaf[(r + 1) % c.n].and_then(|q| w.leaves[q].pred);
            let got = class_labels.iter().position(|x| *x == pb[r]);
            check_bool("c14.predict sends every training row to the label of the leaf it was routed to while fitting (large batch)", want.is_some() && got == want);
        }
    }

    // importances
    if !w.splits.is_empty() {
        let imp = tree.feature_importance();
        check_bool("c14.one importance per feature", imp.len() == c.d + (c.mutant == 22) as usize);
        let mut sum = F::lit(0.0);
        for v in &imp {
            check("c14.feature importances are non-negative", F::lit(if c.mutant == 14 { 0.75 } else { 0.0 }).s_le(*v));
            sum = sum + *v;
        }
        let target = if c.mutant == 16 { 0.5 } else { 1.0 };
        check("c14.feature importances sum to one when the tree has a split", num_traits::Float::abs(sum - F::lit(target)).s_le(F::lit(1e-9)));
    }

    // outputs for the differential f64 run: only when no tie-break can have influenced the tree
    // (the tree then is the same for every hash order, see `Walk::stable`)
    if w.stable && w.wellformed {
        observe_usize(w.nodes.len());
        for (f, s, _) in &w.splits {
            observe_usize(*f);
            observe(*s);
        }
        for i in 0..c.n {
            observe_usize(class_labels.iter().position(|x| *x == pred[i]).unwrap_or(99));
        }
    }
}

fn tree<F: Scalar>(p: &Params) {
    match p.u("ltype", 0) {
        0 => tree_checks::<F, usize>(p, |k| k),
        1 => tree_checks::<F, bool>(p, |k| k == 1),
        _ => tree_checks::<F, String>(p, |k| format!("class-{}", k)),
    }
}

// ---------------------------------------------------------------------------------------------
// C20, tree part: the same data fitted several times (every fit builds fresh `HashMap`s, i.e. fresh
// SipHash keys, exactly like fresh processes do) must give the same tree and predictions.
#[derive(Clone, Copy, PartialEq)]
enum Role {
    /// inputs on which no fitted tree has a leaf with tied classes: structure, thresholds, predictions
    Untied,
    /// the same, plus impurity decreases and importances bit for bit
    UntiedBits,
    /// inputs on which some fitted tree has a leaf with tied classes
    Tied,
}

fn refit<F: Scalar>(p: &Params, role: Role) {
    let c = cfg(p);
    let d = inputs::<F>(p, &c);
    let fits = p.u("fits", 24).max(2);
    let class_labels: Vec<usize> = (0..c.classes).collect();
    let mut walks = vec![];
    let mut preds = vec![];
    let mut imps = vec![];
    for _ in 0..fits {
        let tree = fit_tree(&c, &d, &d.y);
        let mut w = Walk::new(&c, &d, class_labels.clone(), false);
        w.visit(tree.root_node(), (0..c.n).collect(), 0, String::new());
        preds.push(tree.predict(&d.x).to_vec());
        imps.push(if w.splits.is_empty() { vec![] } else { tree.feature_importance() });
        walks.push(w);
    }
    let any_tied = walks.iter().any(|w| w.tied_leaf);
    assume_bool(any_tied == (role == Role::Tied));
    let mut same = true;
    let mut same_bits = true;
    for k in 1..fits {
        let (a, b) = (&walks[0].desc, &walks[k].desc);
        if a.len() != b.len() || preds[0] != preds[k] {
            same = false;
            continue;
        }
        for (u, v) in a.iter().zip(b.iter()) {
            if u.0 != v.0 || u.1 != v.1 || u.2 != v.2 || u.3 != v.3 || !u.4.identical(v.4) {
                same = false;
            }
            if !u.5.identical(v.5) {
                same_bits = false;
            }
        }
        if imps[0].len() != imps[k].len() || imps[0].iter().zip(imps[k].iter()).any(|(x, y)| !x.identical(*y)) {
            same_bits = false;
        }
    }
    if p.get("mut", 0) == 20 {
        same = preds[0].iter().all(|&v| v == 0);
    }
    match role {
        Role::Tied => check_bool("c20.tree_tied_leaf_deterministic", same),
        _ => check_bool("c20.tree_refit_identical (structure, thresholds, predictions)", same),
    }
    if role == Role::UntiedBits {
        check_bool("c20.tree_impurity_bits_deterministic", same_bits || !same);
    }
    if walks[0].stable && walks[0].wellformed && role != Role::Tied {
        for (f, s, _) in &walks[0].splits {
            observe_usize(*f);
            observe(*s);
        }
        for v in &preds[0] {
            observe_usize(*v);
        }
    }
}
fn refit_untied<F: Scalar>(p: &Params) {
    refit::<F>(p, Role::Untied)
}
fn refit_untied_bits<F: Scalar>(p: &Params) {
    refit::<F>(p, Role::UntiedBits)
}
fn refit_tied<F: Scalar>(p: &Params) {
    refit::<F>(p, Role::Tied)
}

pub fn register(v: &mut Vec<HarnessDef>) {
    harness!(v, "c14.tree", "C14", tree,
        "fit on symbolic integer features (labels/weights resolved on the path), walk the tree through the public accessors and recompute depth, children, sample counts, side weights, impurity decrease, leaf majorities, predict routing and importances from the training rows",
        ["linfa_trees::DecisionTreeValidParams::fit (SortedIndex::of_array_column, RowMask)",
         "linfa_trees::TreeNode::fit (sorted sweep, gini_impurity / entropy, midpoint threshold, recursive masks, min_weight_split / min_weight_leaf / max_depth / min_impurity_decrease)",
         "linfa_trees::decision_trees::algorithm::find_modal_class",
         "linfa::DatasetBase::label_frequencies_with_mask / weight_for",
         "linfa_trees::TreeNode::prune",
         "linfa_trees::DecisionTree::predict_inplace (make_prediction)",
         "linfa_trees::DecisionTree::{root_node, iter_nodes (NodeIter::next), max_depth, num_leaves, features}",
         "linfa_trees::DecisionTree::{mean_impurity_decrease, relative_impurity_decrease, feature_importance}",
         "linfa_trees::TreeNode::{split, children, prediction, depth, is_leaf}"],
        ["features are integers in [-B,B] (midpoints exact in f64; the 1e-5 equal-value window of the sweep then means equality); instances with adj=e instead use the concrete doubles 2^e + i ulp (rounded midpoints, one concrete path per labelling)",
         "sample weights are small positive integers (exact in f32); class weights and impurities are concrete per path",
         "impurity decrease compared with 1e-5 absolute tolerance (linfa evaluates the criterion in f32)",
         "min_weight_split is demanded in training samples (C14 text), min_weight_leaf in training weight",
         "canon=1: label patterns up to renaming of the classes; distinct=1: feature values pairwise distinct per column",
         "HashMap order of the real code is not controlled: ties between classes may be broken either way (any modal label is accepted); outputs are handed to the differential f64 run only when no tie-break can have shaped the tree"]);
    harness!(v, "c20.tree_refit_identical", "C20", refit_untied,
        "the same data fitted `fits` times (fresh HashMap states each time): identical structure, thresholds (same term) and training predictions, on inputs where no fitted tree has a leaf with tied classes",
        ["linfa_trees::DecisionTreeValidParams::fit", "linfa_trees::TreeNode::fit", "linfa_trees::decision_trees::algorithm::find_modal_class", "linfa::DatasetBase::label_frequencies_with_mask", "linfa_trees::TreeNode::prune", "linfa_trees::DecisionTree::predict_inplace"],
        ["hash orders are sampled by repeated fits (each HashMap gets fresh SipHash keys), not enumerated", "inputs with a leaf whose classes tie are excluded here (role of c20.tree_tied_leaf_deterministic)", "features integers in [-B,B], weights small positive integers"]);
    harness!(v, "c20.tree_impurity_bits_deterministic", "C20", refit_untied_bits,
        "as c20.tree_refit_identical, and impurity decreases / feature importances are bit-identical between the fits",
        ["linfa_trees::TreeNode::fit (gini_impurity, entropy: f32 sums in HashMap order)", "linfa_trees::DecisionTree::feature_importance"],
        ["hash orders are sampled by repeated fits, not enumerated", "inputs with a leaf whose classes tie are excluded", "features integers in [-B,B], weights small positive integers"]);
    harness!(v, "c20.tree_tied_leaf_deterministic", "C20", refit_tied,
        "the same data fitted `fits` times on inputs where a leaf has tied classes: identical structure, thresholds and predictions",
        ["linfa_trees::decision_trees::algorithm::find_modal_class", "linfa_trees::TreeNode::prune", "linfa_trees::DecisionTree::predict_inplace"],
        ["hash orders are sampled by repeated fits, not enumerated", "only inputs with a leaf whose classes tie"]);
}

//! C19 — serialised models and parameter sets deserialise to behaviourally identical values.
//!
//! Every value is produced by the real constructor / the real `fit` on small symbolic data (one model
//! per explored fit path), sent through `bincode` (and `serde_json`: scalars travel as arena handles,
//! so both formats are lossless) and compared with the original: `==` where `PartialEq` exists, every
//! public accessor element-wise `identical()` (same term / same bits), predictions / transforms on a
//! fresh symbolic row, `check()` verdicts of parameter sets and the model of a refit.
//!
//! Types whose scalar is not generic (logistic regression and the Tweedie GLM through argmin, Gaussian
//! mixture and whitening through LAPACK-style decompositions) are round-tripped with plain `f64` on small
//! constant data in `c19.concrete`: those obligations are *concrete* (one execution), not solver-decided.
use crate::common::*;
use crate::harness;
use linfa::prelude::*;
use ndarray::{Array1, Array2};
use serde::de::DeserializeOwned;
use serde::{Deserialize, Serialize};
use std::fmt::Debug;

pub trait SS: Scalar + Serialize + DeserializeOwned {}
impl<T: Scalar + Serialize + DeserializeOwned> SS for T {}

// ------------------------------------------------------------------------------------------ plumbing

/// add one to the `k`-th (1-based) numeric leaf of a JSON value; returns the leaves left to skip
fn bump_leaf(v: &mut serde_json::Value, k: &mut i64) -> bool {
    use serde_json::Value;
    match v {
        Value::Number(n) => {
            *k -= 1;
            if *k == 0 {
                *v = if let Some(u) = n.as_u64() {
                    Value::from(u + 1)
                } else if let Some(i) = n.as_i64() {
                    Value::from(i + 1)
                } else {
                    Value::from(n.as_f64().unwrap() + 1.0)
                };
                return true;
            }
            false
        }
        Value::Bool(b) => {
            *k -= 1;
            if *k == 0 {
                *v = Value::Bool(!*b);
                return true;
            }
            false
        }
        Value::Array(a) => a.iter_mut().any(|x| bump_leaf(x, k)),
        Value::Object(o) => o.iter_mut().any(|(_, x)| bump_leaf(x, k)),
        _ => false,
    }
}

/// What the two round trips returned.  `json` went through the optional mutation (self-test of the
/// obligations: `mut=k` perturbs the k-th numeric/boolean leaf of the JSON document before it is read back).
static GENERIC: std::sync::atomic::AtomicBool = std::sync::atomic::AtomicBool::new(true);
fn setup(p: &Params) -> i64 {
    GENERIC.store(p.get("generic", 1) != 0, std::sync::atomic::Ordering::Relaxed);
    p.get("mut", 0)
}

/// `Debug` rendering with ndarray's memory-layout details (strides, layout flags) removed: they describe the
/// representation in memory, not the value
fn dbg_norm<T: Debug>(x: &T) -> String {
    let mut s = format!("{:?}", x);
    while let Some(a) = s.find("strides=[") {
        match s[a..].find("const ndim=") {
            Some(b) => s.replace_range(a..a + b, ""),
            None => break,
        }
    }
    s
}

struct Restored<T> {
    bin: Option<T>,
    json: Option<T>,
}

impl<T> Restored<T> {
    fn each(&self) -> Vec<(&'static str, &T)> {
        let mut v = vec![];
        if let Some(b) = &self.bin {
            v.push(("bincode", b));
        }
        if let Some(j) = &self.json {
            v.push(("json", j));
        }
        v
    }
}

/// `ordered`: the serialised form does not depend on a `HashMap` iteration order, so the bytes and the
/// `Debug` rendering of the restored value can be compared with those of the original.
fn roundtrip<T: Serialize + DeserializeOwned + Debug>(tag: &str, x: &T, ordered: bool, mutate: i64) -> Restored<T> {
    roundtrip_opts(tag, x, ordered, mutate, true)
}

/// `json = false`: the value holds a non-finite float, which JSON cannot represent (not a lossless format for it)
fn roundtrip_opts<T: Serialize + DeserializeOwned + Debug>(tag: &str, x: &T, ordered: bool, mutate: i64, json: bool) -> Restored<T> {
    // self-test switch (`generic=0`): leave out the type-independent comparisons, so that a perturbed
    // document has to be caught by the type-specific obligations
    let ordered = ordered && GENERIC.load(std::sync::atomic::Ordering::Relaxed);
    let mut out = Restored { bin: None, json: None };
    // ---- bincode
    match bincode::serialize(x) {
        Err(_) => check_bool(&format!("{}.bincode serialises", tag), false),
        Ok(bytes) => match bincode::deserialize::<T>(&bytes) {
            Err(_) => check_bool(&format!("{}.bincode deserialises", tag), false),
            Ok(y) => {
                check_bool(&format!("{}.bincode round trip succeeds", tag), true);
                if ordered {
                    check_bool(&format!("{}.bincode: the restored value serialises to the same bytes", tag), bincode::serialize(&y).map(|b| b == bytes).unwrap_or(false));
                    check_bool(&format!("{}.bincode: Debug rendering unchanged", tag), dbg_norm(&y) == dbg_norm(x));
                }
                out.bin = Some(y);
            }
        },
    }
    if !json {
        return out;
    }
    // ---- serde_json (as a document: checks the structure, field names and order independence)
    match serde_json::to_value(x) {
        Err(_) => check_bool(&format!("{}.json serialises", tag), false),
        Ok(mut doc) => {
            if mutate > 0 {
                let mut k = mutate;
                if !bump_leaf(&mut doc, &mut k) {
                    note(&format!("{}: mut={} is beyond the {} numeric/boolean leaves of the document", tag, mutate, mutate - k));
                }
            }
            match serde_json::from_value::<T>(doc.clone()) {
                Err(_) => check_bool(&format!("{}.json deserialises", tag), false),
                Ok(z) => {
                    check_bool(&format!("{}.json round trip succeeds", tag), true);
                    if ordered {
                        check_bool(&format!("{}.json: the restored value serialises to the same document", tag), serde_json::to_value(&z).map(|d| d == doc).unwrap_or(false));
                        check_bool(&format!("{}.json: Debug rendering unchanged", tag), dbg_norm(&z) == dbg_norm(x));
                        check_bool(&format!("{}.json: same bincode bytes as the original", tag), bincode::serialize(&z).ok() == bincode::serialize(x).ok());
                    }
                    out.json = Some(z);
                }
            }
        }
    }
    out
}

fn same<F: Scalar>(a: F, b: F) -> bool {
    a.identical(b)
}
fn same1<F: Scalar>(a: &Array1<F>, b: &Array1<F>) -> bool {
    a.len() == b.len() && a.iter().zip(b.iter()).all(|(x, y)| x.identical(*y))
}
fn same2<F: Scalar>(a: &Array2<F>, b: &Array2<F>) -> bool {
    a.dim() == b.dim() && a.iter().zip(b.iter()).all(|(x, y)| x.identical(*y))
}
fn same_opt<F: Scalar>(a: &Option<F>, b: &Option<F>) -> bool {
    match (a, b) {
        (Some(x), Some(y)) => x.identical(*y),
        (None, None) => true,
        _ => false,
    }
}

fn sym_matrix<F: Scalar>(name: &str, n: usize, d: usize, b: i64) -> Array2<F> {
    let mut x = Array2::from_elem((n, d), F::lit(0.0));
    for i in 0..n {
        for j in 0..d {
            x[(i, j)] = int::<F>(&format!("{}{}_{}", name, i, j), -b, b);
        }
    }
    x
}
/// design matrix: symbolic integers (`xconst=0`) or the constants (i+1)^2 + 2j - 3 (`xconst=1`): the learned
/// quantities then stay symbolic through the targets while the factorisation itself does not branch
fn design<F: Scalar>(p: &Params, n: usize, d: usize, b: i64) -> Array2<F> {
    if p.u("xconst", 0) == 1 {
        let mut x = Array2::from_elem((n, d), F::lit(0.0));
        for i in 0..n {
            for j in 0..d {
                x[(i, j)] = F::lit(((i + 1) * (i + 1) + 2 * j) as f64 - 3.0);
            }
        }
        x
    } else {
        sym_matrix::<F>("x", n, d, b)
    }
}
fn sym_vector<F: Scalar>(name: &str, n: usize, b: i64) -> Array1<F> {
    Array1::from_iter((0..n).map(|i| int::<F>(&format!("{}{}", name, i), -b, b)))
}

/// A serialisable random number generator for the parameter sets that carry one (the crates' `serde`
/// feature does not turn on `rand_xoshiro/serde1`, so their default generator cannot be serialised).
#[derive(Clone, Debug, PartialEq, Serialize, Deserialize)]
pub struct SerRng(pub u64);
impl rand::RngCore for SerRng {
    fn next_u32(&mut self) -> u32 {
        (self.next_u64() >> 32) as u32
    }
    fn next_u64(&mut self) -> u64 {
        // splitmix64
        self.0 = self.0.wrapping_add(0x9E37_79B9_7F4A_7C15);
        let mut z = self.0;
        z = (z ^ (z >> 30)).wrapping_mul(0xBF58_476D_1CE4_E5B9);
        z = (z ^ (z >> 27)).wrapping_mul(0x94D0_49BB_1331_11EB);
        z ^ (z >> 31)
    }
    fn fill_bytes(&mut self, dest: &mut [u8]) {
        for c in dest.chunks_mut(8) {
            let b = self.next_u64().to_le_bytes();
            c.copy_from_slice(&b[..c.len()]);
        }
    }
    fn try_fill_bytes(&mut self, dest: &mut [u8]) -> Result<(), rand::Error> {
        self.fill_bytes(dest);
        Ok(())
    }
}

/// verdict of a parameter check as a comparable string
fn verdict<T, E: std::fmt::Display>(r: &Result<T, E>) -> String {
    match r {
        Ok(_) => "ok".to_string(),
        Err(e) => format!("err: {}", e),
    }
}

// -------------------------------------------------------------------------- plain (scalar-free) types

/// unit structs and plain enums: every value round-trips to an equal value
fn plain<F: SS>(p: &Params) {
    use linfa_nn::distance::{L1Dist, L2Dist, LInfDist};
    use linfa_nn::{BallTree, CommonNearestNeighbour, KdTree, LinearSearch};
    let mutate = setup(p);
    macro_rules! eqs {
        ($tag:expr, $v:expr) => {{
            let v = $v;
            let r = roundtrip($tag, &v, true, mutate);
            for (fmt, y) in r.each() {
                check_bool(&format!("{}.{}: restored == original", $tag, fmt), *y == v);
            }
        }};
    }
    macro_rules! dbg_only {
        ($tag:expr, $v:expr) => {{
            let v = $v;
            let r = roundtrip($tag, &v, true, mutate);
            for (fmt, y) in r.each() {
                check_bool(&format!("{}.{}: same Display", $tag, fmt), format!("{}", y) == format!("{}", v));
            }
        }};
    }
    for nn in [CommonNearestNeighbour::LinearSearch, CommonNearestNeighbour::KdTree, CommonNearestNeighbour::BallTree] {
        eqs!("CommonNearestNeighbour", nn);
    }
    eqs!("KdTree", KdTree);
    eqs!("BallTree", BallTree);
    eqs!("LinearSearch", LinearSearch);
    eqs!("L1Dist", L1Dist);
    eqs!("L2Dist", L2Dist);
    eqs!("LInfDist", LInfDist);
    eqs!("Dbscan", linfa_clustering::Dbscan);
    eqs!("Optics", linfa_clustering::Optics);
    for c in [linfa_clustering::GmmCovarType::Full] {
        eqs!("GmmCovarType", c);
    }
    for m in [linfa_clustering::GmmInitMethod::KMeans, linfa_clustering::GmmInitMethod::Random] {
        eqs!("GmmInitMethod", m);
    }
    for q in [linfa_trees::SplitQuality::Gini, linfa_trees::SplitQuality::Entropy] {
        eqs!("SplitQuality", q);
    }
    for l in [linfa_linear::Link::Identity, linfa_linear::Link::Log, linfa_linear::Link::Logit] {
        eqs!("Link", l);
    }
    for fi in [true, false] {
        eqs!("LinearRegression", linfa_linear::LinearRegression::new().with_intercept(fi));
    }
    eqs!("IsotonicRegression", linfa_linear::IsotonicRegression::new());
    for r in [linfa_svm::ExitReason::ReachedThreshold, linfa_svm::ExitReason::ReachedIterations] {
        eqs!("ExitReason", r);
    }
    for n in [linfa_preprocessing::norm_scaling::NormScaler::l1(), linfa_preprocessing::norm_scaling::NormScaler::l2(), linfa_preprocessing::norm_scaling::NormScaler::max()] {
        // NormScaler has no PartialEq: Debug rendering and behaviour (c19.scaler) are compared
        let _ = roundtrip("NormScaler", &n, true, mutate);
    }
    for w in [linfa_preprocessing::whitening::Whitener::pca(), linfa_preprocessing::whitening::Whitener::zca(), linfa_preprocessing::whitening::Whitener::cholesky()] {
        let _ = roundtrip("Whitener", &w, true, mutate);
    }
    // error enums: equality is not defined; the message and the Debug rendering must survive
    use linfa::Error as LE;
    // variants declared before the serde(skip) variant; the two after it are in `c19.error_after_skip`
    for e in [LE::Parameters("p".into()), LE::Priors("q".into()), LE::NotConverged("r".into())] {
        dbg_only!("linfa::Error", e);
    }
    // the NdShape variant is marked serde(skip): it is refused by the serialiser instead of being written as
    // something else (documented in the source; stated here so that a silent change shows)
    let shape = LE::NdShape(Array2::<f64>::zeros((1, 2)).into_shape((3, 3)).unwrap_err());
    check_bool("linfa::Error.the skipped NdShape variant is refused, not written as another variant", bincode::serialize(&shape).is_err() && serde_json::to_value(&shape).is_err());
    use linfa::composing::platt_scaling::PlattError as PE;
    for e in [PE::LineSearchNotConverged, PE::MaxIterReached, PE::MaxIterZero, PE::MinStepNegative(-1.5), PE::SigmaNegative(-0.25), PE::LinfaError(LE::Parameters("p".into()))] {
        dbg_only!("PlattError", e);
    }
    use linfa_elasticnet::ElasticNetError as EE;
    for e in [EE::NotEnoughSamples, EE::IllConditioned, EE::InvalidL1Ratio(1.5), EE::InvalidPenalty(-1.0), EE::InvalidTolerance(-0.5), EE::BaseCrate(LE::Priors("q".into()))] {
        dbg_only!("ElasticNetError", e);
    }
    use linfa_ftrl::FtrlError as FE;
    for e in [FE::InvalidL1Ratio(1.5), FE::InvalidL2Ratio(-0.5), FE::InvalidAlpha(-1.0), FE::InvalidBeta(-2.0), FE::InvalidNFeatures(0), FE::LinfaError(LE::NotConverged("r".into()))] {
        dbg_only!("FtrlError", e);
    }
    let _ = F::lit(0.0);
}


/// `linfa::Error` variants declared after the `#[serde(skip)]` variant `NdShape` (src/error.rs:27), alone
/// and wrapped in the crates' own error enums
fn error_after_skip<F: SS>(p: &Params) {
    let mutate = setup(p);
    use linfa::Error as LE;
    macro_rules! msg {
        ($tag:expr, $v:expr) => {{
            let v = $v;
            let r = roundtrip($tag, &v, true, mutate);
            for (fmt, y) in r.each() {
                check_bool(&format!("{}.{}: same Display", $tag, fmt), format!("{}", y) == format!("{}", v));
            }
        }};
    }
    msg!("linfa::Error::NotEnoughSamples (declared after the skipped variant)", LE::NotEnoughSamples);
    msg!("linfa::Error::MismatchedShapes (declared after the skipped variant)", LE::MismatchedShapes(3, 4));
    msg!("PlattError::LinfaError(NotEnoughSamples)", linfa::composing::platt_scaling::PlattError::LinfaError(LE::NotEnoughSamples));
    msg!("ElasticNetError::BaseCrate(NotEnoughSamples)", linfa_elasticnet::ElasticNetError::BaseCrate(LE::NotEnoughSamples));
    msg!("FtrlError::LinfaError(MismatchedShapes)", linfa_ftrl::FtrlError::LinfaError(LE::MismatchedShapes(1, 2)));
    let _ = F::lit(0.0);
}

// ------------------------------------------------------------------------------------ parameter sets

/// a hyper-parameter that makes `check()` go both ways: quarter steps in [-1/2, 1/2]
fn hp<F: Scalar>(name: &str) -> F {
    grid::<F>(name, 2, 2)
}

/// parameter sets with scalar fields: round trip, equality, accessors, `check()` verdict
fn params<F: SS>(p: &Params) {
    use linfa_nn::distance::{L1Dist, L2Dist, LpDist};
    use linfa_nn::CommonNearestNeighbour;
    let mutate = setup(p);
    let which = p.u("which", 0);
    match which {
        0 => {
            // k-means: unchecked and checked parameter set, symbolic tolerance and precomputed centroids
            use linfa_clustering::{KMeans, KMeansInit};
            let tol = hp::<F>("tolerance");
            let c0 = sym_matrix::<F>("c", 2, 2, 8);
            let prm = KMeans::<F, L1Dist>::params_with(p.u("k", 2), SerRng(7), L1Dist).tolerance(tol).n_runs(p.u("runs", 3)).max_n_iterations(p.get("iters", 5) as u64).init_method(KMeansInit::Precomputed(c0.clone()));
            let r = roundtrip("KMeansParams", &prm, true, mutate);
            for (fmt, y) in r.each() {
                check_bool(&format!("KMeansParams.{}: restored == original", fmt), *y == prm);
                check_bool(&format!("KMeansParams.{}: check() verdict unchanged", fmt), verdict(&y.check_ref()) == verdict(&prm.check_ref()));
            }
            if let Ok(valid) = prm.check() {
                let r = roundtrip("KMeansValidParams", &valid, true, mutate);
                for (fmt, y) in r.each() {
                    check_bool(&format!("KMeansValidParams.{}: restored == original", fmt), *y == valid);
                }
            }
            for init in [KMeansInit::Random, KMeansInit::KMeansPlusPlus, KMeansInit::KMeansPara, KMeansInit::Precomputed(c0.clone())] {
                let r = roundtrip("KMeansInit", &init, true, mutate);
                for (fmt, y) in r.each() {
                    check_bool(&format!("KMeansInit.{}: restored == original", fmt), *y == init);
                    if let (KMeansInit::Precomputed(a), KMeansInit::Precomputed(b)) = (y, &init) {
                        check_bool(&format!("KMeansInit.{}: precomputed centroids identical", fmt), same2(a, b));
                    }
                }
            }
        }
        1 => {
            // DBSCAN (checked set only derives serde) and OPTICS (both)
            use linfa_clustering::{Dbscan, Optics};
            let tol = hp::<F>("tolerance");
            if let Ok(valid) = Dbscan::params_with::<F, _, _>(p.u("mp", 3), LpDist(F::lit(3.0)), CommonNearestNeighbour::BallTree).tolerance(tol).check() {
                let r = roundtrip("DbscanValidParams", &valid, true, mutate);
                for (fmt, y) in r.each() {
                    check_bool(&format!("DbscanValidParams.{}: restored == original", fmt), *y == valid);
                    check_bool(&format!("DbscanValidParams.{}: accessors identical", fmt), same(y.tolerance(), valid.tolerance()) && y.minimum_points() == valid.minimum_points() && same(y.dist_fn().0, valid.dist_fn().0) && y.nn_algo() == valid.nn_algo());
                }
            }
            let prm = Optics::params_with::<F, _, _>(p.u("mp", 3), L2Dist, CommonNearestNeighbour::LinearSearch).tolerance(tol);
            let r = roundtrip("OpticsParams", &prm, true, mutate);
            for (fmt, y) in r.each() {
                check_bool(&format!("OpticsParams.{}: restored == original", fmt), *y == prm);
                check_bool(&format!("OpticsParams.{}: check() verdict unchanged", fmt), verdict(&y.check_ref()) == verdict(&prm.check_ref()));
            }
            if let Ok(valid) = prm.check() {
                let r = roundtrip("OpticsValidParams", &valid, true, mutate);
                for (fmt, y) in r.each() {
                    check_bool(&format!("OpticsValidParams.{}: restored == original", fmt), *y == valid);
                    check_bool(&format!("OpticsValidParams.{}: accessors identical", fmt), same(y.tolerance(), valid.tolerance()) && y.minimum_points() == valid.minimum_points() && y.nn_algo() == valid.nn_algo());
                }
            }
        }
        2 => {
            // Gaussian mixture parameters (the scalar fields are generic; the fit is not)
            use linfa_clustering::{GaussianMixtureModel, GmmInitMethod};
            let (tol, reg) = (hp::<F>("tolerance"), hp::<F>("reg_covar"));
            let prm = GaussianMixtureModel::<F>::params_with_rng(p.u("k", 2), SerRng(3)).tolerance(tol).reg_covariance(reg).n_runs(p.get("runs", 2) as u64).max_n_iterations(p.get("iters", 7) as u64).init_method(GmmInitMethod::Random);
            let r = roundtrip("GmmParams", &prm, true, mutate);
            for (fmt, y) in r.each() {
                check_bool(&format!("GmmParams.{}: restored == original", fmt), *y == prm);
                check_bool(&format!("GmmParams.{}: check() verdict unchanged", fmt), verdict(&y.check_ref()) == verdict(&prm.check_ref()));
            }
            if let Ok(valid) = prm.check() {
                let r = roundtrip("GmmValidParams", &valid, true, mutate);
                for (fmt, y) in r.each() {
                    check_bool(&format!("GmmValidParams.{}: restored == original", fmt), *y == valid);
                    check_bool(&format!("GmmValidParams.{}: accessors identical", fmt), same(y.tolerance(), valid.tolerance()) && same(y.reg_covariance(), valid.reg_covariance()) && y.n_clusters() == valid.n_clusters() && y.n_runs() == valid.n_runs() && y.max_n_iterations() == valid.max_n_iterations() && y.init_method() == valid.init_method() && y.covariance_type() == valid.covariance_type() && y.rng() == valid.rng());
                }
            }
        }
        3 => {
            // elastic net (single and multi task): only the checked sets derive serde
            use linfa_elasticnet::{ElasticNet, MultiTaskElasticNet};
            let (pen, l1, tol) = (hp::<F>("penalty"), hp::<F>("l1_ratio"), hp::<F>("tolerance"));
            if let Ok(valid) = ElasticNet::<F>::params().penalty(pen).l1_ratio(l1).tolerance(tol).with_intercept(false).max_iterations(17).check() {
                let r = roundtrip("ElasticNetValidParams", &valid, true, mutate);
                for (fmt, y) in r.each() {
                    check_bool(&format!("ElasticNetValidParams.{}: restored == original", fmt), *y == valid);
                    check_bool(&format!("ElasticNetValidParams.{}: accessors identical", fmt), same(y.penalty(), valid.penalty()) && same(y.l1_ratio(), valid.l1_ratio()) && same(y.tolerance(), valid.tolerance()) && y.with_intercept() == valid.with_intercept() && y.max_iterations() == valid.max_iterations());
                }
            }
            if let Ok(valid) = MultiTaskElasticNet::<F>::params().penalty(pen).l1_ratio(l1).tolerance(tol).check() {
                let r = roundtrip("MultiTaskElasticNetValidParams", &valid, true, mutate);
                for (fmt, y) in r.each() {
                    check_bool(&format!("MultiTaskElasticNetValidParams.{}: restored == original", fmt), *y == valid);
                    check_bool(&format!("MultiTaskElasticNetValidParams.{}: accessors identical", fmt), same(y.penalty(), valid.penalty()) && same(y.l1_ratio(), valid.l1_ratio()) && same(y.tolerance(), valid.tolerance()));
                }
            }
        }
        4 => {
            // FTRL
            use linfa_ftrl::Ftrl;
            let (a, b, l1, l2) = (hp::<F>("alpha"), hp::<F>("beta"), hp::<F>("l1"), hp::<F>("l2"));
            let prm = Ftrl::<F>::params_with_rng(SerRng(11)).alpha(a).beta(b).l1_ratio(l1).l2_ratio(l2);
            let r = roundtrip("FtrlParams", &prm, true, mutate);
            for (fmt, y) in r.each() {
                check_bool(&format!("FtrlParams.{}: restored == original", fmt), *y == prm);
                check_bool(&format!("FtrlParams.{}: check() verdict unchanged", fmt), verdict(&y.check_ref()) == verdict(&prm.check_ref()));
            }
            if let Ok(valid) = prm.check() {
                let r = roundtrip("FtrlValidParams", &valid, true, mutate);
                for (fmt, y) in r.each() {
                    check_bool(&format!("FtrlValidParams.{}: restored == original", fmt), *y == valid);
                    check_bool(&format!("FtrlValidParams.{}: accessors identical", fmt), same(y.alpha(), valid.alpha()) && same(y.beta(), valid.beta()) && same(y.l1_ratio(), valid.l1_ratio()) && same(y.l2_ratio(), valid.l2_ratio()) && y.rng() == valid.rng());
                }
            }
        }
        5 => {
            // decision tree (unchecked and checked), naive Bayes (checked)
            use linfa_bayes::{GaussianNb, MultinomialNb};
            use linfa_trees::{DecisionTree, SplitQuality};
            let imp = hp::<F>("min_impurity_decrease");
            let prm = DecisionTree::<F, usize>::params().split_quality(SplitQuality::Entropy).max_depth(Some(p.u("depth", 3))).min_weight_split(p.get("mws", 4) as f32 / 2.0).min_weight_leaf(p.get("mwl", 2) as f32 / 2.0).min_impurity_decrease(imp);
            let r = roundtrip("DecisionTreeParams", &prm, true, mutate);
            for (fmt, y) in r.each() {
                check_bool(&format!("DecisionTreeParams.{}: restored == original", fmt), *y == prm);
                check_bool(&format!("DecisionTreeParams.{}: check() verdict unchanged", fmt), verdict(&y.check_ref()) == verdict(&prm.check_ref()));
            }
            if let Ok(valid) = prm.check() {
                let r = roundtrip("DecisionTreeValidParams", &valid, true, mutate);
                for (fmt, y) in r.each() {
                    check_bool(&format!("DecisionTreeValidParams.{}: restored == original", fmt), *y == valid);
                    check_bool(&format!("DecisionTreeValidParams.{}: accessors identical", fmt), same(y.min_impurity_decrease(), valid.min_impurity_decrease()) && y.split_quality() == valid.split_quality() && y.max_depth() == valid.max_depth() && y.min_weight_split().to_bits() == valid.min_weight_split().to_bits() && y.min_weight_leaf().to_bits() == valid.min_weight_leaf().to_bits());
                }
            }
            let s = hp::<F>("smoothing");
            if let Ok(valid) = GaussianNb::<F, usize>::params().var_smoothing(s).check() {
                let r = roundtrip("GaussianNbValidParams", &valid, true, mutate);
                for (fmt, y) in r.each() {
                    check_bool(&format!("GaussianNbValidParams.{}: restored == original", fmt), *y == valid);
                    check_bool(&format!("GaussianNbValidParams.{}: accessors identical", fmt), same(y.var_smoothing(), valid.var_smoothing()));
                }
            }
            if let Ok(valid) = MultinomialNb::<F, usize>::params().alpha(s).check() {
                let r = roundtrip("MultinomialNbValidParams", &valid, true, mutate);
                for (fmt, y) in r.each() {
                    check_bool(&format!("MultinomialNbValidParams.{}: restored == original", fmt), *y == valid);
                    check_bool(&format!("MultinomialNbValidParams.{}: accessors identical", fmt), same(y.alpha(), valid.alpha()));
                }
            }
        }
        6 => {
            // scalers, Tweedie parameters, kernel method, Minkowski metric
            use linfa_kernel::KernelMethod;
            use linfa_linear::{Link, TweedieRegressor};
            use linfa_preprocessing::linear_scaling::{LinearScaler, LinearScalerParams, ScalingMethod};
            let (lo, hi) = (hp::<F>("min"), hp::<F>("max"));
            for m in [ScalingMethod::Standard(true, false), ScalingMethod::Standard(false, true), ScalingMethod::MinMax(lo, hi), ScalingMethod::MaxAbs] {
                let r = roundtrip("ScalingMethod", &m, true, mutate);
                for (fmt, y) in r.each() {
                    check_bool(&format!("ScalingMethod.{}: restored == original", fmt), *y == m);
                }
                let prm = LinearScalerParams::new(m.clone());
                let r = roundtrip("LinearScalerParams", &prm, true, mutate);
                for (fmt, y) in r.each() {
                    check_bool(&format!("LinearScalerParams.{}: restored == original", fmt), *y == prm);
                }
            }
            let _ = LinearScaler::<F>::standard();
            let (alpha, power, tol) = (hp::<F>("alpha"), hp::<F>("power"), hp::<F>("tol"));
            for link in [None, Some(Link::Logit)] {
                let mut prm = TweedieRegressor::<F>::params().alpha(alpha).power(power).tol(tol).fit_intercept(false).max_iter(9);
                if let Some(l) = link {
                    prm = prm.link(l);
                }
                if let Ok(valid) = prm.check() {
                    let r = roundtrip("TweedieRegressorValidParams", &valid, true, mutate);
                    for (fmt, y) in r.each() {
                        check_bool(&format!("TweedieRegressorValidParams.{}: restored == original", fmt), *y == valid);
                        check_bool(&format!("TweedieRegressorValidParams.{}: accessors identical", fmt), same(y.alpha(), valid.alpha()) && same(y.power(), valid.power()) && same(y.tol(), valid.tol()) && y.fit_intercept() == valid.fit_intercept() && y.max_iter() == valid.max_iter() && y.link() == valid.link());
                    }
                }
            }
            let (c, d) = (hp::<F>("c"), hp::<F>("degree"));
            for m in [KernelMethod::Linear, KernelMethod::Gaussian(c), KernelMethod::Polynomial(c, d)] {
                let r = roundtrip("KernelMethod", &m, true, mutate);
                for (fmt, y) in r.each() {
                    check_bool(&format!("KernelMethod.{}: restored == original", fmt), *y == m);
                    let ok = match (y, &m) {
                        (KernelMethod::Gaussian(a), KernelMethod::Gaussian(b)) => same(*a, *b),
                        (KernelMethod::Polynomial(a, b), KernelMethod::Polynomial(c, d)) => same(*a, *c) && same(*b, *d),
                        (KernelMethod::Linear, KernelMethod::Linear) => true,
                        _ => false,
                    };
                    check_bool(&format!("KernelMethod.{}: constants identical", fmt), ok);
                }
            }
            let lp = LpDist(d);
            let r = roundtrip("LpDist", &lp, true, mutate);
            for (fmt, y) in r.each() {
                check_bool(&format!("LpDist.{}: restored == original", fmt), *y == lp);
                check_bool(&format!("LpDist.{}: exponent identical", fmt), same(y.0, lp.0));
            }
        }
        _ => {}
    }
}

// --------------------------------------------------------------------------------------- fitted models

/// p = 1 design that is not constant (with intercept) / not zero (without): the fits below divide by the
/// column's (centred) norm
fn assume_column_usable<F: Scalar>(x: &Array2<F>, icpt: bool) {
    let n = x.nrows();

    for j in 0..x.ncols() {
        let mut any = vec![];
        for i in 0..n {
            if icpt {
                for k in i + 1..n {
                    any.push(x[(i, j)].s_eq(x[(k, j)]).not());
                }
            } else {
                any.push(x[(i, j)].s_eq(F::lit(0.0)).not());
            }
        }
        assume(SymB::any(&any));
    }
}

/// k-means: model fitted from precomputed symbolic centroids (L1 metric), restored model and the model
/// refitted from the restored parameter set
fn kmeans<F: SS>(p: &Params) {
    use linfa_clustering::{KMeans, KMeansInit};
    use linfa_nn::distance::L1Dist;
    let mutate = setup(p);
    let (n, k, d, b) = (p.u("n", 3), p.u("k", 2), p.u("d", 1), p.get("B", 8));
    let x = sym_matrix::<F>("x", n, d, b);
    let c0 = sym_matrix::<F>("c", k, d, b);
    let q = sym_matrix::<F>("q", 1, d, b);
    let ds = DatasetBase::from(x.clone());
    let valid = KMeans::<F, L1Dist>::params_with(k, SerRng(5), L1Dist)
        .init_method(KMeansInit::Precomputed(c0.clone()))
        .n_runs(1)
        .max_n_iterations(p.get("iters", 1) as u64)
        .tolerance(F::lit(9.094947017729282e-13))
        .check()
        .expect("valid k-means parameters");
    let model = match valid.fit(&ds) {
        Ok(m) => m,
        Err(_) => return, // not converged within the budget: no model to serialise on this path
    };
    let want_label = model.predict(&q);
    let want_dist = model.transform(&q);
    let r = roundtrip("KMeans", &model, true, mutate);
    for (fmt, y) in r.each() {
        check_bool(&format!("KMeans.{}: restored == original", fmt), *y == model);
        check_bool(&format!("KMeans.{}: centroids identical", fmt), same2(y.centroids(), model.centroids()));
        check_bool(&format!("KMeans.{}: cluster_count identical", fmt), same1(y.cluster_count(), model.cluster_count()));
        check_bool(&format!("KMeans.{}: inertia identical", fmt), same(y.inertia(), model.inertia()));
        check_bool(&format!("KMeans.{}: predict on a fresh row unchanged", fmt), y.predict(&q) == want_label);
        check_bool(&format!("KMeans.{}: transform (distance to the closest centroid) identical", fmt), same1(&y.transform(&q), &want_dist));
    }
    let rp = roundtrip("KMeansValidParams", &valid, true, mutate);
    for (fmt, vp) in rp.each() {
        match vp.fit(&ds) {
            Ok(m2) => check_bool(&format!("KMeansValidParams.{}: refit gives the identical model", fmt), same2(m2.centroids(), model.centroids()) && same1(m2.cluster_count(), model.cluster_count()) && same(m2.inertia(), model.inertia())),
            Err(_) => check_bool(&format!("KMeansValidParams.{}: refit gives the identical model", fmt), false),
        }
    }
    observe_usize(want_label[0]);
    observe(model.inertia());
}

/// ordinary least squares and elastic net (single task): coefficients, intercept, diagnostics, predictions
fn linear<F: SS>(p: &Params) {
    use linfa_elasticnet::ElasticNet;
    use linfa_linear::LinearRegression;
    let mutate = setup(p);
    let (n, pp, b) = (p.u("n", 2), p.u("p", 1), p.get("B", 8));
    let icpt = p.u("icpt", 1) == 1;
    let x = design::<F>(p, n, pp, b);
    let yv = sym_vector::<F>("y", n, b);
    let q = sym_matrix::<F>("q", 1, pp, b);
    if p.u("xconst", 0) == 0 {
        assume_column_usable(&x, icpt);
    }
    let ds = Dataset::new(x.clone(), yv.clone());
    if p.u("which", 0) == 0 {
        let prm = LinearRegression::new().with_intercept(icpt);
        let model = match prm.fit(&ds) {
            Ok(m) => m,
            Err(_) => return,
        };
        let want = model.predict(&q);
        let r = roundtrip("FittedLinearRegression", &model, true, mutate);
        for (fmt, y) in r.each() {
            check_bool(&format!("FittedLinearRegression.{}: restored == original", fmt), *y == model);
            check_bool(&format!("FittedLinearRegression.{}: params identical", fmt), same1(y.params(), model.params()));
            check_bool(&format!("FittedLinearRegression.{}: intercept identical", fmt), same(y.intercept(), model.intercept()));
            check_bool(&format!("FittedLinearRegression.{}: prediction on a fresh row identical", fmt), same1(&y.predict(&q), &want));
        }
        let rp = roundtrip("LinearRegression", &prm, true, mutate);
        for (fmt, pr2) in rp.each() {
            let ok = match pr2.fit(&ds) {
                Ok(m2) => same1(m2.params(), model.params()) && same(m2.intercept(), model.intercept()),
                Err(_) => false,
            };
            check_bool(&format!("LinearRegression.{}: refit gives the identical model", fmt), ok);
        }
        observe(want[0]);
    } else {
        let valid = ElasticNet::<F>::params()
            .penalty(F::lit(p.get("pen", 1) as f64 / 8.0))
            .l1_ratio(F::lit(p.get("l1", 2) as f64 / 4.0))
            .with_intercept(icpt)
            .max_iterations(p.get("iters", 2) as u32)
            .tolerance(F::lit(0.0009765625))
            .check()
            .expect("valid elastic net parameters");
        let model = match valid.fit(&ds) {
            Ok(m) => m,
            Err(_) => return,
        };
        let want = model.predict(&q);
        let r = roundtrip("ElasticNet", &model, true, mutate);
        for (fmt, y) in r.each() {
            check_bool(&format!("ElasticNet.{}: hyperplane identical", fmt), same1(y.hyperplane(), model.hyperplane()));
            check_bool(&format!("ElasticNet.{}: intercept identical", fmt), same(y.intercept(), model.intercept()));
            check_bool(&format!("ElasticNet.{}: duality gap identical", fmt), same(y.duality_gap(), model.duality_gap()));
            check_bool(&format!("ElasticNet.{}: n_steps unchanged", fmt), y.n_steps() == model.n_steps());
            let zs = match (y.z_score(), model.z_score()) {
                (Ok(a), Ok(b)) => same1(&a, &b),
                (Err(a), Err(b)) => a.to_string() == b.to_string(),
                _ => false,
            };
            check_bool(&format!("ElasticNet.{}: z_score (variance estimate or its error) unchanged", fmt), zs);
            check_bool(&format!("ElasticNet.{}: prediction on a fresh row identical", fmt), same1(&y.predict(&q), &want));
        }
        let rp = roundtrip("ElasticNetValidParams", &valid, true, mutate);
        for (fmt, vp) in rp.each() {
            let ok = match vp.fit(&ds) {
                Ok(m2) => same1(m2.hyperplane(), model.hyperplane()) && same(m2.intercept(), model.intercept()) && same(m2.duality_gap(), model.duality_gap()) && m2.n_steps() == model.n_steps(),
                Err(_) => false,
            };
            check_bool(&format!("ElasticNetValidParams.{}: refit gives the identical model", fmt), ok);
        }
        observe(want[0]);
    }
}

/// multi-task elastic net
fn multitask<F: SS>(p: &Params) {
    use linfa_elasticnet::MultiTaskElasticNet;
    let mutate = setup(p);
    let (n, pp, t, b) = (p.u("n", 2), p.u("p", 1), p.u("t", 2), p.get("B", 8));
    let icpt = p.u("icpt", 1) == 1;
    let x = design::<F>(p, n, pp, b);
    let y = sym_matrix::<F>("y", n, t, b);
    let q = sym_matrix::<F>("q", 1, pp, b);
    if p.u("xconst", 0) == 0 {
        assume_column_usable(&x, icpt);
    }
    let ds = Dataset::new(x.clone(), y.clone());
    let valid = MultiTaskElasticNet::<F>::params()
        .penalty(F::lit(p.get("pen", 1) as f64 / 8.0))
        .l1_ratio(F::lit(p.get("l1", 2) as f64 / 4.0))
        .with_intercept(icpt)
        .max_iterations(p.get("iters", 1) as u32)
        .tolerance(F::lit(0.0009765625))
        .check()
        .expect("valid parameters");
    let model = match valid.fit(&ds) {
        Ok(m) => m,
        Err(_) => return,
    };
    let want = model.predict(&q);
    let r = roundtrip("MultiTaskElasticNet", &model, true, mutate);
    for (fmt, m2) in r.each() {
        check_bool(&format!("MultiTaskElasticNet.{}: hyperplane identical", fmt), same2(m2.hyperplane(), model.hyperplane()));
        check_bool(&format!("MultiTaskElasticNet.{}: intercept identical", fmt), same1(m2.intercept(), model.intercept()));
        check_bool(&format!("MultiTaskElasticNet.{}: duality gap identical", fmt), same(m2.duality_gap(), model.duality_gap()));
        check_bool(&format!("MultiTaskElasticNet.{}: n_steps unchanged", fmt), m2.n_steps() == model.n_steps());
        let zs = match (m2.z_score(), model.z_score()) {
            (Ok(a), Ok(b)) => same2(&a, &b),
            (Err(a), Err(b)) => a.to_string() == b.to_string(),
            _ => false,
        };
        check_bool(&format!("MultiTaskElasticNet.{}: z_score (variance estimate or its error) unchanged", fmt), zs);
        check_bool(&format!("MultiTaskElasticNet.{}: prediction on a fresh row identical", fmt), same2(&m2.predict(&q), &want));
    }
    observe(want[(0, 0)]);
}

/// linear scalers (every method) and norm scalers: learned offsets / scales, transform of a fresh row
fn scaler<F: SS>(p: &Params) {
    use linfa_preprocessing::linear_scaling::{LinearScaler, LinearScalerParams, ScalingMethod};
    use linfa_preprocessing::norm_scaling::NormScaler;
    let mutate = setup(p);
    let (n, d, b) = (p.u("n", 2), p.u("d", 1), p.get("B", 8));
    let x = sym_matrix::<F>("x", n, d, b);
    let q = sym_matrix::<F>("q", 1, d, b);
    let ds = DatasetBase::from(x.clone());
    let which = p.u("which", 0);
    if which <= 5 {
        let method = match which {
            0 => ScalingMethod::Standard(true, true),
            1 => ScalingMethod::Standard(false, true),
            2 => ScalingMethod::Standard(true, false),
            3 => ScalingMethod::MinMax(F::lit(0.0), F::lit(1.0)),
            4 => ScalingMethod::MinMax(int::<F>("lo", -4, 4), int::<F>("hi", -4, 4)),
            _ => ScalingMethod::MaxAbs,
        };
        let prm = LinearScalerParams::new(method);
        let model: LinearScaler<F> = match prm.fit(&ds) {
            Ok(m) => m,
            Err(_) => return,
        };
        let want = model.transform(q.clone());
        let r = roundtrip("LinearScaler", &model, true, mutate);
        for (fmt, y) in r.each() {
            check_bool(&format!("LinearScaler.{}: restored == original", fmt), *y == model);
            check_bool(&format!("LinearScaler.{}: offsets identical", fmt), same1(y.offsets(), model.offsets()));
            check_bool(&format!("LinearScaler.{}: scales identical", fmt), same1(y.scales(), model.scales()));
            check_bool(&format!("LinearScaler.{}: method unchanged", fmt), y.method() == model.method());
            check_bool(&format!("LinearScaler.{}: transform of a fresh row identical", fmt), same2(&y.transform(q.clone()), &want));
        }
        let rp = roundtrip("LinearScalerParams", &prm, true, mutate);
        for (fmt, pr2) in rp.each() {
            let ok = match pr2.fit(&ds) {
                Ok(m2) => same1(m2.offsets(), model.offsets()) && same1(m2.scales(), model.scales()),
                Err(_) => false,
            };
            check_bool(&format!("LinearScalerParams.{}: refit gives the identical scaler", fmt), ok);
        }
        observe(want[(0, 0)]);
    } else {
        let ns = match which {
            6 => NormScaler::l1(),
            7 => NormScaler::l2(),
            _ => NormScaler::max(),
        };
        // a zero row has norm zero: excluded (the scaler divides by the norm)
        assume(SymB::any(&q.iter().map(|v| v.s_eq(F::lit(0.0)).not()).collect::<Vec<_>>()));
        let want: Array2<F> = ns.transform(q.clone());
        let r = roundtrip("NormScaler", &ns, true, mutate);
        for (fmt, y) in r.each() {
            let got: Array2<F> = y.transform(q.clone());
            check_bool(&format!("NormScaler.{}: transform of a fresh row identical", fmt), same2(&got, &want));
        }
        observe(want[(0, 0)]);
    }
}

/// FTRL: state after one `update` on symbolic features with given probabilities
fn ftrl<F: SS>(p: &Params) {
    use linfa_ftrl::Ftrl;
    let mutate = setup(p);
    let (n, d, b) = (p.u("n", 1), p.u("d", 1), p.get("B", 8));
    let x = sym_matrix::<F>("x", n, d, b);
    let labels: Vec<bool> = (0..n).map(|i| p.u("labels", 1) >> i & 1 == 1).collect();
    let ds = DatasetBase::new(x.clone(), Array1::from(labels));
    let valid = Ftrl::<F>::params_with_rng(SerRng(9)).alpha(F::lit(0.5)).beta(F::lit(1.0)).l1_ratio(F::lit(0.25)).l2_ratio(F::lit(0.5)).check().expect("valid ftrl parameters");
    let mut model = Ftrl::new(valid.clone(), d);
    let probs: Array1<Pr> = (0..n).map(|i| Pr::new(if i % 2 == 0 { 0.25 } else { 0.75 })).collect();
    for _ in 0..p.u("steps", 1) {
        model.update(&ds, probs.view());
    }
    let want = model.get_weights();
    let r = roundtrip("Ftrl", &model, true, mutate);
    for (fmt, y) in r.each() {
        check_bool(&format!("Ftrl.{}: z identical", fmt), same1(y.z(), model.z()));
        check_bool(&format!("Ftrl.{}: n identical", fmt), same1(y.n(), model.n()));
        check_bool(&format!("Ftrl.{}: alpha, beta, l1, l2 identical", fmt), same(y.alpha(), model.alpha()) && same(y.beta(), model.beta()) && same(y.l1_ratio(), model.l1_ratio()) && same(y.l2_ratio(), model.l2_ratio()));
        check_bool(&format!("Ftrl.{}: weights identical", fmt), same1(&y.get_weights(), &want));
        // one more update from the restored state gives the same state as from the original
        let (mut a, mut b2) = (y.clone(), model.clone());
        a.update(&ds, probs.view());
        b2.update(&ds, probs.view());
        check_bool(&format!("Ftrl.{}: the next update gives the identical state", fmt), same1(a.z(), b2.z()) && same1(a.n(), b2.n()));
    }
    let rp = roundtrip("FtrlValidParams", &valid, true, mutate);
    for (fmt, vp) in rp.each() {
        let m2 = Ftrl::new(vp.clone(), d);
        let m1 = Ftrl::new(valid.clone(), d);
        check_bool(&format!("FtrlValidParams.{}: a model initialised from the restored set is identical", fmt), same1(m2.z(), m1.z()) && same1(m2.n(), m1.n()) && same(m2.alpha(), m1.alpha()));
    }
    for w in want.iter() {
        observe(*w);
    }
}

/// OPTICS analysis on symbolic 1-D points
fn optics<F: SS>(p: &Params) {
    use linfa_clustering::Optics;
    use linfa_nn::distance::L1Dist;
    use linfa_nn::CommonNearestNeighbour;
    let mutate = setup(p);
    let (n, d, b) = (p.u("n", 3), p.u("d", 1), p.get("B", 8));
    let x = sym_matrix::<F>("x", n, d, b);
    let tol = int::<F>("tolerance", 1, 2 * b);
    let valid = Optics::params_with::<F, _, _>(p.u("mp", 2), L1Dist, CommonNearestNeighbour::LinearSearch).tolerance(tol).check().expect("valid optics parameters");
    let analysis = valid.transform(x.view());
    let r = roundtrip("OpticsAnalysis", &analysis, true, mutate);
    for (fmt, y) in r.each() {
        check_bool(&format!("OpticsAnalysis.{}: same number of samples", fmt), y.as_slice().len() == analysis.as_slice().len());
        let ok = y.iter().zip(analysis.iter()).all(|(a, b)| a.index() == b.index() && same_opt(a.core_distance(), b.core_distance()) && same_opt(a.reachability_distance(), b.reachability_distance()));
        check_bool(&format!("OpticsAnalysis.{}: order, core and reachability distances identical", fmt), ok);
    }
    let rp = roundtrip("OpticsValidParams", &valid, true, mutate);
    for (fmt, vp) in rp.each() {
        let a2 = vp.transform(x.view());
        let ok = a2.as_slice().len() == analysis.as_slice().len() && a2.iter().zip(analysis.iter()).all(|(a, b)| a.index() == b.index() && same_opt(a.core_distance(), b.core_distance()) && same_opt(a.reachability_distance(), b.reachability_distance()));
        check_bool(&format!("OpticsValidParams.{}: the restored set gives the identical analysis", fmt), ok);
    }
    for s in analysis.iter() {
        observe_usize(s.index());
    }
}

/// JSON documents of two values are equal (object members compare independently of their order, so this
/// also applies to models that keep their classes in a `HashMap`)
fn same_document<T: Serialize>(a: &T, b: &T) -> bool {
    match (serde_json::to_value(a), serde_json::to_value(b)) {
        (Ok(x), Ok(y)) => x == y,
        _ => false,
    }
}

/// decision tree fitted on symbolic features: every node compared (split, impurity decrease, prediction,
/// depth, feature name), importances, predictions on a fresh row
fn tree<F: SS>(p: &Params) {
    use linfa_trees::{DecisionTree, SplitQuality, TreeNode};
    let mutate = setup(p);
    let (n, d, b) = (p.u("n", 3), p.u("d", 1), p.get("B", 8));
    let x = sym_matrix::<F>("x", n, d, b);
    let q = sym_matrix::<F>("q", 1, d, b);
    let labels: Vec<usize> = (0..n).map(|i| p.u("labels", 0b010) >> i & 1).collect();
    let ds = DatasetBase::new(x.clone(), Array1::from(labels)).with_feature_names((0..d).map(|j| format!("f{}", j)).collect::<Vec<_>>());
    let prm = DecisionTree::<F, usize>::params()
        .split_quality(if p.u("crit", 0) == 0 { SplitQuality::Gini } else { SplitQuality::Entropy })
        .max_depth(Some(p.u("depth", 2)))
        .min_impurity_decrease(F::lit(0.0009765625));
    let model = match prm.fit(&ds) {
        Ok(m) => m,
        Err(_) => return,
    };
    fn same_node<F: Scalar>(a: &TreeNode<F, usize>, b: &TreeNode<F, usize>) -> bool {
        let (sa, sb) = (a.split(), b.split());
        let here = a.is_leaf() == b.is_leaf() && a.depth() == b.depth() && a.prediction() == b.prediction() && a.feature_name() == b.feature_name() && sa.0 == sb.0 && sa.1.identical(sb.1) && sa.2.identical(sb.2);
        let (ca, cb) = (a.children(), b.children());
        here && ca.len() == cb.len() && ca.iter().zip(cb.iter()).all(|(x, y)| match (x, y) {
            (Some(x), Some(y)) => same_node(x, y),
            (None, None) => true,
            _ => false,
        })
    }
    let want = model.predict(&q);
    let r = roundtrip("DecisionTree", &model, true, mutate);
    for (fmt, y) in r.each() {
        check_bool(&format!("DecisionTree.{}: restored == original", fmt), *y == model);
        check_bool(&format!("DecisionTree.{}: every node identical (split feature, value, impurity decrease, prediction, depth, feature name, children)", fmt), same_node(y.root_node(), model.root_node()));
        // features() collects a HashSet: its order is arbitrary, the set is compared
        let sorted = |mut v: Vec<usize>| {
            v.sort();
            v
        };
        check_bool(&format!("DecisionTree.{}: depth, leaves and the set of used features unchanged", fmt), y.max_depth() == model.max_depth() && y.num_leaves() == model.num_leaves() && sorted(y.features()) == sorted(model.features()));
        let (ia, ib) = (y.feature_importance(), model.feature_importance());
        check_bool(&format!("DecisionTree.{}: feature importance identical", fmt), ia.len() == ib.len() && ia.iter().zip(ib.iter()).all(|(a, b)| a.identical(*b)));
        check_bool(&format!("DecisionTree.{}: prediction on a fresh row unchanged", fmt), y.predict(&q) == want);
    }
    let rp = roundtrip("DecisionTreeParams", &prm, true, mutate);
    for (fmt, pr2) in rp.each() {
        let ok = match pr2.fit(&ds) {
            Ok(m2) => same_node(m2.root_node(), model.root_node()),
            Err(_) => false,
        };
        check_bool(&format!("DecisionTreeParams.{}: refit gives the identical tree", fmt), ok);
    }
    observe_usize(want[0]);
}

/// Gaussian (which=0) and multinomial (which=1) naive Bayes fitted on symbolic features
fn bayes<F: SS>(p: &Params) {
    use linfa_bayes::{GaussianNb, MultinomialNb};
    let mutate = setup(p);
    let (n, d, b) = (p.u("n", 2), p.u("d", 1), p.get("B", 8));
    let labels: Vec<usize> = (0..n).map(|i| p.u("labels", 0b10) >> i & 1).collect();
    if p.u("which", 0) == 0 {
        let x = sym_matrix::<F>("x", n, d, b);
        let q = sym_matrix::<F>("q", 1, d, b);
        let ds = DatasetBase::new(x.clone(), Array1::from(labels));
        // a feature that is constant over the whole data has variance zero in every class even after smoothing
        // (smoothing is a fraction of the largest feature variance): the model then takes ln(0); excluded
        for j in 0..d {
            let mut differ = vec![];
            for i in 1..n {
                differ.push(x[(0, j)].s_eq(x[(i, j)]).not());
            }
            assume(SymB::any(&differ));
        }
        let valid = GaussianNb::<F, usize>::params().var_smoothing(F::lit(0.0625)).check().expect("valid parameters");
        let model = match valid.fit(&ds) {
            Ok(m) => m,
            Err(_) => return,
        };
        let want = model.predict(&q);
        let r = roundtrip("GaussianNb", &model, false, mutate);
        for (fmt, y) in r.each() {
            check_bool(&format!("GaussianNb.{}: restored == original", fmt), *y == model);
            check_bool(&format!("GaussianNb.{}: same document (class counts, priors, theta, sigma per class)", fmt), same_document(y, &model));
            check_bool(&format!("GaussianNb.{}: prediction on a fresh row unchanged", fmt), y.predict(&q) == want);
        }
        let rp = roundtrip("GaussianNbValidParams", &valid, true, mutate);
        for (fmt, vp) in rp.each() {
            let ok = match vp.fit(&ds) {
                Ok(m2) => same_document(&m2, &model),
                Err(_) => false,
            };
            check_bool(&format!("GaussianNbValidParams.{}: refit gives the identical model", fmt), ok);
        }
        observe_usize(want[0]);
    } else {
        // counts: non-negative integers
        let mut x = Array2::from_elem((n, d), F::lit(0.0));
        for i in 0..n {
            for j in 0..d {
                x[(i, j)] = int::<F>(&format!("x{}_{}", i, j), 0, b);
            }
        }
        let mut q = Array2::from_elem((1, d), F::lit(0.0));
        for j in 0..d {
            q[(0, j)] = int::<F>(&format!("q{}", j), 0, b);
        }
        let ds = DatasetBase::new(x.clone(), Array1::from(labels));
        let valid = MultinomialNb::<F, usize>::params().alpha(F::lit(1.0)).check().expect("valid parameters");
        let model = match valid.fit(&ds) {
            Ok(m) => m,
            Err(_) => return,
        };
        let want = model.predict(&q);
        let r = roundtrip("MultinomialNb", &model, false, mutate);
        for (fmt, y) in r.each() {
            check_bool(&format!("MultinomialNb.{}: restored == original", fmt), *y == model);
            check_bool(&format!("MultinomialNb.{}: same document (class counts, priors, feature counts, feature log probabilities per class)", fmt), same_document(y, &model));
            check_bool(&format!("MultinomialNb.{}: prediction on a fresh row unchanged", fmt), y.predict(&q) == want);
        }
        let rp = roundtrip("MultinomialNbValidParams", &valid, true, mutate);
        for (fmt, vp) in rp.each() {
            let ok = match vp.fit(&ds) {
                Ok(m2) => same_document(&m2, &model),
                Err(_) => false,
            };
            check_bool(&format!("MultinomialNbValidParams.{}: refit gives the identical model", fmt), ok);
        }
        observe_usize(want[0]);
    }
}

/// support vector classification on dyadic points with symbolic class weights (linear kernel: explicit
/// hyperplane; polynomial kernel: support vectors) and epsilon-regression
fn svm<F: SS>(p: &Params) {
    use linfa_svm::Svm;
    let mutate = setup(p);
    let n = p.u("n", 3);
    let pts = [0.0, 1.0, 2.0, 4.0];
    let mut x = Array2::from_elem((n, 1), F::lit(0.0));
    for i in 0..n {
        x[(i, 0)] = F::lit(pts[i % 4]);
    }
    let q = Array1::from_elem(1, int::<F>("q", -8, 8));
    let q2 = q.clone().insert_axis(ndarray::Axis(0));
    let kind = p.u("kern", 0);
    if p.u("which", 0) == 0 {
        let y: Vec<bool> = (0..n).map(|i| p.u("pat", 0b101) >> i & 1 == 1).collect();
        let (cp, cn) = (F::input("cpos", 1, 32, 2), F::input("cneg", 1, 32, 2));
        let ds = DatasetBase::new(x.clone(), Array1::from_vec(y));
        let prm = Svm::<F, bool>::params().pos_neg_weights(cp, cn).eps(F::lit(0.0625)).shrinking(false);
        let prm = if kind == 2 { prm.polynomial_kernel(F::lit(1.0), F::lit(2.0)) } else { prm.linear_kernel() };
        let model = match prm.fit(&ds) {
            Ok(m) => m,
            Err(_) => return,
        };
        let want_sum = model.weighted_sum(&q);
        let want_label = model.predict(&q2);
        let r = roundtrip("Svm<bool>", &model, true, mutate);
        for (fmt, m2) in r.each() {
            check_bool(&format!("Svm.{}: restored == original", fmt), *m2 == model);
            check_bool(&format!("Svm.{}: alpha and rho identical", fmt), m2.alpha.len() == model.alpha.len() && m2.alpha.iter().zip(model.alpha.iter()).all(|(a, b)| a.identical(*b)) && same(m2.rho, model.rho));
            check_bool(&format!("Svm.{}: nsupport unchanged", fmt), m2.nsupport() == model.nsupport());
            check_bool(&format!("Svm.{}: Display (exit reason, iterations, objective) unchanged", fmt), format!("{}", m2) == format!("{}", model));
            check_bool(&format!("Svm.{}: decision value of a fresh row identical", fmt), same(m2.weighted_sum(&q), want_sum));
            check_bool(&format!("Svm.{}: predicted label of a fresh row unchanged", fmt), m2.predict(&q2) == want_label);
        }
        observe(want_sum);
    } else {
        // epsilon-regression is implemented for f32 / f64 only: concrete execution
        let xf = ndarray::array![[0.0f64], [1.0], [2.0], [4.0]];
        let ds = DatasetBase::new(xf, ndarray::array![1.0f64, 2.0, 2.5, 5.0]);
        let prm = Svm::<f64, f64>::params().c_svr(1.0, Some(0.25)).eps(0.0625).shrinking(false).linear_kernel();
        let model = match prm.fit(&ds) {
            Ok(m) => m,
            Err(_) => return,
        };
        let qf = ndarray::array![[3.0f64], [-1.5]];
        let want = model.predict(&qf);
        let r = roundtrip("Svm<f64,f64>", &model, true, mutate);
        for (fmt, m2) in r.each() {
            check_bool(&format!("Svm(regression, f64).{}: restored == original", fmt), *m2 == model);
            check_bool(&format!("Svm(regression, f64).{}: alpha and rho bit-identical", fmt), m2.alpha.len() == model.alpha.len() && m2.alpha.iter().zip(model.alpha.iter()).all(|(a, b)| a.to_bits() == b.to_bits()) && m2.rho.to_bits() == model.rho.to_bits());
            check_bool(&format!("Svm(regression, f64).{}: Display unchanged", fmt), format!("{}", m2) == format!("{}", model));
            let got = m2.predict(&qf);
            check_bool(&format!("Svm(regression, f64).{}: predictions of fresh rows bit-identical", fmt), got.len() == want.len() && got.iter().zip(want.iter()).all(|(a, b)| a.to_bits() == b.to_bits()));
        }
        let _ = q2;
    }
}

/// the Tweedie GLM model type with symbolic coefficients for every link.  Its fit and its predict are not
/// generic (`linfa_linear::Float` = f32 / f64), so the value is built through the type's own deserialiser
/// and only the generic part (the serde derive, `==`, the public fields) runs on the symbolic scalar; the
/// real fit and the predictions are in `c19.concrete which=3`.
fn glm<F: SS>(p: &Params) {
    use linfa_linear::TweedieRegressor;
    let mutate = setup(p);
    let (d, b) = (p.u("d", 2), p.get("B", 8));
    let coef = sym_vector::<F>("w", d, b);
    let icpt = int::<F>("b", -b, b);
    for link in ["Identity", "Log", "Logit"] {
        let doc = serde_json::json!({"coef": serde_json::to_value(&coef).unwrap(), "intercept": serde_json::to_value(icpt).unwrap(), "link": link});
        let model: TweedieRegressor<F> = serde_json::from_value(doc).expect("TweedieRegressor from its document");
        let r = roundtrip("TweedieRegressor", &model, true, mutate);
        for (fmt, y) in r.each() {
            check_bool(&format!("TweedieRegressor.{}: restored == original", fmt), *y == model);
            check_bool(&format!("TweedieRegressor.{}: coefficients and intercept identical", fmt), same1(&y.coef, &model.coef) && same(y.intercept, model.intercept));
            check_bool(&format!("TweedieRegressor.{}: same document (link unchanged)", fmt), same_document(y, &model));
        }
    }
}

/// Non-generic fits, run with plain f64 on constant data: these obligations are concrete executions, not
/// solver-decided.  which = 0 logistic regression (binary and multinomial), 1 Gaussian mixture, 2 whitening
/// (PCA / ZCA / Cholesky), 3 Tweedie regressor, 4 logistic-regression parameter sets, 5 isotonic regression, 6 count vectoriser, 7 tf-idf vectoriser.
fn concrete<F: SS>(p: &Params) {
    let mutate = setup(p);
    let bits1 = |a: &Array1<f64>, b: &Array1<f64>| a.len() == b.len() && a.iter().zip(b.iter()).all(|(x, y)| x.to_bits() == y.to_bits());
    let bits2 = |a: &Array2<f64>, b: &Array2<f64>| a.dim() == b.dim() && a.iter().zip(b.iter()).all(|(x, y)| x.to_bits() == y.to_bits());
    let x = ndarray::array![[1.0f64, 2.0], [2.0, 1.5], [3.0, 4.5], [4.0, 3.0], [5.5, 6.0], [6.0, 5.0]];
    let q = ndarray::array![[2.5f64, 3.5], [5.0, 1.0]];
    match p.u("which", 0) {
        0 => {
            use linfa_logistic::{LogisticRegression, MultiLogisticRegression};
            let ds = Dataset::new(x.clone(), ndarray::array![0usize, 0, 0, 1, 1, 1]);
            let model = LogisticRegression::default().max_iterations(20).fit(&ds).expect("logistic fit");
            let want = model.predict_probabilities(&q);
            let r = roundtrip("FittedLogisticRegression", &model, true, mutate);
            for (fmt, y) in r.each() {
                check_bool(&format!("FittedLogisticRegression.{}: restored == original", fmt), *y == model);
                check_bool(&format!("FittedLogisticRegression.{}: params and intercept bit-identical", fmt), bits1(y.params(), model.params()) && y.intercept().to_bits() == model.intercept().to_bits());
                check_bool(&format!("FittedLogisticRegression.{}: class labels unchanged", fmt), y.labels() == model.labels());
                check_bool(&format!("FittedLogisticRegression.{}: probabilities and labels of fresh rows bit-identical", fmt), bits1(&y.predict_probabilities(&q), &want) && y.predict(&q) == model.predict(&q));
            }
            let ds3 = Dataset::new(x.clone(), ndarray::array![0usize, 0, 1, 1, 2, 2]);
            let model = MultiLogisticRegression::default().max_iterations(20).fit(&ds3).expect("multinomial logistic fit");
            let want = model.predict_probabilities(&q);
            let r = roundtrip("MultiFittedLogisticRegression", &model, true, mutate);
            for (fmt, y) in r.each() {
                check_bool(&format!("MultiFittedLogisticRegression.{}: restored == original", fmt), *y == model);
                check_bool(&format!("MultiFittedLogisticRegression.{}: params, intercept and classes unchanged", fmt), bits2(y.params(), model.params()) && bits1(y.intercept(), model.intercept()) && y.classes() == model.classes());
                check_bool(&format!("MultiFittedLogisticRegression.{}: probabilities and labels of fresh rows bit-identical", fmt), bits2(&y.predict_probabilities(&q), &want) && y.predict(&q) == model.predict(&q));
            }
        }
        1 => {
            use linfa_clustering::GaussianMixtureModel;
            let ds = DatasetBase::from(x.clone());
            let model = GaussianMixtureModel::params_with_rng(2, SerRng(1)).n_runs(1).max_n_iterations(10).fit(&ds).expect("gmm fit");
            let r = roundtrip("GaussianMixtureModel", &model, true, mutate);
            for (fmt, y) in r.each() {
                check_bool(&format!("GaussianMixtureModel.{}: restored == original", fmt), *y == model);
                let arr3 = |a: &ndarray::Array3<f64>, b: &ndarray::Array3<f64>| a.dim() == b.dim() && a.iter().zip(b.iter()).all(|(x, y)| x.to_bits() == y.to_bits());
                check_bool(&format!("GaussianMixtureModel.{}: weights, means, covariances, precisions bit-identical", fmt), bits1(y.weights(), model.weights()) && bits2(y.means(), model.means()) && arr3(y.covariances(), model.covariances()) && arr3(y.precisions(), model.precisions()));
                check_bool(&format!("GaussianMixtureModel.{}: responsibilities and labels of fresh rows bit-identical", fmt), bits2(&y.predict_proba(&q), &model.predict_proba(&q)) && y.predict(&q) == model.predict(&q));
            }
        }
        2 => {
            use linfa_preprocessing::whitening::Whitener;
            let ds = DatasetBase::from(x.clone());
            for (name, w) in [("pca", Whitener::pca()), ("zca", Whitener::zca()), ("cholesky", Whitener::cholesky())] {
                let model = w.fit(&ds).expect("whitener fit");
                let want = model.transform(q.clone());
                let r = roundtrip(&format!("FittedWhitener({})", name), &model, true, mutate);
                for (fmt, y) in r.each() {
                    check_bool(&format!("FittedWhitener.{}: restored == original", fmt), *y == model);
                    check_bool(&format!("FittedWhitener.{}: transformation matrix and mean bit-identical", fmt), bits2(&y.transformation_matrix().to_owned(), &model.transformation_matrix().to_owned()) && bits1(&y.mean().to_owned(), &model.mean().to_owned()));
                    check_bool(&format!("FittedWhitener.{}: transform of fresh rows bit-identical", fmt), bits2(&y.transform(q.clone()), &want));
                }
                let rp = roundtrip("Whitener", &w, true, mutate);
                for (fmt, w2) in rp.each() {
                    let ok = match w2.fit(&ds) {
                        Ok(m2) => bits2(&m2.transformation_matrix().to_owned(), &model.transformation_matrix().to_owned()),
                        Err(_) => false,
                    };
                    check_bool(&format!("Whitener.{}: refit gives the identical whitener", fmt), ok);
                }
            }
        }
        3 => {
            use linfa_linear::TweedieRegressor;
            let ds = Dataset::new(x.clone(), ndarray::array![1.0f64, 1.5, 3.0, 2.5, 5.0, 4.5]);
            let valid = TweedieRegressor::params().power(1.0).alpha(0.5).max_iter(30).check().expect("valid parameters");
            let model = valid.fit(&ds).expect("tweedie fit");
            let want = model.predict(&q);
            let r = roundtrip("TweedieRegressor(f64)", &model, true, mutate);
            for (fmt, y) in r.each() {
                check_bool(&format!("TweedieRegressor(f64).{}: restored == original", fmt), *y == model);
                check_bool(&format!("TweedieRegressor(f64).{}: coefficients, intercept and predictions bit-identical", fmt), bits1(&y.coef, &model.coef) && y.intercept.to_bits() == model.intercept.to_bits() && bits1(&y.predict(&q), &want));
            }
            let rp = roundtrip("TweedieRegressorValidParams(f64)", &valid, true, mutate);
            for (fmt, vp) in rp.each() {
                let ok = match vp.fit(&ds) {
                    Ok(m2) => bits1(&m2.coef, &model.coef) && m2.intercept.to_bits() == model.intercept.to_bits(),
                    Err(_) => false,
                };
                check_bool(&format!("TweedieRegressorValidParams(f64).{}: refit gives the identical model", fmt), ok);
            }
        }
        5 => {
            use linfa_linear::IsotonicRegression;
            let x1 = ndarray::array![[1.0f64], [2.0], [3.0], [4.0], [5.0], [6.0]];
            let ds = Dataset::new(x1, ndarray::array![1.0f64, 3.0, 2.0, 4.0, 3.5, 6.0]);
            let prm = IsotonicRegression::new();
            let model = prm.fit(&ds).expect("isotonic fit");
            let q1 = ndarray::array![[0.5f64], [2.5], [4.5], [7.0]];
            let want = model.predict(&q1);
            let r = roundtrip("FittedIsotonicRegression", &model, true, mutate);
            for (fmt, y) in r.each() {
                check_bool(&format!("FittedIsotonicRegression.{}: restored == original", fmt), *y == model);
                check_bool(&format!("FittedIsotonicRegression.{}: same document (regressor and response knots)", fmt), same_document(y, &model));
                check_bool(&format!("FittedIsotonicRegression.{}: predictions of fresh rows bit-identical", fmt), bits1(&y.predict(&q1), &want));
            }
        }
        6 => {
            // count vectoriser: regex tokenizer (restorable) and function tokenizer (documented guard)
            use linfa_preprocessing::{CountVectorizer, Tokenizer};
            let docs = ndarray::array!["one two three four", "two three four", "three four", "four five six"];
            let fresh = ndarray::array!["four four two", "seven one", ""];
            let prm = CountVectorizer::params().n_gram_range(1, 2).document_frequency(0.25, 1.0).normalize(false).stopwords(&["five"]).tokenizer(Tokenizer::Regex(r"\b\w+\b".to_string()));
            let model = prm.fit(&docs).expect("count vectorizer fit");
            let want = model.transform(&fresh).expect("transform").to_dense();
            let r = roundtrip("CountVectorizer", &model, false, mutate);
            for (fmt, y) in r.each() {
                check_bool(&format!("CountVectorizer.{}: vocabulary (order used by transform) and its size unchanged", fmt), y.vocabulary() == model.vocabulary() && y.nentries() == model.nentries());
                check_bool(&format!("CountVectorizer.{}: same document", fmt), same_document(y, &model));
                check_bool(&format!("CountVectorizer.{}: counts of fresh documents unchanged", fmt), y.transform(&fresh).map(|m| m.to_dense() == want).unwrap_or(false));
            }
            let rp = roundtrip("CountVectorizerParams", &prm, true, mutate);
            for (fmt, pr2) in rp.each() {
                check_bool(&format!("CountVectorizerParams.{}: check() verdict unchanged", fmt), verdict(&pr2.check_ref()) == verdict(&prm.check_ref()));
                check_bool(&format!("CountVectorizerParams.{}: same document", fmt), same_document(pr2, &prm));
                let ok = match pr2.fit(&docs) {
                    Ok(m2) => {
                        let (mut a, mut b) = (m2.vocabulary().clone(), model.vocabulary().clone());
                        a.sort();
                        b.sort();
                        a == b
                    }
                    Err(_) => false,
                };
                check_bool(&format!("CountVectorizerParams.{}: refit learns the same vocabulary", fmt), ok);
            }
            for (a, b) in [(0usize, 1usize), (2, 1)] {
                let bad = CountVectorizer::params().n_gram_range(a, b);
                let r = roundtrip("CountVectorizerParams(invalid)", &bad, true, 0);
                for (fmt, y) in r.each() {
                    check_bool(&format!("CountVectorizerParams.{}: an invalid set fails check() the same way", fmt), verdict(&y.check_ref()) == verdict(&bad.check_ref()) && bad.check_ref().is_err());
                }
            }
            // a function tokenizer cannot be serialised: the restored vectoriser refuses to transform until the
            // function is supplied again (documented), and then counts as before
            fn split_ws(s: &str) -> Vec<&str> {
                s.split(' ').collect()
            }
            let model = CountVectorizer::params().tokenizer(Tokenizer::Function(split_ws)).normalize(false).fit(&docs).expect("fit");
            let want = model.transform(&fresh).expect("transform").to_dense();
            let r = roundtrip("CountVectorizer(function tokenizer)", &model, false, 0);
            for (fmt, y) in r.each() {
                check_bool(&format!("CountVectorizer(function tokenizer).{}: restored value refuses to transform (TokenizerNotSet)", fmt), y.transform(&fresh).is_err());
                let mut y2 = y.clone();
                y2.force_tokenizer_function_redefinition(split_ws);
                check_bool(&format!("CountVectorizer(function tokenizer).{}: after redefinition the counts are unchanged", fmt), y2.vocabulary() == model.vocabulary() && y2.transform(&fresh).map(|m| m.to_dense() == want).unwrap_or(false));
            }
        }
        7 => {
            use linfa_preprocessing::tf_idf_vectorization::{TfIdfMethod, TfIdfVectorizer};
            let docs = ndarray::array!["one two three four", "two three four", "three four", "four five six"];
            let fresh = ndarray::array!["four four two", "seven one", ""];
            for method in [TfIdfMethod::Smooth, TfIdfMethod::NonSmooth, TfIdfMethod::Textbook] {
                let r = roundtrip("TfIdfMethod", &method, true, mutate);
                for (fmt, y) in r.each() {
                    check_bool(&format!("TfIdfMethod.{}: restored == original", fmt), *y == method);
                }
            }
            // (the public API offers no way to select another method than the default `Smooth`)
            {
                let prm = TfIdfVectorizer::default().n_gram_range(1, 2);
                let model = prm.fit(&docs).expect("tf-idf fit");
                let want = model.transform(&fresh).expect("transform").to_dense();
                let r = roundtrip("FittedTfIdfVectorizer", &model, false, mutate);
                for (fmt, y) in r.each() {
                    check_bool(&format!("FittedTfIdfVectorizer.{}: vocabulary, size and method unchanged", fmt), y.vocabulary() == model.vocabulary() && y.nentries() == model.nentries() && y.method() == model.method());
                    check_bool(&format!("FittedTfIdfVectorizer.{}: same document (vocabulary map, document frequencies, properties)", fmt), same_document(y, &model));
                    let got = y.transform(&fresh).map(|m| m.to_dense());
                    check_bool(&format!("FittedTfIdfVectorizer.{}: weights of fresh documents bit-identical", fmt), got.map(|g| bits2(&g, &want)).unwrap_or(false));
                }
                let rp = roundtrip("TfIdfVectorizer", &prm, true, mutate);
                for (fmt, pr2) in rp.each() {
                    check_bool(&format!("TfIdfVectorizer.{}: same document", fmt), same_document(pr2, &prm));
                    let ok = match pr2.fit(&docs) {
                        Ok(m2) => {
                            let (mut a, mut b) = (m2.vocabulary().clone(), model.vocabulary().clone());
                            a.sort();
                            b.sort();
                            a == b && m2.method() == model.method()
                        }
                        Err(_) => false,
                    };
                    check_bool(&format!("TfIdfVectorizer.{}: refit learns the same vocabulary with the same method", fmt), ok);
                }
            }
        }
        _ => {
            use linfa_logistic::{LogisticRegression, MultiLogisticRegression};
            for (alpha, tol) in [(1.0f64, 1e-4f64), (-1.0, 1e-4), (0.5, 0.0), (f64::INFINITY, 1e-4)] {
                let prm = LogisticRegression::<f64>::default().alpha(alpha).gradient_tolerance(tol).with_intercept(false).max_iterations(7).initial_params(ndarray::array![0.25, -0.5]);
                // JSON has no infinity: only bincode is a lossless format for that value
                let r = roundtrip_opts("LogisticRegressionParams", &prm, true, mutate, alpha.is_finite());
                for (fmt, y) in r.each() {
                    check_bool(&format!("LogisticRegressionParams.{}: restored == original", fmt), *y == prm);
                    check_bool(&format!("LogisticRegressionParams.{}: check() verdict unchanged", fmt), verdict(&y.check_ref()) == verdict(&prm.check_ref()));
                }
            }
            let prm = MultiLogisticRegression::<f64>::default().alpha(0.25).initial_params(ndarray::array![[0.25, -0.5], [1.0, 2.0]]);
            let r = roundtrip("MultiLogisticRegressionParams", &prm, true, mutate);
            for (fmt, y) in r.each() {
                check_bool(&format!("MultiLogisticRegressionParams.{}: restored == original", fmt), *y == prm);
                check_bool(&format!("MultiLogisticRegressionParams.{}: check() verdict unchanged", fmt), verdict(&y.check_ref()) == verdict(&prm.check_ref()));
            }
        }
    }
    let _ = F::lit(0.0);
}

/// Is a type that derives Serialize under the `serde` feature serialisable at all?  (autoref probe, decided
/// at compile time for the concrete type.)  Informational: not a round-trip claim, not in the registry.
struct Probe<T>(std::marker::PhantomData<T>);
trait NotSerialisable {
    fn offered(&self) -> bool {
        false
    }
}
impl<T> NotSerialisable for Probe<T> {}
impl<T: Serialize + DeserializeOwned> Probe<T> {
    fn offered(&self) -> bool {
        true
    }
}
fn offer<F: SS>(_p: &Params) {
    use std::marker::PhantomData as PD;
    check_bool("offer.Kernel<f64> (derives Serialize/Deserialize) can be serialised", Probe::<linfa_kernel::Kernel<f64>>(PD).offered());
    check_bool("offer.KernelView<f64> can be serialised", Probe::<linfa_kernel::KernelView<'static, f64>>(PD).offered());
    check_bool("offer.the parameter set returned by KMeans::params (default generator) can be serialised", Probe::<linfa_clustering::KMeansParams<f64, rand_xoshiro::Xoshiro256Plus, linfa_nn::distance::L2Dist>>(PD).offered());
    check_bool("offer.the parameter set returned by Ftrl::params (default generator) can be serialised", Probe::<linfa_ftrl::FtrlParams<f64, rand_xoshiro::Xoshiro256Plus>>(PD).offered());
    check_bool("offer.the parameter set returned by GaussianMixtureModel::params (default generator) can be serialised", Probe::<linfa_clustering::GmmParams<f64, rand_xoshiro::Xoshiro256Plus>>(PD).offered());
    let _ = F::lit(0.0);
}
pub fn register(v: &mut Vec<HarnessDef>) {
    harness!(v, "c19.plain", "C19", plain,
        "scalar-free serialisable types (neighbour selectors, metrics, algorithm markers, option enums, error enums): bincode and JSON round trips give equal values / equal messages",
        ["serde derives of linfa_nn::{CommonNearestNeighbour,KdTree,BallTree,LinearSearch,L1Dist,L2Dist,LInfDist}", "linfa_clustering::{Dbscan,Optics,GmmCovarType,GmmInitMethod}", "linfa_trees::SplitQuality", "linfa_linear::{Link,LinearRegression,IsotonicRegression}", "linfa_svm::ExitReason", "linfa_preprocessing::{NormScaler,Whitener}", "linfa::Error, PlattError, ElasticNetError, FtrlError"],
        ["linfa::Error::NdShape is serde(skip): checked to be refused by the serialiser"]);
    harness!(v, "c19.error_after_skip", "C19", error_after_skip,
        "linfa::Error variants declared after the serde(skip) variant NdShape, alone and wrapped in PlattError / ElasticNetError / FtrlError: bincode and JSON round trips",
        ["serde derive of linfa::Error (src/error.rs: #[serde(skip)] on NdShape)", "PlattError, linfa_elasticnet::ElasticNetError, linfa_ftrl::FtrlError"],
        []);
    harness!(v, "c19.params", "C19", params,
        "parameter sets with scalar fields (which = 0 k-means, 1 DBSCAN/OPTICS, 2 Gaussian mixture, 3 elastic net, 4 FTRL, 5 tree + naive Bayes, 6 scalers + Tweedie + kernel method + LpDist): round trip, ==, accessors identical, check() verdict unchanged, on both sides of every validity bound",
        ["serde derives of KMeansParams/KMeansValidParams/KMeansInit, DbscanValidParams, OpticsParams/OpticsValidParams, GmmParams/GmmValidParams, ElasticNetValidParamsBase, FtrlParams/FtrlValidParams, DecisionTreeParams/DecisionTreeValidParams, GaussianNbValidParams, MultinomialNbValidParams, ScalingMethod, LinearScalerParams, TweedieRegressorValidParams, KernelMethod, LpDist", "the ParamGuard::check_ref of each"],
        ["scalar hyper-parameters are quarter steps in [-1/2, 1/2] (both sides of every validity bound), centroids integers", "parameter sets that carry a random number generator are built with a serialisable generator (the crates' serde feature does not enable rand_xoshiro/serde1)"]);
    harness!(v, "c19.kmeans", "C19", kmeans,
        "KMeans fitted from precomputed symbolic centroids (L1): restored model ==, centroids / cluster_count / inertia identical, predict and transform on a fresh symbolic row unchanged; restored KMeansValidParams refits to the identical model",
        ["linfa_clustering::KMeansValidParams::fit", "serde derives of KMeans, KMeansValidParams, KMeansInit, L1Dist", "KMeans::{predict, transform, centroids, cluster_count, inertia}"],
        ["integer coordinates in [-B,B]; one run, iteration budget `iters`; paths on which the fit reports NotConverged have no model"]);
    harness!(v, "c19.linear", "C19", linear,
        "which=0 FittedLinearRegression (QR fit on symbolic data), which=1 ElasticNet: restored model ==/accessors identical (params, intercept, hyperplane, duality gap, n_steps, z_score), prediction on a fresh row identical, restored parameter set refits to the identical model",
        ["linfa_linear::LinearRegression::fit", "linfa_elasticnet::ElasticNetValidParams::fit (coordinate_descent, duality_gap, variance_params)", "serde derives of LinearRegression, FittedLinearRegression, ElasticNet, ElasticNetValidParamsBase, ElasticNetError"],
        ["p = 1 integer design whose (centred) column is not zero, integer targets"]);
    harness!(v, "c19.multitask", "C19", multitask,
        "MultiTaskElasticNet: hyperplane, intercept, duality gap, n_steps, z_score and predictions of the restored model identical",
        ["linfa_elasticnet::MultiTaskElasticNetValidParams::fit (block_coordinate_descent)", "serde derive of MultiTaskElasticNet"],
        ["p = 1 integer design whose (centred) column is not zero"]);
    harness!(v, "c19.scaler", "C19", scaler,
        "LinearScaler for every scaling method (which=0..5) and NormScaler (6..8): restored ==, offsets / scales / method identical, transform of a fresh row identical, restored LinearScalerParams refits identically",
        ["linfa_preprocessing::linear_scaling::{LinearScalerParams::fit, LinearScaler::transform}", "linfa_preprocessing::norm_scaling::NormScaler::transform", "serde derives of LinearScaler, LinearScalerParams, ScalingMethod, NormScaler"],
        ["integer data; NormScaler: the transformed row is not the zero row"]);
    harness!(v, "c19.ftrl", "C19", ftrl,
        "Ftrl after `steps` updates on symbolic features: z, n, hyper-parameters and weights of the restored model identical, the next update from the restored state identical; restored FtrlValidParams initialises the identical model",
        ["linfa_ftrl::Ftrl::{new, update, get_weights, z, n}", "serde derives of Ftrl, FtrlValidParams"],
        ["probabilities handed to update are constants (predict goes through f32 `Pr`, which concretises, and is not called)"]);
    harness!(v, "c19.optics", "C19", optics,
        "OpticsAnalysis of symbolic points: order, core and reachability distances of the restored analysis identical; the restored parameter set produces the identical analysis",
        ["linfa_clustering::OpticsValidParams::transform", "serde derives of OpticsAnalysis, Sample, OpticsValidParams"],
        ["integer 1-D points, L1 metric, linear search, integer tolerance"]);
    harness!(v, "c19.tree", "C19", tree,
        "DecisionTree fitted on symbolic features: restored tree node by node (split feature / value / impurity decrease, prediction, depth, feature name), importances, predictions on a fresh row; restored parameters refit to the identical tree",
        ["linfa_trees::DecisionTreeValidParams::fit (TreeNode::fit)", "serde derives of DecisionTree, TreeNode, DecisionTreeParams, SplitQuality", "DecisionTree::{predict, root_node, feature_importance, features, max_depth, num_leaves}"],
        ["integer features, fixed label pattern"]);
    harness!(v, "c19.bayes", "C19", bayes,
        "GaussianNb (which=0) / MultinomialNb (which=1) fitted on symbolic features: restored ==, same class-information document, predictions on a fresh row unchanged, restored parameters refit to the identical model",
        ["linfa_bayes::{GaussianNbValidParams,MultinomialNbValidParams}::fit", "serde derives of GaussianNb/GaussianClassInfo, MultinomialNb/MultinomialClassInfo and their parameter sets", "NaiveBayes::predict (joint_log_likelihood)"],
        ["integer features (counts >= 0 for the multinomial model), fixed label pattern; Gaussian model: no feature is constant over the whole data (else ln 0); the models keep their classes in a HashMap, so byte / Debug comparisons are replaced by document equality"]);
    harness!(v, "c19.svm", "C19", svm,
        "Svm: C-classification (which=0; kern=0 linear, 2 polynomial) with symbolic class weights on dyadic points, and epsilon-regression (which=1; f32/f64 only, so a CONCRETE f64 execution): restored ==, alpha / rho identical, nsupport, Display, decision value and prediction of a fresh symbolic row identical",
        ["linfa_svm::SvmValidParams::fit (fit_c, fit_epsilon, SolverState::solve)", "serde derives of Svm, SeparatingHyperplane, ExitReason, KernelMethod", "Svm::{weighted_sum, predict, nsupport}"],
        ["points are the constants 0,1,2,4; class weights quarter steps in (0,8], targets integers"]);
    harness!(v, "c19.glm", "C19", glm,
        "TweedieRegressor values with symbolic coefficients for every link (built through the type's own deserialiser; fit and predict are f32/f64 only, see c19.concrete which=3): restored ==, public fields identical, same document",
        ["serde derives of TweedieRegressor, Link"],
        ["integer coefficients"]);
    harness!(v, "c19.concrete", "C19", concrete,
        "CONCRETE (plain f64, constant data, one execution; not solver-decided): which=0 logistic regression binary + multinomial, 1 Gaussian mixture, 2 whitening pca/zca/cholesky, 3 Tweedie regressor, 4 logistic parameter sets, 5 isotonic regression, 6 count vectoriser (regex tokenizer; function tokenizer with its documented guard), 7 tf-idf vectoriser (c19.svm which=1: epsilon-SVR): restored ==, learned quantities and predictions bit-identical, refit identical",
        ["linfa_logistic::{LogisticRegression,MultiLogisticRegression}::fit", "linfa_clustering::GmmValidParams::fit", "linfa_preprocessing::whitening::Whitener::fit", "linfa_linear::TweedieRegressorValidParams::fit", "linfa_linear::IsotonicRegression::fit", "linfa_preprocessing::{CountVectorizerValidParams::fit, CountVectorizer::transform, TfIdfVectorizer::fit, FittedTfIdfVectorizer::transform}", "serde derives of CountVectorizer, CountVectorizerParams/ValidParams (SerdeRegex, tokenizer guard), TfIdfVectorizer, FittedTfIdfVectorizer, TfIdfMethod, FittedIsotonicRegression, FittedLogisticRegression, MultiFittedLogisticRegression, BinaryClassLabels, ClassLabel, LogisticRegressionParams, GaussianMixtureModel, FittedWhitener, TweedieRegressor"],
        ["f64 only, one data set"]);
    harness!(v, "c19.offer", "C19", offer,
        "informational (not registered): which types that derive serialisation can actually be serialised (compile-time probe)",
        ["serde derive of linfa_kernel::KernelBase (bound on KernelInner, which derives nothing)"],
        []);
}

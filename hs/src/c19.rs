use crate::common::*;
pub fn register(_v: &mut Vec<HarnessDef>) {}

//! C02 — dataset operations keep record, target(s), weight and names of a sample / column together.
//!
//! Record cells x(r,j) and target cells t(r,c) are symbolic tags with pairwise disjoint domains (linfa
//! only moves them), weights are the concrete f32 values 100+r, names are "f<j>" / "t<c>".  Every
//! result of an operation is read back through the public accessors, every cell is located in the
//! original table (`identify`), and the provenance found is compared with the documented selection.
//! Operations are also run on the *outputs* of other operations (depth 2).
use crate::common::*;
use crate::{harness, harness_sym};
use linfa::dataset::{AsTargets, CountedTargets, DatasetBase, Labels, Records, TargetDim};
use linfa::Label;
use ndarray::{Array, Array1, Array2, ArrayBase, ArrayView, ArrayView2, Axis, Data, Dimension, Ix1, Ix2, RawDataClone};
use std::collections::HashMap;

pub trait TD: TargetDim {
    const IS2: bool;
    fn build<E: Clone>(n: usize, ntc: usize, f: &dyn Fn(usize, usize) -> E) -> Array<E, Self>;
    fn as2<'a, E>(v: ArrayView<'a, E, Self>) -> ArrayView2<'a, E>;
    /// one_vs_all exists for single-target datasets only
    fn ova_plain<F: Scalar, L: Lab, D: Data<Elem = F>, S: Data<Elem = L>>(_cx: &LCx<F>, _ds: &DatasetBase<ArrayBase<D, Ix2>, ArrayBase<S, Self>>, _rows: &[usize], _what: &str) {}
    fn ova_counted<F: Scalar, L: Lab, D: Data<Elem = F>>(_cx: &LCx<F>, _ds: &DatasetBase<ArrayBase<D, Ix2>, CountedTargets<L, Array<L, Self>>>, _rows: &[usize], _what: &str) {}
}
impl TD for Ix1 {
    fn ova_plain<F: Scalar, L: Lab, D: Data<Elem = F>, S: Data<Elem = L>>(cx: &LCx<F>, ds: &DatasetBase<ArrayBase<D, Ix2>, ArrayBase<S, Ix1>>, rows: &[usize], what: &str) {
        check_one_vs_all(cx, ds, rows, what)
    }
    fn ova_counted<F: Scalar, L: Lab, D: Data<Elem = F>>(cx: &LCx<F>, ds: &DatasetBase<ArrayBase<D, Ix2>, CountedTargets<L, Array<L, Ix1>>>, rows: &[usize], what: &str) {
        check_one_vs_all(cx, ds, rows, what)
    }
    const IS2: bool = false;
    fn build<E: Clone>(n: usize, _ntc: usize, f: &dyn Fn(usize, usize) -> E) -> Array<E, Ix1> {
        Array1::from_shape_fn(n, |r| f(r, 0))
    }
    fn as2<'a, E>(v: ArrayView<'a, E, Ix1>) -> ArrayView2<'a, E> {
        v.insert_axis(Axis(1))
    }
}
impl TD for Ix2 {
    const IS2: bool = true;
    fn build<E: Clone>(n: usize, ntc: usize, f: &dyn Fn(usize, usize) -> E) -> Array<E, Ix2> {
        Array2::from_shape_fn((n, ntc), |(r, c)| f(r, c))
    }
    fn as2<'a, E>(v: ArrayView<'a, E, Ix2>) -> ArrayView2<'a, E> {
        v
    }
}

// ------------------------------------------------------------------------------------ scripted RNG

/// `RngCore` whose words are chosen so that the i-th bounded draw of rand 0.8 (`gen_range(0..m)`,
/// Lemire widening multiply: index = high word of word*m) returns a scripted index.  `ranges[i]` is the
/// bound the harness expects for the i-th draw (only used to build a word that is accepted without
/// rejection); the index is chosen by the solver (`choice`) or taken from a concrete script.
pub struct ScriptRng {
    ranges: Vec<usize>,
    script: Option<Vec<usize>>,
    calls: usize,
}
impl ScriptRng {
    fn pick(&mut self) -> (u128, u128) {
        let i = self.calls;
        self.calls += 1;
        let m = *self.ranges.get(i).or(self.ranges.last()).unwrap_or(&2).max(&1);
        let c = match &self.script {
            Some(s) => s[i % s.len()] % m,
            None => choice(&format!("rng{}", i), m),
        };
        (c as u128, m as u128)
    }
}
impl rand::RngCore for ScriptRng {
    fn next_u32(&mut self) -> u32 {
        let (c, m) = self.pick();
        (((c << 32) + m - 1) / m) as u32
    }
    fn next_u64(&mut self) -> u64 {
        let (c, m) = self.pick();
        (((c << 64) + m - 1) / m) as u64
    }
    fn fill_bytes(&mut self, dest: &mut [u8]) {
        for b in dest.iter_mut() {
            *b = self.next_u32() as u8;
        }
    }
    fn try_fill_bytes(&mut self, dest: &mut [u8]) -> Result<(), rand::Error> {
        self.fill_bytes(dest);
        Ok(())
    }
}

// --------------------------------------------------------------------------------------- context

pub struct Cx<F> {
    x: Vec<Vec<F>>,
    t: Vec<Vec<F>>,
    w: Vec<f32>,
    fnames: Vec<String>,
    tnames: Vec<String>,
    ratio: std::cell::Cell<f32>,
    ratio2: f32,
    bs: usize,
    bf: usize,
    script: Option<Vec<usize>>,
    /// run target_iter on Ix1 targets too
    ti1: bool,
    mutant: i64,
}

impl<F: Scalar> Cx<F> {
    fn new(p: &Params, n: usize, nf: usize, ntc: usize, choice_rng: bool) -> Cx<F> {
        let wd = nf + ntc;
        let cell = |name: String, c: usize| int::<F>(&name, 8 * c as i64, 8 * c as i64 + 7);
        let mut x = vec![];
        let mut t = vec![];
        for r in 0..n {
            x.push((0..nf).map(|j| cell(format!("x{}_{}", r, j), r * wd + j)).collect::<Vec<F>>());
            t.push((0..ntc).map(|c| cell(format!("t{}_{}", r, c), r * wd + nf + c)).collect::<Vec<F>>());
        }
        let seed = p.u("seed", 1);
        let script = if choice_rng { None } else { Some((0..16).map(|i| (seed * (i + 1) + i * i + seed / 3) % 97).collect()) };
        Cx {
            x,
            t,
            w: (0..n).map(|r| 100.0 + r as f32).collect(),
            fnames: (0..nf).map(|j| format!("f{}", j)).collect(),
            tnames: (0..ntc).map(|c| format!("t{}", c)).collect(),
            ratio: std::cell::Cell::new(p.get("rn", 1) as f32 / p.get("rd", 2) as f32),
            ratio2: p.get("rn2", 1) as f32 / p.get("rd2", 3) as f32,
            bs: p.u("bs", n),
            bf: p.u("bf", nf),
            script,
            ti1: p.u("ti1", 0) == 1,
            mutant: p.get("mut", 0),
        }
    }
    fn rng(&self, ranges: Vec<usize>) -> ScriptRng {
        ScriptRng { ranges, script: self.script.clone(), calls: 0 }
    }
    fn records(&self) -> Array2<F> {
        let nf = self.fnames.len();
        Array2::from_shape_fn((self.x.len(), nf), |(r, j)| self.x[r][j])
    }
}

/// what an operation returned, read through the public accessors
pub struct Snap<F> {
    rec: Array2<F>,
    tgt: Array2<F>,
    w: Option<Vec<f32>>,
    fnames: Vec<String>,
    tnames: Vec<String>,
}
fn snap<F: Scalar, D: Data<Elem = F>, S: Data<Elem = F>, I: TD>(ds: &DatasetBase<ArrayBase<D, Ix2>, ArrayBase<S, I>>) -> Snap<F> {
    Snap {
        rec: ds.records().to_owned(),
        tgt: I::as2(ds.targets().view()).to_owned(),
        w: ds.weights().map(|w| w.to_vec()),
        fnames: ds.feature_names().to_vec(),
        tnames: ds.target_names().to_vec(),
    }
}

/// where the rows / feature columns / target columns of a dataset come from in the original table
#[derive(Clone, Debug, PartialEq)]
pub struct Prov {
    rows: Vec<usize>,
    fcols: Vec<usize>,
    tcols: Vec<usize>,
}

/// documented selection of one axis
enum Sel {
    Exact(Vec<usize>),
    /// any order, same multiset
    Perm(Vec<usize>),
    /// `len` draws (with replacement) out of the given indices
    Draw(Vec<usize>, usize),
}
impl Sel {
    fn holds(&self, got: &[usize]) -> bool {
        match self {
            Sel::Exact(v) => got == &v[..],
            Sel::Perm(v) => {
                let (mut a, mut b) = (got.to_vec(), v.clone());
                a.sort();
                b.sort();
                a == b
            }
            Sel::Draw(from, len) => got.len() == *len && got.iter().all(|g| from.contains(g)),
        }
    }
}

impl<F: Scalar> Cx<F> {
    /// locate every cell of `s` in the original table; obligations: the cells of a row come from one
    /// original row, the cells of a column from one original column, carried weights belong to the row,
    /// carried names to the column.  None if the layout cannot be explained.
    fn identify(&self, s: &Snap<F>, what: &str) -> Option<Prov> {
        let nr = s.rec.nrows();
        let same_rows = s.tgt.nrows() == nr;
        check_bool(&format!("records and targets have the same number of rows [{}]", what), same_rows);
        if !same_rows {
            return None;
        }
        let mut pv = Prov { rows: vec![], fcols: vec![], tcols: vec![] };
        let mut ok = true;
        if nr > 0 && s.tgt.ncols() > 0 {
            // target columns from the first row, rows from the first target column
            let first = s.tgt[(0, 0)];
            let hit = (0..self.t.len()).flat_map(|r| (0..self.tnames.len()).map(move |c| (r, c))).find(|&(r, c)| self.t[r][c].identical(first));
            match hit {
                None => ok = false,
                Some((r0, c0)) => {
                    for c in 0..s.tgt.ncols() {
                        match (0..self.tnames.len()).find(|&cc| self.t[r0][cc].identical(s.tgt[(0, c)])) {
                            Some(cc) => pv.tcols.push(cc),
                            None => ok = false,
                        }
                    }
                    for i in 0..nr {
                        match (0..self.t.len()).find(|&r| self.t[r][c0].identical(s.tgt[(i, 0)])) {
                            Some(r) => pv.rows.push(r),
                            None => ok = false,
                        }
                    }
                    if ok {
                        for j in 0..s.rec.ncols() {
                            match (0..self.fnames.len()).find(|&cc| self.x[r0][cc].identical(s.rec[(0, j)])) {
                                Some(cc) => pv.fcols.push(cc),
                                None => ok = false,
                            }
                        }
                    }
                }
            }
            if ok {
                for i in 0..nr {
                    for j in 0..s.rec.ncols() {
                        ok &= s.rec[(i, j)].identical(self.x[pv.rows[i]][pv.fcols[j]]);
                    }
                    for c in 0..s.tgt.ncols() {
                        ok &= s.tgt[(i, c)].identical(self.t[pv.rows[i]][pv.tcols[c]]);
                    }
                }
            }
        }
        let ok = ok && self.mutant != 1;
        check_bool(&format!("record and target cells of every row belong to one original sample, of every column to one original column [{}]", what), ok);
        if !ok {
            return None;
        }
        if let Some(w) = &s.w {
            let wok = w.len() == nr && (0..nr).all(|i| w[i] == self.w[pv.rows[i]]) && self.mutant != 2;
            check_bool(&format!("carried weights belong to their rows [{}]", what), wok);
        }
        if nr > 0 {
            if !s.fnames.is_empty() {
                let fok = s.fnames.len() == s.rec.ncols() && (0..s.fnames.len()).all(|j| s.fnames[j] == self.fnames[pv.fcols[j]]) && self.mutant != 3;
                check_bool(&format!("carried feature names belong to their columns [{}]", what), fok);
            }
            if !s.tnames.is_empty() {
                let tok = s.tnames.len() == s.tgt.ncols() && (0..s.tnames.len()).all(|c| s.tnames[c] == self.tnames[pv.tcols[c]]) && self.mutant != 3;
                check_bool(&format!("carried target names belong to their columns [{}]", what), tok);
            }
        }
        for r in &pv.rows {
            observe_usize(*r);
        }
        Some(pv)
    }

    /// identify + the documented selection on each axis
    fn expect(&self, s: &Snap<F>, what: &str, rows: Sel, fcols: Sel, tcols: Sel) -> Option<Prov> {
        let pv = self.identify(s, what)?;
        let rok = rows.holds(&pv.rows);
        check_bool(&format!("rows are the documented selection [{}]", what), rok);
        let mut cok = true;
        if !pv.rows.is_empty() {
            // column provenance is only observable when there is a row
            cok = fcols.holds(&pv.fcols) && tcols.holds(&pv.tcols);
            check_bool(&format!("feature and target columns are the documented selection [{}]", what), cok);
        }
        if rok && cok {
            Some(pv)
        } else {
            None
        }
    }
    fn same(&self, s: &Snap<F>, what: &str, pin: &Prov) -> Option<Prov> {
        self.expect(s, what, Sel::Exact(pin.rows.clone()), Sel::Exact(pin.fcols.clone()), Sel::Exact(pin.tcols.clone()))
    }
}

/// first part of a ratio split: ceil(n * ratio), the product taken in single precision (documented)
fn split_point(n: usize, ratio: f32) -> usize {
    (n as f32 * ratio).ceil() as usize
}

thread_local! {
    static OFFSET_COPIES: std::cell::Cell<bool> = std::cell::Cell::new(false);
}
/// owned copy of `a` (same layout class) that is the middle part of a larger allocation
fn padded<E: Clone, I: ndarray::Dimension + ndarray::RemoveAxis>(a: ArrayView<E, I>, junk: E) -> Array<E, I> {
    let n = a.len_of(Axis(0));
    if !a.is_standard_layout() || a.ndim() == 0 {
        return a.to_owned();
    }
    let mut dim = a.raw_dim();
    dim[0] = n + 2;
    let mut out = Array::from_elem(dim, junk);
    out.slice_axis_mut(Axis(0), ndarray::Slice::from(1..n + 1)).assign(&a);
    out.slice_axis_inplace(Axis(0), ndarray::Slice::from(1..n + 1));
    out
}

fn owned_copy<F: Scalar, D: Data<Elem = F>, S: Data<Elem = F>, I: TD>(ds: &DatasetBase<ArrayBase<D, Ix2>, ArrayBase<S, I>>) -> DatasetBase<Array2<F>, Array<F, I>> {
    // off=1: owned copies keep an offset into a larger backing vector (one junk row before and after the data)
    if OFFSET_COPIES.with(|o| o.get()) {
        return DatasetBase::new(padded(ds.records().view(), F::lit(-77.0)), padded(ds.targets().view(), F::lit(-77.0)))
            .with_weights(padded(ds.weights.view(), -77.0))
            .with_feature_names(ds.feature_names().to_vec())
            .with_target_names(ds.target_names().to_vec());
    }
    DatasetBase::new(ds.records().to_owned(), ds.targets().to_owned())
        .with_weights(ds.weights.clone())
        .with_feature_names(ds.feature_names().to_vec())
        .with_target_names(ds.target_names().to_vec())
}

pub const OPS: [&str; 15] = ["view", "to_owned", "split_view", "split_owned", "shuffle", "bootstrap", "bootstrap_samples", "bootstrap_features", "sample_chunks", "sample_iter", "target_iter", "feature_iter", "map_targets", "fold", "into_single_target"];

fn ops_l0<F: Scalar, D, S, I: TD>(_cx: &Cx<F>, _ds: &DatasetBase<ArrayBase<D, Ix2>, ArrayBase<S, I>>, _pin: &Prov, _path: &str, _only: &[i64], _depth: usize)
where
    D: Data<Elem = F> + RawDataClone,
    S: Data<Elem = F> + RawDataClone,
{
}

macro_rules! def_ops {
    ($name:ident, $next:ident) => {
        /// run every selected operation on `ds` (whose provenance is `pin`), check the result, recurse
        fn $name<F: Scalar, D, S, I: TD>(cx: &Cx<F>, ds: &DatasetBase<ArrayBase<D, Ix2>, ArrayBase<S, I>>, pin: &Prov, path: &str, only: &[i64], depth: usize)
        where
            D: Data<Elem = F> + RawDataClone,
            S: Data<Elem = F> + RawDataClone,
        {
            let (n, nf, nt) = (pin.rows.len(), pin.fcols.len(), pin.tcols.len());
            if depth == 0 || n == 0 || nf == 0 {
                return;
            }
            let on = |op: usize| only[0] < 0 || only[0] == op as i64;
            let rest = &only[1..];
            let nm = |op: usize| format!("{}>{}", path, OPS[op]);
            let ex = |v: &Vec<usize>| Sel::Exact(v.clone());
            if on(0) {
                let o = ds.view();
                if let Some(po) = cx.same(&snap(&o), &nm(0), pin) {
                    $next(cx, &o, &po, &nm(0), rest, depth - 1);
                }
            }
            if on(1) {
                let o = ds.to_owned();
                if let Some(po) = cx.same(&snap(&o), &nm(1), pin) {
                    $next(cx, &o, &po, &nm(1), rest, depth - 1);
                }
            }
            for (op, ratio) in [(2usize, cx.ratio.get()), (3usize, cx.ratio.get())] {
                if !on(op) {
                    continue;
                }
                let ratio = if path.contains('>') { cx.ratio2 } else { ratio };
                let n1 = split_point(n, ratio);
                if n1 > n {
                    continue;
                }
                let n1x = if cx.mutant == 4 { (n1 + 1).min(n) } else { n1 };
                let (r1, r2) = (pin.rows[..n1x].to_vec(), pin.rows[n1x..].to_vec());
                if op == 2 {
                    let v = ds.view();
                    let (a, b) = v.split_with_ratio(ratio);
                    let pa = cx.expect(&snap(&a), &format!("{}.first", nm(op)), ex(&r1), ex(&pin.fcols), ex(&pin.tcols));
                    let pb = cx.expect(&snap(&b), &format!("{}.second", nm(op)), ex(&r2), ex(&pin.fcols), ex(&pin.tcols));
                    if let Some(pa) = pa {
                        $next(cx, &a, &pa, &format!("{}.first", nm(op)), rest, depth - 1);
                    }
                    if let Some(pb) = pb {
                        $next(cx, &b, &pb, &format!("{}.second", nm(op)), rest, depth - 1);
                    }
                } else if {
                    let own = owned_copy(ds);
                    !own.records().is_standard_layout() || !own.targets().is_standard_layout()
                } {
                    // documented: "Panic occurs when the input record or targets are not in row-major layout"
                    // (bootstrap / bootstrap_features return column-major records: select(Axis(1)))
                    let own = owned_copy(ds);
                    let panicked = std::panic::catch_unwind(std::panic::AssertUnwindSafe(move || {
                        let _ = own.split_with_ratio(ratio);
                    }))
                    .is_err();
                    check_bool(&format!("owned split of data that is not row-major panics (documented) [{}]", nm(op)), panicked);
                } else {
                    let (a, b) = owned_copy(ds).split_with_ratio(ratio);
                    let pa = cx.expect(&snap(&a), &format!("{}.first", nm(op)), ex(&r1), ex(&pin.fcols), ex(&pin.tcols));
                    let pb = cx.expect(&snap(&b), &format!("{}.second", nm(op)), ex(&r2), ex(&pin.fcols), ex(&pin.tcols));
                    if let Some(pa) = pa {
                        $next(cx, &a, &pa, &format!("{}.first", nm(op)), rest, depth - 1);
                    }
                    if let Some(pb) = pb {
                        $next(cx, &b, &pb, &format!("{}.second", nm(op)), rest, depth - 1);
                    }
                }
            }
            if on(4) {
                let mut rng = cx.rng((2..=n).rev().collect());
                let o = ds.shuffle(&mut rng);
                let want = if cx.mutant == 5 { pin.rows[1..].to_vec() } else { pin.rows.clone() };
                if let Some(po) = cx.expect(&snap(&o), &nm(4), Sel::Perm(want), ex(&pin.fcols), ex(&pin.tcols)) {
                    $next(cx, &o, &po, &nm(4), rest, depth - 1);
                }
            }
            if on(5) {
                let (bs, bf) = (cx.bs, cx.bf);
                let mut ranges = vec![];
                for _ in 0..2 {
                    ranges.extend(std::iter::repeat(n).take(bs));
                    ranges.extend(std::iter::repeat(nf).take(bf));
                }
                let mut rng = cx.rng(ranges);
                let outs: Vec<_> = ds.bootstrap((bs, bf), &mut rng).take(2).collect();
                for (i, o) in outs.iter().enumerate() {
                    let w = format!("{}#{}", nm(5), i);
                    let from = if cx.mutant == 6 { pin.rows[..1].to_vec() } else { pin.rows.clone() };
                    if let Some(po) = cx.expect(&snap(o), &w, Sel::Draw(from, bs), Sel::Draw(pin.fcols.clone(), bf), ex(&pin.tcols)) {
                        $next(cx, o, &po, &w, rest, depth - 1);
                    }
                }
            }
            if on(6) {
                let bs = cx.bs;
                let mut rng = cx.rng(vec![n]);
                let outs: Vec<_> = ds.bootstrap_samples(bs, &mut rng).take(2).collect();
                for (i, o) in outs.iter().enumerate() {
                    let w = format!("{}#{}", nm(6), i);
                    if let Some(po) = cx.expect(&snap(o), &w, Sel::Draw(pin.rows.clone(), bs), ex(&pin.fcols), ex(&pin.tcols)) {
                        $next(cx, o, &po, &w, rest, depth - 1);
                    }
                }
            }
            if on(7) {
                let bf = cx.bf;
                let mut rng = cx.rng(vec![nf]);
                let outs: Vec<_> = ds.bootstrap_features(bf, &mut rng).take(2).collect();
                for (i, o) in outs.iter().enumerate() {
                    let w = format!("{}#{}", nm(7), i);
                    if let Some(po) = cx.expect(&snap(o), &w, Sel::Perm(pin.rows.clone()), Sel::Draw(pin.fcols.clone(), bf), ex(&pin.tcols)) {
                        $next(cx, o, &po, &w, rest, depth - 1);
                    }
                }
            }
            if on(8) {
                for size in 1..=n {
                    let chunks: Vec<_> = ds.sample_chunks(size).collect();
                    let w = format!("{}({})", nm(8), size);
                    // the complete chunks must be there; whether a shorter tail chunk is yielded is left open
                    check_bool(&format!("every complete chunk is yielded, nothing beyond the data [{}]", w), chunks.len() >= n / size && chunks.len() <= (n + size - 1) / size);
                    for (i, o) in chunks.iter().enumerate() {
                        let off = if cx.mutant == 7 && size < n { 1 } else { 0 };
                        let want = pin.rows[(i * size + off).min(n)..((i + 1) * size + off).min(n)].to_vec();
                        if let Some(po) = cx.expect(&snap(o), &format!("{}#{}", w, i), ex(&want), ex(&pin.fcols), ex(&pin.tcols)) {
                            if size == 2 {
                                $next(cx, o, &po, &format!("{}#{}", w, i), rest, depth - 1);
                            }
                        }
                    }
                }
            }
            if on(9) {
                // one (record, target) item per sample; the order of the items is not pinned
                let items: Vec<_> = ds.sample_iter().collect();
                let mut seen = vec![];
                for (i, (x, y)) in items.iter().enumerate() {
                    let rec = Array2::from_shape_vec((1, x.len()), x.iter().cloned().collect()).unwrap();
                    let tgt = Array2::from_shape_vec((1, y.len()), y.iter().cloned().collect()).unwrap();
                    let s = Snap { rec, tgt, w: None, fnames: vec![], tnames: vec![] };
                    if let Some(po) = cx.expect(&s, &format!("{}#{}", nm(9), i), Sel::Draw(pin.rows.clone(), 1), ex(&pin.fcols), ex(&pin.tcols)) {
                        seen.push(po.rows[0]);
                    }
                }
                let want = if cx.mutant == 8 { pin.rows[1..].to_vec() } else { pin.rows.clone() };
                check_bool(&format!("one item per sample [{}]", nm(9)), Sel::Perm(want).holds(&seen));
            }
            if on(10) && (I::IS2 || cx.ti1) {
                // one view per target column; the order of the views is not pinned
                let items: Vec<_> = ds.target_iter().collect();
                let mut seen = vec![];
                for (c, o) in items.iter().enumerate() {
                    let w = format!("{}#{}", nm(10), c);
                    if let Some(po) = cx.expect(&snap(o), &w, ex(&pin.rows), ex(&pin.fcols), Sel::Draw(pin.tcols.clone(), 1)) {
                        seen.push(po.tcols[0]);
                        $next(cx, o, &po, &w, rest, depth - 1);
                    }
                }
                let want = if cx.mutant == 9 { pin.tcols[1..].to_vec() } else { pin.tcols.clone() };
                check_bool(&format!("one view per target column [{}]", nm(10)), Sel::Perm(want).holds(&seen));
            }
            if on(11) {
                let items: Vec<_> = ds.feature_iter().collect();
                let mut seen = vec![];
                for (j, o) in items.iter().enumerate() {
                    let w = format!("{}#{}", nm(11), j);
                    if !ds.feature_names().is_empty() && o.feature_names().is_empty() {
                        note("feature_iter drops the feature names when the dataset has more than one feature (iter.rs:98 compares with the collapsed width)");
                    }
                    if let Some(po) = cx.expect(&snap(o), &w, ex(&pin.rows), Sel::Draw(pin.fcols.clone(), 1), ex(&pin.tcols)) {
                        seen.push(po.fcols[0]);
                        $next(cx, o, &po, &w, rest, depth - 1);
                    }
                }
                let want = if cx.mutant == 9 { pin.fcols[1..].to_vec() } else { pin.fcols.clone() };
                check_bool(&format!("one view per feature column [{}]", nm(11)), Sel::Perm(want).holds(&seen));
            }
            if on(12) {
                let o = ds.clone().map_targets(|t| *t);
                if let Some(po) = cx.same(&snap(&o), &nm(12), pin) {
                    $next(cx, &o, &po, &nm(12), rest, depth - 1);
                }
            }
            // fold on multi-column targets is a C01 matter (fold_size from targets.len()); not repeated here
            if on(13) && n >= 2 && nt == 1 {
                let k = 2;
                let fs = n / k;
                let outs = ds.fold(k);
                check_bool(&format!("k pairs [{}]", nm(13)), outs.len() == k);
                for (i, (tr, va)) in outs.iter().enumerate() {
                    if i >= k {
                        break;
                    }
                    let vrows = pin.rows[i * fs..(i + 1) * fs].to_vec();
                    let trows: Vec<usize> = (0..n).filter(|r| *r < i * fs || *r >= (i + 1) * fs).map(|r| pin.rows[r]).collect();
                    let pv = cx.expect(&snap(va), &format!("{}#{}.valid", nm(13), i), Sel::Perm(vrows), ex(&pin.fcols), ex(&pin.tcols));
                    let pt = cx.expect(&snap(tr), &format!("{}#{}.train", nm(13), i), Sel::Perm(trows), ex(&pin.fcols), ex(&pin.tcols));
                    if let (Some(pt), true) = (pt, i == 1) {
                        $next(cx, tr, &pt, &format!("{}#{}.train", nm(13), i), rest, depth - 1);
                    }
                    let _ = pv;
                }
            }
            if on(14) && I::IS2 && nt == 1 {
                let own: DatasetBase<Array2<F>, Array2<F>> = DatasetBase::new(ds.records().to_owned(), I::as2(ds.targets().view()).to_owned())
                    .with_weights(ds.weights.clone())
                    .with_feature_names(ds.feature_names().to_vec())
                    .with_target_names(ds.target_names().to_vec());
                let o = own.into_single_target();
                if let Some(po) = cx.same(&snap(&o), &nm(14), pin) {
                    $next(cx, &o, &po, &nm(14), rest, depth - 1);
                }
            }
        }
    };
}
def_ops!(ops_l3, ops_l0);
def_ops!(ops_l2, ops_l3);
def_ops!(ops_l1, ops_l2);

fn ops_i<F: Scalar, I: TD>(p: &Params, choice_rng: bool) {
    let (n, nf, ntc) = (p.u("n", 4), p.u("nf", 2), p.u("nt", 0).max(1));
    let cx = Cx::<F>::new(p, n, nf, ntc, choice_rng);
    // hidden fault injection (never in the registry): hand linfa misaligned data and see the checks fire
    let sw = |on: bool, r: usize| if on && r < 2 && n >= 2 { 1 - r } else { r };
    let m = cx.mutant;
    // off=1: the owned arrays are the middle n rows of arrays with n+2 rows (`slice_axis_inplace`): still owned and
    // in standard layout, but the backing vectors start before and end after the data
    let off = p.u("off", 0);
    OFFSET_COPIES.with(|o| o.set(off == 1));
    let junk = F::lit(-77.0);
    let mut ds = if off == 0 {
        DatasetBase::new(cx.records(), I::build(n, ntc, &|r, c| cx.t[sw(m == 11, r)][c]))
    } else {
        let mut rec = Array2::from_shape_fn((n + 2, nf), |(r, j)| if r == 0 || r == n + 1 { junk } else { cx.x[r - 1][j] });
        rec.slice_axis_inplace(Axis(0), ndarray::Slice::from(1..n + 1));
        let mut tg = I::build(n + 2, ntc, &|r, c| if r == 0 || r == n + 1 { junk } else { cx.t[sw(m == 11, r - 1)][c] });
        tg.slice_axis_inplace(Axis(0), ndarray::Slice::from(1..n + 1));
        DatasetBase::new(rec, tg)
    };
    if p.u("w", 1) == 1 {
        if off == 0 {
            ds = ds.with_weights(Array1::from_shape_fn(n, |r| cx.w[sw(m == 12, r)]));
        } else {
            let mut w = Array1::from_shape_fn(n + 2, |r| if r == 0 || r == n + 1 { -77.0 } else { cx.w[sw(m == 12, r - 1)] });
            w.slice_axis_inplace(Axis(0), ndarray::Slice::from(1..n + 1));
            ds = ds.with_weights(w);
        }
    }
    if p.u("names", 1) == 1 {
        let mut f = cx.fnames.clone();
        if m == 13 && nf >= 2 {
            f.swap(0, 1);
        }
        ds = ds.with_feature_names(f).with_target_names(cx.tnames.clone());
    }
    let pin = Prov { rows: (0..n).collect(), fcols: (0..nf).collect(), tcols: (0..ntc).collect() };
    let only = [p.get("opa", -1), p.get("opb", -1), p.get("opc", -1), -1];
    let depth = p.u("depth", 1);
    // rsweep=1: run the selected operations once per ratio of the table below (same tags, one path)
    let ratios: Vec<f32> = if p.u("rsweep", 0) == 1 { ratio_table() } else { vec![cx.ratio.get()] };
    for r in ratios {
        cx.ratio.set(r);
        if p.u("base", 0) == 0 {
            cx.same(&snap(&ds), "owned", &pin);
            ops_l1(&cx, &ds, &pin, "owned", &only, depth);
        } else {
            let v = ds.view();
            cx.same(&snap(&v), "view", &pin);
            ops_l1(&cx, &v, &pin, "view", &only, depth);
        }
    }
}

/// ratios in [0,1]: all a/b with b <= 16 (computed in f32), decimal literals, and neighbours (one ulp
/// below / above) of every a/b: the places where ceil(n*ratio) in single precision differs from the
/// value in exact arithmetic
fn ratio_table() -> Vec<f32> {
    let mut v: Vec<f32> = vec![0.0, 1.0, 0.01, 0.05, 0.1, 0.15, 0.2, 0.25, 0.3, 0.33, 0.333, 0.35, 0.4, 0.45, 0.5, 0.55, 0.6, 0.65, 0.66, 0.667, 0.7, 0.75, 0.8, 0.85, 0.9, 0.95, 0.99, 0.999, 1e-7, 1e-30];
    for b in 1..=16u32 {
        for a in 0..=b {
            let r = a as f32 / b as f32;
            v.push(r);
            if r > 0.0 {
                v.push(f32::from_bits(r.to_bits() - 1));
            }
            if r < 1.0 {
                v.push(f32::from_bits(r.to_bits() + 1));
            }
        }
    }
    v.retain(|r| (0.0..=1.0).contains(r));
    v.sort_by(|a, b| a.partial_cmp(b).unwrap());
    v.dedup();
    v
}

/// all tag operations (and their compositions at depth 2), RNG from a concrete script
fn ops<F: Scalar>(p: &Params) {
    if p.u("nt", 0) == 0 {
        ops_i::<F, Ix1>(p, false)
    } else {
        ops_i::<F, Ix2>(p, false)
    }
}
/// shuffle / bootstrap with every index sequence the RNG can produce (solver-chosen draws)
fn rng_ops(p: &Params) {
    if p.u("nt", 0) == 0 {
        ops_i::<SymF, Ix1>(p, true)
    } else {
        ops_i::<SymF, Ix2>(p, true)
    }
}

// ---------------------------------------------------------------------------------------- labels

pub trait Lab: Label + Copy {
    fn make(name: &str, class: usize, ncls: usize) -> Self;
    fn konst(class: usize) -> Self;
    fn class(self, ncls: usize) -> usize;
}
impl Lab for SymLabel {
    fn make(name: &str, _class: usize, ncls: usize) -> SymLabel {
        SymLabel::input(name, ncls)
    }
    fn konst(class: usize) -> SymLabel {
        SymLabel::k(class)
    }
    fn class(self, ncls: usize) -> usize {
        self.resolve(ncls)
    }
}
impl Lab for usize {
    fn make(_name: &str, class: usize, _ncls: usize) -> usize {
        class
    }
    fn konst(class: usize) -> usize {
        class
    }
    fn class(self, _ncls: usize) -> usize {
        self
    }
}

pub struct LCx<F> {
    x: Vec<Vec<F>>,
    /// class of every target cell on this path
    cls: Vec<Vec<usize>>,
    w: Vec<f32>,
    fnames: Vec<String>,
    tnames: Vec<String>,
    ncls: usize,
    has_w: bool,
    has_names: bool,
    mutant: i64,
}

struct LSnap<F> {
    rec: Array2<F>,
    cls: Array2<usize>,
    w: Option<Vec<f32>>,
    fnames: Vec<String>,
    tnames: Vec<String>,
}

fn lsnap<F: Scalar, L: Lab, D: Data<Elem = F>, T: AsTargets<Elem = L>>(ds: &DatasetBase<ArrayBase<D, Ix2>, T>, ncls: usize) -> LSnap<F>
where
    T::Ix: TD,
{
    let t = ds.targets().as_targets();
    LSnap {
        rec: ds.records().to_owned(),
        cls: <T::Ix as TD>::as2(t.view()).map(|l| l.class(ncls)),
        w: ds.weights().map(|w| w.to_vec()),
        fnames: ds.feature_names().to_vec(),
        tnames: ds.target_names().to_vec(),
    }
}

impl<F: Scalar> LCx<F> {
    /// rows of a result (located through the record tags); obligations: record cells of a row belong to
    /// one original sample, its labels are that sample's labels, carried weights / names belong to it
    fn identify(&self, s: &LSnap<F>, what: &str, fcols: &[usize]) -> Option<Vec<usize>> {
        let nr = s.rec.nrows();
        let mut ok = s.cls.nrows() == nr && s.rec.ncols() == fcols.len() && s.cls.ncols() == self.tnames.len();
        let mut rows = vec![];
        if ok {
            for i in 0..nr {
                match (0..self.x.len()).find(|&r| self.x[r][fcols[0]].identical(s.rec[(i, 0)])) {
                    Some(r) => rows.push(r),
                    None => ok = false,
                }
            }
        }
        if ok {
            for i in 0..nr {
                for j in 0..fcols.len() {
                    ok &= s.rec[(i, j)].identical(self.x[rows[i]][fcols[j]]);
                }
                for c in 0..s.cls.ncols() {
                    ok &= s.cls[(i, c)] == self.cls[rows[i]][c];
                }
            }
        }
        let ok = ok && self.mutant != 1;
        check_bool(&format!("records and labels of every row belong to one original sample [{}]", what), ok);
        if !ok {
            return None;
        }
        if let Some(w) = &s.w {
            check_bool(&format!("carried weights belong to their rows [{}]", what), w.len() == nr && (0..nr).all(|i| w[i] == self.w[rows[i]]) && self.mutant != 2);
        }
        if !s.fnames.is_empty() {
            check_bool(&format!("carried feature names belong to their columns [{}]", what), s.fnames.len() == fcols.len() && (0..fcols.len()).all(|j| s.fnames[j] == self.fnames[fcols[j]]));
        }
        if !s.tnames.is_empty() {
            check_bool(&format!("carried target names belong to their columns [{}]", what), s.tnames == self.tnames);
        }
        for r in &rows {
            observe_usize(*r);
        }
        Some(rows)
    }

    /// label_count() of a result == recount over the given original rows, per target column
    fn counts_ok<L: Lab>(&self, got: &[HashMap<L, usize>], rows: &[usize], what: &str) {
        let ntc = self.tnames.len();
        let mut ok = got.len() == ntc;
        if ok {
            for c in 0..ntc {
                let mut want = vec![0usize; self.ncls];
                for r in rows {
                    want[self.cls[*r][c]] += 1;
                }
                if self.mutant == 3 && !rows.is_empty() {
                    want[self.cls[rows[0]][c]] += 1;
                }
                let distinct = want.iter().filter(|v| **v > 0).count();
                ok &= got[c].len() == distinct;
                for v in 0..self.ncls {
                    ok &= got[c].get(&L::konst(v)).copied().unwrap_or(0) == want[v];
                }
            }
        }
        check_bool(&format!("label counts are those of the samples present [{}]", what), ok);
    }

    fn kept(&self, rows: &[usize], mask: usize) -> Vec<usize> {
        rows.iter().cloned().filter(|r| self.cls[*r].iter().any(|c| mask >> c & 1 == 1)).collect()
    }
    fn list<L: Lab>(&self, mask: usize) -> Vec<L> {
        (0..self.ncls).filter(|c| mask >> c & 1 == 1).map(L::konst).collect()
    }
}

fn perm_eq(a: &[usize], b: &[usize]) -> bool {
    let (mut a, mut b) = (a.to_vec(), b.to_vec());
    a.sort();
    b.sort();
    a == b
}

/// one_vs_all of a single-target dataset whose rows are `rows`
fn check_one_vs_all<F: Scalar, L: Lab, D: Data<Elem = F>, T>(cx: &LCx<F>, ds: &DatasetBase<ArrayBase<D, Ix2>, T>, rows: &[usize], what: &str)
where
    T: AsTargets<Elem = L, Ix = Ix1> + Labels<Elem = L>,
{
    let fc: Vec<usize> = (0..cx.fnames.len()).collect();
    let res = ds.one_vs_all();
    check_bool(&format!("one_vs_all succeeds [{}]", what), res.is_ok());
    let res = match res {
        Ok(r) => r,
        Err(_) => return,
    };
    let mut present: Vec<usize> = rows.iter().map(|r| cx.cls[*r][0]).collect();
    present.sort();
    present.dedup();
    let mut got: Vec<usize> = res.iter().map(|(l, _)| l.class(cx.ncls)).collect();
    got.sort();
    if cx.mutant == 4 {
        got.push(0);
    }
    check_bool(&format!("one_vs_all yields one view per distinct label [{}]", what), got == present);
    for (l, o) in &res {
        let lc = l.class(cx.ncls);
        let w = format!("{}>one_vs_all({})", what, lc);
        let t = o.targets().as_targets();
        let mut ok = o.records().nrows() == rows.len() && t.len() == rows.len() && o.records().ncols() == fc.len();
        // rows located through the record tags (a view of the same records; order not pinned)
        let mut got_rows = vec![];
        if ok {
            for i in 0..rows.len() {
                match (0..cx.x.len()).find(|&r| cx.x[r][0].identical(o.records()[(i, 0)])) {
                    Some(r) => got_rows.push(r),
                    None => ok = false,
                }
            }
        }
        if ok {
            for i in 0..rows.len() {
                for j in 0..fc.len() {
                    ok &= o.records()[(i, j)].identical(cx.x[got_rows[i]][j]);
                }
                ok &= t[i] == (cx.cls[got_rows[i]][0] == lc) && cx.mutant != 5;
            }
            ok &= perm_eq(&got_rows, rows);
        }
        check_bool(&format!("one_vs_all view has all samples, target = (own label == this label) [{}]", w), ok);
        if !ok {
            continue;
        }
        let rows = &got_rows[..];
        if let Some(wt) = o.weights() {
            check_bool(&format!("carried weights belong to their rows [{}]", w), wt.len() == rows.len() && (0..rows.len()).all(|i| wt[i] == cx.w[rows[i]]));
        }
        if !o.feature_names().is_empty() {
            check_bool(&format!("carried feature names belong to their columns [{}]", w), o.feature_names() == &cx.fnames[..]);
        }
        if !o.target_names().is_empty() {
            check_bool(&format!("carried target names belong to their columns [{}]", w), o.target_names() == &cx.tnames[..]);
        }
        let cnt = o.label_count();
        let pos = rows.iter().filter(|r| cx.cls[**r][0] == lc).count();
        let neg = rows.len() - pos;
        let cok = cnt.len() == 1 && cnt[0].get(&true).copied().unwrap_or(0) == pos && cnt[0].get(&false).copied().unwrap_or(0) == neg && cnt[0].len() == (pos > 0) as usize + (neg > 0) as usize;
        check_bool(&format!("binary label counts are those of the samples [{}]", w), cok);
    }
}

/// label operations on a dataset with targets of label type L; `pat` gives the classes when L is concrete
fn labels_run<F: Scalar, L: Lab, I: TD>(p: &Params, x: &Vec<Vec<F>>, pat: usize) {
    let (n, nf, ntc, ncls) = (p.u("n", 3), p.u("nf", 1), p.u("nt", 0).max(1), p.u("cls", 2));
    let (mask, mask2) = (p.u("mask", 1), p.u("mask2", 2));
    let labs: Vec<Vec<L>> = (0..n).map(|r| (0..ntc).map(|c| L::make(&format!("l{}_{}", r, c), pat / ncls.pow((r * ntc + c) as u32) % ncls, ncls)).collect()).collect();
    let cls: Vec<Vec<usize>> = labs.iter().map(|row| row.iter().map(|l| l.class(ncls)).collect()).collect();
    let cx = LCx {
        x: x.clone(),
        cls,
        w: (0..n).map(|r| 100.0 + r as f32).collect(),
        fnames: (0..nf).map(|j| format!("f{}", j)).collect(),
        tnames: (0..ntc).map(|c| format!("t{}", c)).collect(),
        ncls,
        has_w: p.u("w", 1) == 1,
        has_names: p.u("names", 1) == 1,
        mutant: p.get("mut", 0),
    };
    let rec = Array2::from_shape_fn((n, nf), |(r, j)| x[r][j]);
    let sw = |on: bool, r: usize| if on && r < 2 && n >= 2 { 1 - r } else { r };
    let mut ds = DatasetBase::new(rec, I::build(n, ntc, &|r, c| labs[r][c]));
    if cx.has_w {
        ds = ds.with_weights(Array1::from_shape_fn(n, |r| cx.w[sw(cx.mutant == 12, r)]));
    }
    if cx.has_names {
        ds = ds.with_feature_names(cx.fnames.clone()).with_target_names(cx.tnames.clone());
    }
    let all: Vec<usize> = (0..n).collect();
    let fc: Vec<usize> = (0..nf).collect();
    // label_count of the plain dataset
    cx.counts_ok(&ds.label_count(), &all, "owned>label_count");
    I::ova_plain(&cx, &ds, &all, "owned");
    {
        let v = ds.view();
        cx.counts_ok(&v.label_count(), &all, "view>label_count");
        I::ova_plain(&cx, &v, &all, "view");
    }
    // with_labels on the owned dataset and on its view
    let list: Vec<L> = cx.list(mask);
    let base_view = ds.view();
    let outs = [("owned>with_labels", ds.with_labels(&list)), ("view>with_labels", base_view.with_labels(&list))];
    for (what, o) in outs.iter() {
        let want = cx.kept(&all, mask);
        let rows = match cx.identify(&lsnap(o, ncls), what, &fc) {
            Some(r) => r,
            None => continue,
        };
        let want_m = if cx.mutant == 6 && !want.is_empty() { want[1..].to_vec() } else { want.clone() };
        check_bool(&format!("with_labels keeps exactly the samples carrying a listed label [{}]", what), perm_eq(&rows, &want_m));
        if !perm_eq(&rows, &want) {
            continue;
        }
        // documented: sample weights and feature names are preserved
        if cx.has_w && !rows.is_empty() {
            check_bool(&format!("with_labels preserves the sample weights (documented) [{}]", what), o.weights().is_some());
        }
        if cx.has_names {
            check_bool(&format!("with_labels preserves the feature names (documented) [{}]", what), o.feature_names() == &cx.fnames[..]);
        }
        cx.counts_ok(&o.label_count(), &rows, &format!("{}>label_count", what));
        if !rows.is_empty() {
            I::ova_counted(&cx, o, &rows, what);
        }
        if rows.is_empty() || p.u("depth", 2) < 2 {
            continue;
        }
        // ---- operations on the filtered dataset (targets are CountedTargets)
        {
            let v = o.view();
            let w = format!("{}>view", what);
            if let Some(r2) = cx.identify(&lsnap(&v, ncls), &w, &fc) {
                check_bool(&format!("rows are the documented selection [{}]", w), r2 == rows);
                cx.counts_ok(&v.label_count(), &r2, &format!("{}>label_count", w));
            }
            let n1 = split_point(rows.len(), p.get("rn", 1) as f32 / p.get("rd", 2) as f32);
            if n1 <= rows.len() {
                let (a, b) = v.split_with_ratio(p.get("rn", 1) as f32 / p.get("rd", 2) as f32);
                for (part, d, want) in [("first", &a, &rows[..n1]), ("second", &b, &rows[n1..])] {
                    let w = format!("{}>split_view.{}", what, part);
                    if let Some(r2) = cx.identify(&lsnap(d, ncls), &w, &fc) {
                        check_bool(&format!("rows are the documented selection [{}]", w), r2 == want);
                        cx.counts_ok(&d.label_count(), &r2, &format!("{}>label_count", w));
                    }
                }
            }
        }
        {
            let o2 = o.to_owned();
            let w = format!("{}>to_owned", what);
            if let Some(r2) = cx.identify(&lsnap(&o2, ncls), &w, &fc) {
                check_bool(&format!("rows are the documented selection [{}]", w), r2 == rows);
                cx.counts_ok(&o2.label_count(), &r2, &format!("{}>label_count", w));
            }
        }
        {
            let seed = p.u("seed", 1);
            let mut rng = ScriptRng { ranges: (2..=rows.len()).rev().collect(), script: Some((0..16).map(|i| (seed * (i + 1) + i * i) % 97).collect()), calls: 0 };
            let o2 = o.shuffle(&mut rng);
            let w = format!("{}>shuffle", what);
            if let Some(r2) = cx.identify(&lsnap(&o2, ncls), &w, &fc) {
                check_bool(&format!("rows are the documented selection [{}]", w), perm_eq(&r2, &rows));
                cx.counts_ok(&o2.label_count(), &r2, &format!("{}>label_count", w));
            }
        }
        {
            let list2: Vec<L> = cx.list(mask2);
            let o2 = o.with_labels(&list2);
            let w = format!("{}>with_labels", what);
            if let Some(r2) = cx.identify(&lsnap(&o2, ncls), &w, &fc) {
                check_bool(&format!("with_labels keeps exactly the samples carrying a listed label [{}]", w), perm_eq(&r2, &cx.kept(&rows, mask2)));
                cx.counts_ok(&o2.label_count(), &r2, &format!("{}>label_count", w));
            }
        }
        {
            let o2 = o.clone().map_targets(|l| *l);
            let w = format!("{}>map_targets", what);
            if let Some(r2) = cx.identify(&lsnap(&o2, ncls), &w, &fc) {
                check_bool(&format!("rows are the documented selection [{}]", w), r2 == rows);
            }
        }
    }
}

fn tags<F: Scalar>(n: usize, nf: usize) -> Vec<Vec<F>> {
    (0..n).map(|r| (0..nf).map(|j| int::<F>(&format!("x{}_{}", r, j), 8 * (r * nf + j) as i64, 8 * (r * nf + j) as i64 + 7)).collect()).collect()
}

/// symbolic labels: every assignment of classes to the target cells is a path
fn labels_sym(p: &Params) {
    let (n, nf) = (p.u("n", 3), p.u("nf", 1));
    let x = tags::<SymF>(n, nf);
    if p.u("nt", 0) == 0 {
        labels_run::<SymF, SymLabel, Ix1>(p, &x, 0);
    } else {
        labels_run::<SymF, SymLabel, Ix2>(p, &x, 0);
    }
}

/// concrete usize labels through the real SipHash maps: all class patterns (pat = -1) or one
fn labels_usize<F: Scalar>(p: &Params) {
    let (n, nf, ntc, ncls) = (p.u("n", 3), p.u("nf", 1), p.u("nt", 0).max(1), p.u("cls", 2));
    let x = tags::<F>(n, nf);
    let total = ncls.pow((n * ntc) as u32);
    let pats: Vec<usize> = match p.get("pat", -1) {
        -1 => (0..total).collect(),
        v => vec![v as usize],
    };
    for pat in pats {
        if p.u("nt", 0) == 0 {
            labels_run::<F, usize, Ix1>(p, &x, pat);
        } else {
            labels_run::<F, usize, Ix2>(p, &x, pat);
        }
    }
}

pub fn register(v: &mut Vec<HarnessDef>) {
    harness!(v, "c02.ops", "C02", ops,
        "tag operations on an owned dataset / a view and on each other's outputs (depth 2): view, to_owned, split_with_ratio (view and owned), shuffle, bootstrap*, sample_chunks, sample_iter, target_iter, feature_iter, map_targets, fold, into_single_target",
        ["linfa::DatasetBase::{view,to_owned,split_with_ratio (both impls),shuffle,bootstrap,bootstrap_samples,bootstrap_features,sample_chunks,sample_iter,target_iter,feature_iter,map_targets,fold,into_single_target,with_weights,with_feature_names,with_target_names}", "linfa::dataset::iter::{Iter,DatasetIter,ChunksIter}::next"],
        ["cells are pairwise distinct integers (disjoint ranges per cell); they are only moved", "RNG words come from a concrete script (parameter seed); c02.rng covers all draws", "operations are not run on results with 0 rows or 0 feature columns; ratio in [0,1]", "params: n, nf, nt (0 = Ix1), w, names, base (0 owned, 1 view), depth, opa/opb (operation filter), rn/rd (ratio), rn2/rd2 (ratio at depth 2), bs/bf (bootstrap sizes), ti1 (target_iter on Ix1 targets)"]);
    harness_sym!(v, "c02.rng", "C02", rng_ops,
        "shuffle / bootstrap / bootstrap_samples / bootstrap_features with solver-chosen RNG draws: every index sequence the sampler can produce",
        ["linfa::DatasetBase::{shuffle,bootstrap,bootstrap_samples,bootstrap_features}", "rand::seq::SliceRandom::shuffle, rand::Rng::gen_range (real code, scripted words)"],
        ["RNG = scripted words accepted without rejection by rand 0.8's widening-multiply sampler"]);
    harness_sym!(v, "c02.labels", "C02", labels_sym,
        "with_labels / label_count / one_vs_all and operations on the filtered dataset, symbolic class labels (SymLabel)",
        ["linfa::DatasetBase::{with_labels,one_vs_all,label_count,view,split_with_ratio,to_owned,shuffle,map_targets}", "linfa::dataset::{Labels::label_count,labels,label_set, CountedTargets::{new,new_targets,new_targets_view,label_count}}"],
        ["labels are classes 0..cls-1; listed labels are a concrete subset (mask)", "order of the kept rows is not pinned"]);
    harness!(v, "c02.labels_usize", "C02", labels_usize,
        "the same label operations with concrete usize labels (real SipHash), all class patterns",
        ["linfa::DatasetBase::{with_labels,one_vs_all,label_count,view,split_with_ratio,to_owned,shuffle,map_targets}", "linfa::dataset::{Labels, CountedTargets}"],
        ["labels are classes 0..cls-1; listed labels are a concrete subset (mask)"]);
}

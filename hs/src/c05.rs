//! C05 — evaluation metrics against their definitions, recomputed by the harness from the inputs.
//!
//! * `c05.regression`  — the eight regression scores (single target `Array1`, multi target `Array2`, dataset
//!   receivers / arguments) on symbolic integer vectors; oracle = textbook formula over the input terms,
//!   cross-multiplied where linfa divides; invariance under a swap and a rotation of the positions.
//! * `c05.confusion`   — confusion matrix + derived scores for every pair of label vectors over a small
//!   alphabet (labels are solver-enumerated, then concrete: linfa's `HashMap`s see ordinary labels).
//! * `c05.silhouette`  — silhouette score of a two-cluster partition of symbolic points.
//! * `c05.pearson`     — Pearson coefficients, squared / cross-multiplied against the moment sums.
use crate::common::*;
use crate::{harness, harness_sym};
use linfa::dataset::{DatasetBase, Label};
use linfa::metrics::{ConfusionMatrix, MultiTargetRegression, SilhouetteScore, SingleTargetRegression, ToConfusionMatrix};
use ndarray::{Array1, Array2};
use num_traits::Float as NF;
use std::fmt::Display;

fn tol<F: Scalar>(k: i32) -> F {
    F::lit((2.0f64).powi(-k))
}
fn fabs<F: Scalar>(x: F) -> F {
    NF::abs(x)
}
/// |a - b| <= t
fn close<F: Scalar>(a: F, b: F, t: F) -> SymB {
    // two one-sided comparisons: the solver handles them far better than an `ite`-encoded absolute value
    (a - b).s_le(t).and((b - a).s_le(t))
}
/// `ob=<g>` keeps only obligation group g: the engine discharges all obligations of a path in one query, and a
/// conjunction of non-linear obligations is often undecided where each of them alone is proved at once
fn check_g(only: i64, g: i64, name: &str, c: SymB) {
    if only < 0 || only == g {
        check(name, c);
    }
}
fn sum<F: Scalar>(xs: impl Iterator<Item = F>) -> F {
    let mut s = F::lit(0.0);
    for x in xs {
        s = s + x;
    }
    s
}

// ------------------------------------------------------------------------------------------------
// regression
// ------------------------------------------------------------------------------------------------
const M_MAX: usize = 0;
const M_MAE: usize = 1;
const M_MSE: usize = 2;
const M_MSLE: usize = 3;
const M_MEDIAN: usize = 4;
const M_MAPE: usize = 5;
const M_R2: usize = 6;
const M_EV: usize = 7;

type Ds1<F> = DatasetBase<Array2<F>, Array1<F>>;
type Ds2<F> = DatasetBase<Array2<F>, Array2<F>>;

/// recv 0: array.metric(&array); 1: dataset.metric(&array); 2: array.metric(&dataset)
fn call_single<F: Scalar>(m: usize, recv: usize, a: &Array1<F>, b: &Array1<F>) -> F {
    let rec = |n: usize| Array2::from_elem((n, 1), F::lit(0.0));
    macro_rules! go {
        ($f:ident) => {{
            match recv {
                0 => SingleTargetRegression::<F, Array1<F>>::$f(a, b),
                1 => {
                    let ds: Ds1<F> = DatasetBase::new(rec(a.len()), a.clone());
                    SingleTargetRegression::<F, Array1<F>>::$f(&ds, b)
                }
                _ => {
                    let ds: Ds1<F> = DatasetBase::new(rec(b.len()), b.clone());
                    SingleTargetRegression::<F, Ds1<F>>::$f(a, &ds)
                }
            }
            .expect("regression metric returned an error on non-empty input")
        }};
    }
    match m {
        M_MAX => go!(max_error),
        M_MAE => go!(mean_absolute_error),
        M_MSE => go!(mean_squared_error),
        M_MSLE => go!(mean_squared_log_error),
        M_MEDIAN => go!(median_absolute_error),
        M_MAPE => go!(mean_absolute_percentage_error),
        M_R2 => go!(r2),
        _ => go!(explained_variance),
    }
}

fn call_multi<F: Scalar>(m: usize, recv: usize, a: &Array2<F>, b: &Array2<F>) -> Vec<F> {
    let rec = |n: usize| Array2::from_elem((n, 1), F::lit(0.0));
    macro_rules! go {
        ($f:ident) => {{
            match recv {
                0 => MultiTargetRegression::<F, Array2<F>>::$f(a, b),
                1 => {
                    let ds: Ds2<F> = DatasetBase::new(rec(a.nrows()), a.clone());
                    MultiTargetRegression::<F, Array2<F>>::$f(&ds, b)
                }
                _ => {
                    let ds: Ds2<F> = DatasetBase::new(rec(b.nrows()), b.clone());
                    MultiTargetRegression::<F, Ds2<F>>::$f(a, &ds)
                }
            }
            .expect("regression metric returned an error on non-empty input")
            .to_vec()
        }};
    }
    match m {
        M_MAX => go!(max_error),
        M_MAE => go!(mean_absolute_error),
        M_MSE => go!(mean_squared_error),
        M_MSLE => go!(mean_squared_log_error),
        M_MEDIAN => go!(median_absolute_error),
        M_MAPE => go!(mean_absolute_percentage_error),
        M_R2 => go!(r2),
        _ => go!(explained_variance),
    }
}

/// k-th smallest (1-based) of `v` as a term: min over all k-subsets of the subset's max
fn order_stat<F: Scalar>(v: &[F], k: usize) -> F {
    let n = v.len();
    let mut best: Option<F> = None;
    for mask in 0u32..(1u32 << n) {
        if mask.count_ones() as usize != k {
            continue;
        }
        let mut mx: Option<F> = None;
        for i in 0..n {
            if mask >> i & 1 == 1 {
                mx = Some(match mx {
                    None => v[i],
                    Some(x) => NF::max(x, v[i]),
                });
            }
        }
        let mx = mx.unwrap();
        best = Some(match best {
            None => mx,
            Some(x) => NF::min(x, mx),
        });
    }
    best.unwrap()
}

/// the obligation "score == textbook formula" for one target column; `a` = receiver (prediction),
/// `b` = argument (ground truth); `mu` perturbs the oracle (self-test of the harness only)
fn oblige<F: Scalar>(m: usize, res: F, a: &[F], b: &[F], mu: F, bound: i64, region: usize, form: usize, only: i64) {
    let n = a.len();
    let smax = n as f64 * (2.0 * bound as f64) * (2.0 * bound as f64);
    let nf = F::lit(n as f64);
    let one = F::lit(1.0);
    let d: Vec<F> = (0..n).map(|i| a[i] - b[i]).collect();
    match m {
        M_MAX => {
            let mut o = fabs(d[0]);
            for i in 1..n {
                o = NF::max(o, fabs(d[i]));
            }
            check_g(only, 1, "max_error == max_i |pred_i - truth_i|", res.s_eq(o + mu));
        }
        M_MAE => {
            let s = sum(d.iter().map(|&x| fabs(x))) + mu;
            check_g(only, 1, "mean_absolute_error * n == sum_i |pred_i - truth_i|", close(res * nf, s, tol::<F>(30) * (one + s)));
        }
        M_MSE => {
            let s = sum(d.iter().map(|&x| x * x)) + mu;
            check_g(only, 1, "mean_squared_error * n == sum_i (pred_i - truth_i)^2", close(res * nf, s, tol::<F>(30) * (one + s)));
        }
        M_MSLE => {
            let s = sum((0..n).map(|i| {
                let l = NF::ln(one + a[i]) - NF::ln(one + b[i]);
                l * l
            })) + mu;
            check_g(only, 1, "mean_squared_log_error * n == sum_i (ln(1+pred_i) - ln(1+truth_i))^2", close(res * nf, s, tol::<F>(30) * (one + s)));
        }
        M_MEDIAN => {
            // order statistics by rank counting (the harness' own comparisons are branches of the same path)
            let ad: Vec<F> = d.iter().map(|&x| fabs(x)).collect();
            let mut by_rank = vec![ad[0]; n];
            for i in 0..n {
                let r = (0..n).filter(|&j| j != i && (ad[j] < ad[i] || (j < i && ad[j] == ad[i]))).count();
                by_rank[r] = ad[i];
            }
            let mid = n / 2;
            let o = if n % 2 == 1 { by_rank[mid] } else { (by_rank[mid - 1] + by_rank[mid]) * F::lit(0.5) };
            check_g(only, 1, "median_absolute_error == median of |pred_i - truth_i|", res.s_eq(o + mu));
        }
        M_MAPE => {
            // relative to the receiver: |(recv_i - other_i) / recv_i|
            let s = sum((0..n).map(|i| fabs(d[i] / a[i]))) + mu;
            check_g(only, 1, "mean_absolute_percentage_error * n == sum_i |(recv_i - other_i) / recv_i|", close(res * nf, s, tol::<F>(30) * (one + s)));
        }
        M_R2 | M_EV => {
            // W = n^2 Var(truth) = n * SStot (exact moment form);  S = SSres;  Vd = n^2 Var(pred - truth)
            let sb = sum(b.iter().copied());
            let w = nf * sum(b.iter().map(|&x| x * x)) - sb * sb;
            let sd = sum(d.iter().copied());
            let s = sum(d.iter().map(|&x| x * x));
            // numerator of the textbook ratio times n: n * SSres (r2) / n^2 Var(err) (explained variance; in
            // region 0 the errors are assumed to sum to zero, so n^2 Var(err) = n * sum err^2)
            let num = if m == M_R2 || region == 0 { nf * s } else { nf * s - sd * sd };
            let what = if m == M_R2 { "r2" } else { "explained_variance" };
            if form == 0 {
                // SStot the textbook way (two passes, by ndarray) -- an auxiliary value whose relation to the
                // moment form is the second obligation.  The first one multiplies by SStot + 1e-10: linfa adds
                // 1e-10 to the denominator; for non-constant integer truth (n * SStot >= 1) this changes the score
                // by at most |1 - score| * n * 1e-10, and the tolerance below (2^-30 of the largest possible
                // n * SSres) is wide enough that a different small regulariser would not be reported.
                let tb = Array1::from(b.to_vec());
                let mean = tb.mean().unwrap();
                let sstot = tb.mapv(|x| (x - mean) * (x - mean)).sum();
                let c = F::lit(pow2ceil(n as f64 * smax) * (2.0f64).powi(-30));
                check_g(only, 1, &format!("(1 - {}) * (SStot + 1e-10) * n == textbook numerator * n", what), close(nf * ((one - res) * (sstot + F::lit(1e-10))), num + mu, c));
                check_g(only, 2, "SStot * n == n sum t^2 - (sum t)^2", close(nf * sstot, w, c));
            } else {
                // directly against the moment form, without the regulariser: the solver needs interval facts of
                // the domain (|pred - truth| <= 2B) as hints; they exclude no input
                assume(F::lit(0.0).s_le(s).and(s.s_le(F::lit(smax))));
                let c = F::lit(pow2ceil(n as f64 * smax) * (2.0f64).powi(-24));
                check_g(only, 1, &format!("(1 - {}) * n^2 Var(truth) == textbook numerator * n", what), close((one - res) * w, num + mu, c));
            }
        }
        _ => unreachable!(),
    }
}

fn pow2ceil(x: f64) -> f64 {
    let mut p = 1.0f64;
    while p < x {
        p *= 2.0;
    }
    p
}

fn regression<F: Scalar>(p: &Params) {
    let (n, m, cols, recv) = (p.u("n", 3), p.u("m", 0), p.u("cols", 0), p.u("recv", 0));
    let (b, region, mutk) = (p.get("B", 64), p.u("region", 0), p.get("mut", 0));
    let only = p.get("ob", -1);
    let c = cols.max(1);
    let lo = if m == M_MSLE { 0 } else { -b };
    let mut a = Array2::from_elem((n, c), F::lit(0.0));
    let mut t = Array2::from_elem((n, c), F::lit(0.0));
    // sym < n: only the first `sym` rows are symbolic, the others are fixed integers of the domain (larger
    // vectors than the solver could handle fully symbolic: code paths selected by the length)
    let sym = p.u("sym", n).min(n);
    let fixed = |i: usize, j: usize, k: i64| -> i64 {
        let span = b - lo + 1;
        lo + ((i as i64 * (7 + 2 * k) + j as i64 * 3 + k * 5) * 11 % span + span) % span
    };
    for j in 0..c {
        for i in 0..n {
            a[(i, j)] = if i < sym { int::<F>(&format!("pred{}_{}", i, j), lo, b) } else { F::lit(fixed(i, j, 0).max(if m == M_MAPE { 1 } else { lo }) as f64) };
        }
        for i in 0..n {
            t[(i, j)] = if i < sym { int::<F>(&format!("truth{}_{}", i, j), lo, b) } else { F::lit(fixed(i, j, 1) as f64) };
        }
    }
    let nf = F::lit(n as f64);
    for j in 0..c {
        let (aj, tj) = (a.column(j).to_vec(), t.column(j).to_vec());
        if m == M_MAPE {
            for i in 0..n {
                assume(aj[i].s_eq(F::lit(0.0)).not());
            }
        }
        if m == M_R2 || m == M_EV {
            // non-constant truth (as a linear fact: the solver is much more reliable without non-linear context)
            assume(SymB::any(&(1..n).map(|i| tj[i].s_eq(tj[0]).not()).collect::<Vec<_>>()));
            if p.u("form", 0) == 1 {
                // n^2 Var(truth) is a positive integer then; the direct form needs it as a hint
                let sb = sum(tj.iter().copied());
                let w = nf * sum(tj.iter().map(|&x| x * x)) - sb * sb;
                assume(F::lit(1.0).s_le(w));
            }
        }
        if m == M_EV {
            let sd = sum((0..n).map(|i| aj[i] - tj[i]));
            if region == 0 {
                // outside the recorded defect: predictions whose errors sum to zero
                assume(sd.s_eq(F::lit(0.0)));
            } else {
                // inside it: linfa subtracts mean(err) where n * mean(err)^2 belongs, equal iff sum(err) is 0 or 1
                assume(sd.s_eq(F::lit(0.0)).not().and(sd.s_eq(F::lit(1.0)).not()));
            }
        }
    }
    let mu = |k: i64| if mutk == k { F::lit(1.0) } else { F::lit(0.0) };
    let run = |a: &Array2<F>, t: &Array2<F>| -> Vec<F> {
        if m == M_R2 || m == M_EV {
            // linfa divides by SStot + 1e-10, which is positive; saying so up front keeps the engine from forking on
            // "divisor == 0" (the refuted fork query leaves z3's incremental state unable to prove the obligations)
            for j in 0..c {
                let tb = t.column(j).to_owned();
                let mean = tb.mean().unwrap();
                let dd = tb.mapv(|x| (x - mean) * (x - mean)).sum() + F::lit(1e-10);
                assume(dd.s_eq(F::lit(0.0)).not());
            }
        }
        if cols == 0 {
            vec![call_single(m, recv, &a.column(0).to_owned(), &t.column(0).to_owned())]
        } else {
            call_multi(m, recv, a, t)
        }
    };
    let res = run(&a, &t);
    check_bool("one score per target column", res.len() == c);
    for j in 0..c.min(res.len()) {
        // mut=3: an oracle that is wrong only for pred_0 > B - 4 (self-test: the solver has to find the input)
        let muv = if mutk == 3 { NF::max(F::lit(0.0), a[(0, j)] - F::lit((b - 4) as f64)) } else { mu(1) };
        oblige(m, res[j], &a.column(j).to_vec(), &t.column(j).to_vec(), muv, b, region, p.u("form", 0), only);
        observe(res[j]);
    }
    // one permutation applied to predictions and truths together: a transposition and a rotation
    if n >= 2 && p.u("perm", 1) == 1 {
        let perms: Vec<Vec<usize>> = vec![
            (0..n).map(|i| if i == 0 { n - 1 } else if i == n - 1 { 0 } else { i }).collect(),
            (0..n).map(|i| (i + 1) % n).collect(),
        ];
        for (pk, pi) in perms.iter().enumerate().take(if n == 2 { 1 } else { 2 }) {
            let g = 3 + pk as i64;
            if only >= 0 && only != g {
                continue;
            }
            let ap = Array2::from_shape_fn((n, c), |(i, j)| a[(pi[i], j)]);
            let tp = Array2::from_shape_fn((n, c), |(i, j)| t[(pi[i], j)]);
            let rp = run(&ap, &tp);
            for j in 0..c.min(rp.len()) {
                let r2 = rp[j] + mu(2);
                let name = "score unchanged by permuting predictions and truths together";
                if m == M_MAX || m == M_MEDIAN {
                    check(name, res[j].s_eq(r2));
                } else if m == M_R2 || m == M_EV {
                    check(name, close(res[j], r2, tol::<F>(24)));
                } else {
                    check(name, close(res[j], r2, tol::<F>(30) * (F::lit(1.0) + fabs(res[j]))));
                }
            }
        }
    }
}

// ------------------------------------------------------------------------------------------------
// confusion matrix
// ------------------------------------------------------------------------------------------------
/// `Debug` of a `ConfusionMatrix` is the only public view of its members and cells
fn parse_cm(txt: &str) -> Option<(Vec<String>, Vec<Vec<f64>>)> {
    let lines: Vec<&str> = txt.lines().filter(|l| !l.trim().is_empty()).collect();
    if lines.is_empty() {
        return None;
    }
    let head: Vec<String> = lines[0].split('|').map(|s| s.trim().to_string()).collect();
    if head.is_empty() || head[0] != "classes" {
        return None;
    }
    let members: Vec<String> = head[1..].to_vec();
    let mut cells = vec![];
    for (r, l) in lines[1..].iter().enumerate() {
        let parts: Vec<&str> = l.split('|').map(|s| s.trim()).collect();
        if parts.len() != members.len() + 1 || parts[0] != members.get(r)?.as_str() {
            return None;
        }
        let row: Option<Vec<f64>> = parts[1..].iter().map(|s| s.parse::<f64>().ok()).collect();
        cells.push(row?);
    }
    if cells.len() != members.len() {
        return None;
    }
    Some((members, cells))
}

fn approx32(got: f32, want: f64) -> bool {
    let g = got as f64;
    g.is_finite() && (g - want).abs() <= 2e-6 * want.abs().max(1.0)
}

/// (tp, fp, fn, tn) of a binary matrix whose members are `true` / `false`, rows = predicted
fn parse_bin(c: &ConfusionMatrix<bool>) -> Option<[f64; 4]> {
    let (mem, m) = parse_cm(&format!("{:?}", c))?;
    if mem.len() != 2 {
        return None;
    }
    let it = mem.iter().position(|s| s == "true")?;
    let ifa = mem.iter().position(|s| s == "false")?;
    Some([m[it][it], m[it][ifa], m[ifa][it], m[ifa][ifa]])
}

fn cm_checks<L: Label + Display>(lab: &[L], pi: &[usize], ti: &[usize], recv: usize, part: usize, mutk: i64) {
    let n = pi.len();
    let k = lab.len();
    let pred: Array1<L> = pi.iter().map(|&c| lab[c].clone()).collect();
    let truth: Array1<L> = ti.iter().map(|&c| lab[c].clone()).collect();
    let rec = || Array2::<f64>::zeros((n, 1));
    let cm: ConfusionMatrix<L> = match recv {
        0 => pred.confusion_matrix(&truth),
        1 => pred.confusion_matrix(truth.clone()),
        2 => {
            let dp = DatasetBase::new(rec(), pred.clone());
            let dt = DatasetBase::new(rec(), truth.clone());
            dp.confusion_matrix(&dt)
        }
        _ => {
            let dt = DatasetBase::new(rec(), truth.clone());
            pred.confusion_matrix(&dt)
        }
    }
    .expect("confusion_matrix failed on vectors of equal length");
    let mu = |j: i64| if mutk == j { 1.0 } else { 0.0 };
    // counts straight from the label vectors
    let cnt = |a: usize, b: usize| (0..n).filter(|&i| pi[i] == a && ti[i] == b).count() as f64;
    let present: Vec<usize> = (0..k).filter(|c| pi.contains(c) || ti.contains(c)).collect();
    let parsed = parse_cm(&format!("{:?}", cm));
    check_bool("cm.Debug lists members and a square matrix of cells", parsed.is_some());
    let (members, m) = match parsed {
        Some(x) => x,
        None => return,
    };
    let kk = members.len();
    // member r -> class index
    let cls: Vec<Option<usize>> = members.iter().map(|s| (0..k).find(|&c| lab[c].to_string() == *s)).collect();
    let mut sorted: Vec<usize> = cls.iter().flatten().copied().collect();
    sorted.sort();
    let members_ok = cls.iter().all(|c| c.is_some()) && sorted == present;
    if part == 0 {
        check_bool("cm.members are the union of both label sets, each once", members_ok);
    }
    if !members_ok {
        return;
    }
    let cls: Vec<usize> = cls.into_iter().map(|c| c.unwrap()).collect();
    let total: f64 = m.iter().flatten().sum();
    let row = |r: usize| -> f64 { m[r].iter().sum() };
    let col = |c: usize| -> f64 { (0..kk).map(|r| m[r][c]).sum() };
    let diag: f64 = (0..kk).map(|i| m[i][i]).sum();
    // documented functions of the cells (rustdoc of precision / recall: first label for 2x2, macro average otherwise)
    let prec: Option<f64> = if kk == 2 {
        if m[0][0] + m[1][0] > 0.0 { Some(m[0][0] / (m[0][0] + m[1][0])) } else { None }
    } else if (0..kk).all(|i| col(i) > 0.0) {
        Some((0..kk).map(|i| m[i][i] / col(i)).sum::<f64>() / kk as f64)
    } else {
        None
    };
    let rec_: Option<f64> = if kk == 2 {
        if m[0][0] + m[0][1] > 0.0 { Some(m[0][0] / (m[0][0] + m[0][1])) } else { None }
    } else if (0..kk).all(|i| row(i) > 0.0) {
        Some((0..kk).map(|i| m[i][i] / row(i)).sum::<f64>() / kk as f64)
    } else {
        None
    };
    if part == 0 {
        let mut cells_ok = true;
        for r in 0..kk {
            for c in 0..kk {
                cells_ok &= m[r][c] == cnt(cls[r], cls[c]) + if r == 0 && c == 0 { mu(1) } else { 0.0 };
            }
        }
        check_bool("cm.cell(r,c) == #{i: pred_i = member r and truth_i = member c}", cells_ok);
        check_bool("cm.cells sum to the number of samples", total == n as f64 + mu(2));
        let eq = (0..n).filter(|&i| pi[i] == ti[i]).count() as f64;
        check_bool("cm.accuracy == fraction of equal labels", approx32(cm.accuracy(), eq / n as f64 + mu(3)));
        if let Some(pv) = prec {
            check_bool("cm.precision == documented function of the cells", approx32(cm.precision(), pv + mu(4)));
        }
        if let Some(rv) = rec_ {
            check_bool("cm.recall == documented function of the cells", approx32(cm.recall(), rv + mu(5)));
        }
        if let (Some(pv), Some(rv)) = (prec, rec_) {
            for beta in [0.5f64, 1.0, 2.0] {
                let sb = beta * beta;
                if sb * pv + rv > 0.0 {
                    let want = (1.0 + sb) * pv * rv / (sb * pv + rv) + mu(6);
                    check_bool("cm.f_score(beta) == (1+b^2) p r / (b^2 p + r)", approx32(cm.f_score(beta as f32), want));
                    if beta == 1.0 {
                        check_bool("cm.f1_score == f_score(1)", approx32(cm.f1_score(), want));
                    }
                }
            }
        }
        // Matthews correlation (Gorodkin's R_K) from the label vectors
        let s = n as f64;
        let pk: Vec<f64> = present.iter().map(|&c| pi.iter().filter(|&&x| x == c).count() as f64).collect();
        let tk: Vec<f64> = present.iter().map(|&c| ti.iter().filter(|&&x| x == c).count() as f64).collect();
        let num = eq * s - pk.iter().zip(&tk).map(|(a, b)| a * b).sum::<f64>();
        let den = (s * s - pk.iter().map(|a| a * a).sum::<f64>()) * (s * s - tk.iter().map(|a| a * a).sum::<f64>());
        if den > 0.0 {
            check_bool("cm.mcc == (c s - sum p_k t_k) / sqrt((s^2 - sum p_k^2)(s^2 - sum t_k^2))", approx32(cm.mcc(), num / den.sqrt() + mu(7)));
        }
        // one-vs-all: for every class the 2x2 matrix of "is this class" (predicted, true)
        let ova: Vec<Option<[f64; 4]>> = cm.split_one_vs_all().iter().map(parse_bin).collect();
        let mut got: Vec<[i64; 4]> = ova.iter().flatten().map(|q| [q[0] as i64, q[1] as i64, q[2] as i64, q[3] as i64]).collect();
        let mut want: Vec<[i64; 4]> = present
            .iter()
            .map(|&c| {
                let tp = cnt(c, c);
                let fp = (0..n).filter(|&i| pi[i] == c && ti[i] != c).count() as f64;
                let fnn = (0..n).filter(|&i| pi[i] != c && ti[i] == c).count() as f64;
                [(tp + mu(8)) as i64, fp as i64, fnn as i64, (s - tp - fp - fnn) as i64]
            })
            .collect();
        got.sort();
        want.sort();
        check_bool("cm.split_one_vs_all == one [[tp,fp],[fn,tn]] per class", ova.iter().all(|q| q.is_some()) && got == want);
        // one-vs-one: for every unordered pair of distinct classes the 2x2 sub-matrix
        let ovo: Vec<Option<[f64; 4]>> = cm.split_one_vs_one().iter().map(parse_bin).collect();
        let mut all_pairs = ovo.iter().all(|q| q.is_some());
        for (x, &ci) in present.iter().enumerate() {
            for &cj in present.iter().skip(x + 1) {
                let a = [cnt(ci, ci) + mu(9), cnt(ci, cj), cnt(cj, ci), cnt(cj, cj)];
                let b = [a[3], a[2], a[1], a[0]];
                all_pairs &= ovo.iter().flatten().any(|q| *q == a || *q == b);
            }
        }
        check_bool("cm.split_one_vs_one contains [[m_ii,m_ij],[m_ji,m_jj]] for every pair of distinct classes", all_pairs);
        let _ = diag;
    }
    if part == 1 {
        let got = cm.split_one_vs_one().len();
        check_bool("cm.split_one_vs_one returns N(N-1)/2 matrices", got == kk * (kk - 1) / 2);
    }
    if part == 2 && kk == 2 {
        // textbook reading with the receiver as prediction: precision = TP/(TP+FP), recall = TP/(TP+FN)
        let c0 = cls[0];
        let tp = cnt(c0, c0);
        let fp = (0..n).filter(|&i| pi[i] == c0 && ti[i] != c0).count() as f64;
        let fnn = (0..n).filter(|&i| pi[i] != c0 && ti[i] == c0).count() as f64;
        if tp + fp > 0.0 {
            check_bool("cm.precision == TP/(TP+FP) for the first member (receiver = prediction)", approx32(cm.precision(), tp / (tp + fp)));
        }
        if tp + fnn > 0.0 {
            check_bool("cm.recall == TP/(TP+FN) for the first member (receiver = prediction)", approx32(cm.recall(), tp / (tp + fnn)));
        }
    }
}

fn confusion(p: &Params) {
    let (n, k, lab, recv) = (p.u("n", 3), p.u("k", 2), p.u("lab", 0), p.u("recv", 0));
    let (part, mutk) = (p.u("part", 0), p.get("mut", 0));
    let pi: Vec<usize> = (0..n).map(|i| SymLabel::input(&format!("pred{}", i), k).resolve(k)).collect();
    let ti: Vec<usize> = (0..n).map(|i| SymLabel::input(&format!("truth{}", i), k).resolve(k)).collect();
    match lab {
        0 => {
            let l: Vec<usize> = (0..k).map(|c| 3 * c + 1).collect();
            cm_checks(&l, &pi, &ti, recv, part, mutk)
        }
        1 => {
            assert!(k <= 2, "bool labels: k <= 2");
            cm_checks(&[false, true][..k], &pi, &ti, recv, part, mutk)
        }
        _ => {
            let l: Vec<String> = ["pear", "apple", "fig", "kiwi"].iter().take(k).map(|s| s.to_string()).collect();
            cm_checks(&l, &pi, &ti, recv, part, mutk)
        }
    }
    for i in 0..n {
        observe_usize(pi[i] * k + ti[i]);
    }
}

fn cm_errors(_p: &Params) {
    let a = Array1::from(vec![0usize, 1, 1]);
    let b = Array1::from(vec![0usize, 1]);
    check_bool("cm.vectors of different length are rejected", a.confusion_matrix(&b).is_err());
    check_bool("cm.vectors of different length are rejected", b.confusion_matrix(a.clone()).is_err());
    let e = Array1::<f64>::from(vec![]);
    check_bool("regression.mean of an empty vector is an error", SingleTargetRegression::<f64, Array1<f64>>::mean_absolute_error(&e, &e).is_err());
    check_bool("regression.mean of an empty vector is an error", SingleTargetRegression::<f64, Array1<f64>>::mean_squared_error(&e, &e).is_err());
    check_bool("regression.mean of an empty vector is an error", SingleTargetRegression::<f64, Array1<f64>>::r2(&e, &e).is_err());
}

// ------------------------------------------------------------------------------------------------
// silhouette
// ------------------------------------------------------------------------------------------------
fn mu2<F: Scalar>(mutk: i64, k: i64) -> F {
    if mutk == k {
        F::lit(1.0)
    } else {
        F::lit(0.0)
    }
}

fn silhouette<F: Scalar>(p: &Params) {
    let (n, d, pat, b) = (p.u("n", 4), p.u("d", 1), p.u("pat", 0b0011), p.get("B", 64));
    let mutk = p.get("mut", 0);
    let lab: Vec<usize> = (0..n).map(|i| (pat >> i) & 1).collect();
    let size = [lab.iter().filter(|&&l| l == 0).count(), lab.iter().filter(|&&l| l == 1).count()];
    assert!(size[0] >= 2 && size[1] >= 2, "pattern must give two clusters of at least two points");
    let mut x = Array2::from_elem((n, d), F::lit(0.0));
    for i in 0..n {
        for j in 0..d {
            x[(i, j)] = int::<F>(&format!("x{}_{}", i, j), -b, b);
        }
    }
    // clusters of at least two distinct points
    for c in 0..2 {
        let mut any = vec![];
        for i in 0..n {
            for i2 in (i + 1)..n {
                if lab[i] == c && lab[i2] == c {
                    for j in 0..d {
                        any.push(x[(i, j)].s_eq(x[(i2, j)]).not());
                    }
                }
            }
        }
        assume(SymB::any(&any));
    }
    let score_of = |x: &Array2<F>, lab: &[usize]| -> F {
        let ds = DatasetBase::new(x.clone(), Array1::from(lab.to_vec()));
        ds.silhouette_score().expect("silhouette_score")
    };
    let dist = |i: usize, j: usize| -> F { (&x.row(i) - &x.row(j)).mapv(|v| v * v).sum().sqrt() };
    if d == 1 && p.u("hint", 1) == 1 {
        // in one dimension sqrt((x_i - x_j)^2) = |x_i - x_j| (exactly, also in IEEE on the integer grid): stated so
        // that the path conditions become linear for the solver; excludes no input
        for i in 0..n {
            for j in 0..n {
                assume(dist(i, j).s_eq(fabs(x[(i, 0)] - x[(j, 0)])));
            }
        }
    }
    let score = score_of(&x, &lab);
    observe(score);
    let only = p.get("ob", -1);
    // Textbook: a_i = mean distance to the other members of the own cluster, b_i = mean distance to the other
    // cluster (smallest over the other clusters), s_i = (b_i - a_i) / max(a_i, b_i), score = mean s_i, Euclidean
    // distance.  The harness computes these as auxiliary values (distances accumulated per cluster in sample
    // order, the maximum chosen by comparison) and states (1) score == their mean, (2),(3) the accumulated means
    // are the textbook means (own sample excluded), (4) s_i * max(a_i, b_i) == b_i - a_i, (5) range.
    let mut s_aux: Vec<F> = vec![];
    let one = F::lit(1.0);
    let dmax = 2.0 * b as f64 * (d as f64).sqrt() * n as f64;
    let t_d = F::lit(pow2ceil(dmax) * (2.0f64).powi(-30));
    for i in 0..n {
        let own = lab[i];
        let mut tot = [F::lit(0.0), F::lit(0.0)];
        for j in 0..n {
            tot[lab[j]] = tot[lab[j]] + dist(i, j);
        }
        let a = tot[own] / F::lit((size[own] - 1) as f64);
        let bb = tot[1 - own] / F::lit(size[1 - own] as f64);
        let others_own = sum((0..n).filter(|&j| j != i && lab[j] == own).map(|j| dist(i, j)));
        let others_far = sum((0..n).filter(|&j| lab[j] != own).map(|j| dist(i, j)));
        check_g(only, 2, "silhouette.a_i * (|own cluster| - 1) == sum of distances to the other members of the own cluster", close(a * F::lit((size[own] - 1) as f64), others_own + mu2(mutk, 2), t_d));
        check_g(only, 3, "silhouette.b_i * |other cluster| == sum of distances to the members of the other cluster", close(bb * F::lit(size[1 - own] as f64), others_far + mu2(mutk, 3), t_d));
        let mx = if a >= bb { a } else { bb };
        let si = (bb - a) / mx;
        check_g(only, 4, "silhouette.s_i * m_i == b_i - a_i with m_i >= a_i, m_i >= b_i, m_i one of them", SymB::all(&[close(si * mx, bb - a + mu2(mutk, 4), t_d), a.s_le(mx), bb.s_le(mx + mu2(mutk, 4)), mx.s_eq(a).or(mx.s_eq(bb))]));
        s_aux.push(si);
    }
    let total = sum(s_aux.iter().copied());
    let nf = F::lit(n as f64);
    check_g(only, 1, "silhouette_score * n == sum_i s_i", close(score * nf, total + mu2(mutk, 1), tol::<F>(30) * nf));
    check_g(if only < 0 { 99 } else { only }, 9, "silhouette_score in [-1, 1]", fabs(score).s_le(one + tol::<F>(30) - mu2(mutk, 9) - mu2(mutk, 9)));
    if p.u("perm", 0) == 1 {
        let pi: Vec<usize> = (0..n).map(|i| (i + 1) % n).collect();
        let xp = Array2::from_shape_fn((n, d), |(i, j)| x[(pi[i], j)]);
        let lp: Vec<usize> = (0..n).map(|i| lab[pi[i]]).collect();
        let sp = score_of(&xp, &lp) + mu2(mutk, 6);
        check_g(only, 6, "silhouette_score unchanged by permuting samples and labels together", close(score, sp, tol::<F>(30)));
    }
}

// ------------------------------------------------------------------------------------------------
// Pearson
// ------------------------------------------------------------------------------------------------
fn pearson<F: Scalar>(p: &Params) {
    let (n, pc, b, mutk) = (p.u("n", 3), p.u("p", 2), p.get("B", 64), p.get("mut", 0));
    assert!(n >= 2 && pc >= 2);
    let mut x = Array2::from_elem((n, pc), F::lit(0.0));
    for i in 0..n {
        for j in 0..pc {
            x[(i, j)] = int::<F>(&format!("x{}_{}", i, j), -b, b);
        }
    }
    let nf = F::lit(n as f64);
    // C_ij = n sum x_i x_j - sum x_i sum x_j  (= n^2 Cov, exact)
    let cmom = |x: &Array2<F>, i: usize, j: usize| -> F {
        let si = sum(x.column(i).iter().copied());
        let sj = sum(x.column(j).iter().copied());
        nf * sum((0..n).map(|r| x[(r, i)] * x[(r, j)])) - si * sj
    };
    // the coefficient is defined for non-constant features
    for j in 0..pc {
        assume(F::lit(0.0).s_lt(cmom(&x, j, j)));
    }
    let only = p.get("ob", -1);
    // Textbook: r_ij = Cov_ij / (std_i std_j) with the sample (n-1) covariance and standard deviations.  The
    // harness computes Cov and std by ndarray (auxiliary values) and states (1) r_ij * std_i * std_j == Cov_ij,
    // (2) std_i >= 0 and n (n-1) std_i^2 == n sum x_i^2 - (sum x_i)^2, (3) n (n-1) Cov_ij == n sum x_i x_j - sum x_i sum x_j,
    // which together give r_ij = C_ij / sqrt(C_ii C_jj) in the row-major upper-triangle order.
    let mean = x.mean_axis(ndarray::Axis(0)).unwrap();
    let den = &x - &mean;
    let cov = den.t().dot(&den) / F::lit((n - 1) as f64);
    let sd = den.var_axis(ndarray::Axis(0), F::lit(1.0)).mapv(|v| v.sqrt());
    // non-constant features have a positive standard deviation (follows from the assumption above; stated so that
    // the engine does not fork on "divisor == 0")
    for j in 0..pc {
        assume(sd[j].s_eq(F::lit(0.0)).not());
    }
    let coeffs = DatasetBase::from(x.clone()).pearson_correlation().get_coeffs().clone();
    check_bool("pearson.one coefficient per unordered feature pair", coeffs.len() == pc * (pc - 1) / 2);
    if coeffs.len() != pc * (pc - 1) / 2 {
        return;
    }
    let bf = b as f64;
    let nn1 = F::lit((n * (n - 1)) as f64);
    let t_cov = F::lit(pow2ceil(4.0 * bf * bf * n as f64) * (2.0f64).powi(-30));
    let t_mom = F::lit(pow2ceil(4.0 * bf * bf * (n * n) as f64) * (2.0f64).powi(-30));
    for j in 0..pc {
        check_g(only, 2, "pearson.std_i >= 0 and n (n-1) std_i^2 == n sum x_i^2 - (sum x_i)^2", F::lit(0.0).s_le(sd[j]).and(close(nn1 * (sd[j] * sd[j]), cmom(&x, j, j) + mu2(mutk, 2), t_mom)));
    }
    let mut k = 0;
    for i in 0..pc {
        for j in (i + 1)..pc {
            let r = coeffs[k];
            // native f64 matrix products go through `matrixmultiply`, other scalars through ndarray's generic loop:
            // bit-identical only when the centred data are exact (n a power of two)
            if n.is_power_of_two() {
                observe(r);
            }
            check_g(only, 1, "pearson.r_ij * std_i * std_j == Cov_ij (upper triangle, row major)", close(r * sd[i] * sd[j], cov[(i, j)] + mu2(mutk, 1), t_cov));
            check_g(only, 3, "pearson.n (n-1) Cov_ij == n sum x_i x_j - sum x_i sum x_j", close(nn1 * cov[(i, j)], cmom(&x, i, j) + mu2(mutk, 3), t_mom));
            // direct squared form (usually beyond the solver; still evaluated on every path witness)
            let (cii, cjj, cij) = (cmom(&x, i, i), cmom(&x, j, j), cmom(&x, i, j));
            check_g(if only < 0 { 99 } else { only }, 5, "pearson.r_ij^2 * C_ii * C_jj == C_ij^2 and r_ij C_ij >= 0", close(r * r * cii * cjj, cij * cij + mu2(mutk, 5), tol::<F>(30) * cii * cjj).and(F::lit(0.0).s_le(r * cij)));
            k += 1;
        }
    }
    if p.u("perm", 0) == 1 {
        let pi: Vec<usize> = (0..n).map(|i| (i + 1) % n).collect();
        let xp = Array2::from_shape_fn((n, pc), |(i, j)| x[(pi[i], j)]);
        let cp = DatasetBase::from(xp).pearson_correlation().get_coeffs().clone();
        for k in 0..coeffs.len() {
            check_g(only, 4, "pearson.unchanged by permuting the observations", close(coeffs[k], cp[k] + mu2(mutk, 4), tol::<F>(30)));
        }
    }
}

pub fn register(v: &mut Vec<HarnessDef>) {
    harness!(v, "c05.regression", "C05", regression,
        "regression score m (0 max,1 mae,2 mse,3 msle,4 median,5 mape,6 r2,7 explained variance) == textbook formula over symbolic integer vectors of length n; cols=0 single target / cols=c multi target; recv 0 array.metric(&array), 1 dataset.metric(&array), 2 array.metric(&dataset); ob: 1 formula, 2 auxiliary identity (r2/ev), 3 transposition, 4 rotation; form (r2/ev): 0 through SStot+1e-10, 1 directly against the moment sums; region (ev): 0 errors sum to 0, 1 errors sum to neither 0 nor 1 (recorded defect)",
        ["linfa::metrics::SingleTargetRegression::{max_error,mean_absolute_error,mean_squared_error,mean_squared_log_error,median_absolute_error,mean_absolute_percentage_error,r2,explained_variance}", "linfa::metrics::MultiTargetRegression::* (per column)", "impls for ArrayBase<_,Ix1>, ArrayBase<_,Ix2>, DatasetBase (receiver and argument)"],
        ["entries are integers in [-B,B] ([0,B] for the log error: ln is an uninterpreted function, so only the formula around it is checked)", "mape: receiver entries non-zero (the error is relative to the receiver)", "r2 / explained variance: truth non-constant; form 0 states (1-score)(SStot+1e-10) == numerator with SStot the two-pass textbook sum, checked against the moment form by a second obligation; linfa's 1e-10 changes the score by at most |1-score| n 1e-10 there; form 1 (n<=4) states it without the 1e-10 against the moment form with tolerance 2^-24 of the largest numerator, using the interval fact 0 <= SSres <= n(2B)^2 as a hint", "explained variance, region 0: errors sum to zero; errors summing to 1 are in neither region", "median: the oracle ranks the absolute errors with its own comparisons (branches of the same path)", "divisor != 0 of r2/ev is assumed up front (it is SStot + 1e-10 > 0) so that the engine does not fork on it"]);
    harness_sym!(v, "c05.confusion", "C05", confusion,
        "confusion matrix and derived scores for every pair of label vectors of length n over k classes (lab 0 usize, 1 bool, 2 String; recv 0 array/&array, 1 array/array, 2 dataset/&dataset, 3 array/&dataset; part 0 all documented obligations, 1 number of one-vs-one matrices, 2 textbook precision/recall)",
        ["linfa::metrics::ToConfusionMatrix::confusion_matrix (4 impls)", "linfa::dataset::Labels::{label_count,label_set,combined_labels}", "linfa::metrics::ConfusionMatrix::{accuracy,precision,recall,f_score,f1_score,mcc,split_one_vs_all,split_one_vs_one}", "<ConfusionMatrix as Debug>::fmt (the only public view of members and cells)"],
        ["labels are enumerated by the solver and resolved before linfa is called (cells are concrete f32 counts on each path; linfa's HashMaps see ordinary labels, so the trace is deterministic)", "scores whose documented formula divides by zero are not constrained", "precision/recall: the rustdoc reading over the cells (2x2: M00/(M00+M10) resp. M00/(M00+M01); otherwise macro average over the one-vs-all splits); member order is not pinned"]);
    harness_sym!(v, "c05.cm_errors", "C05", cm_errors,
        "length mismatch and empty input are errors",
        ["linfa::metrics::ToConfusionMatrix::confusion_matrix", "linfa::metrics::SingleTargetRegression::{mean_absolute_error,mean_squared_error,r2}"],
        []);
    harness!(v, "c05.silhouette", "C05", silhouette,
        "silhouette score of a two-cluster labelling (bit pattern pat) of n symbolic points in d dimensions; ob: 1 score*n == sum s_i, 2 a_i is the mean distance to the other members of the own cluster, 3 b_i is the mean distance to the other cluster, 4 s_i*max(a_i,b_i) == b_i-a_i, 6 invariance under a rotation of the samples (perm=1), 9 range",
        ["linfa::metrics::SilhouetteScore::silhouette_score", "linfa::metrics_clustering::DistanceCount::{add_point,mean_distance,same_label_mean_distance}"],
        ["integer coordinates in [-B,B]", "two clusters, each with at least two distinct points", "d=1: sqrt((x_i-x_j)^2) == |x_i-x_j| is stated as a hint (exact also in IEEE on the grid) so that path conditions are linear; with d=2 z3 leaves branch flips undecided (not registered)", "three or more clusters are not run: linfa iterates a std HashMap whose order differs from run to run, so the sequence of comparisons is not a function of the input"]);
    harness!(v, "c05.pearson", "C05", pearson,
        "Pearson coefficients of an n x p symbolic matrix through auxiliary sample covariance / standard deviations computed by ndarray; ob: 1 r_ij std_i std_j == Cov_ij (row-major upper triangle), 2 n(n-1) std_i^2 == moment sum, 3 n(n-1) Cov_ij == moment sum, 4 invariance under a rotation of the rows (perm=1; beyond z3), 5 direct squared form (beyond z3)",
        ["linfa::correlation::pearson_correlation", "linfa::correlation::PearsonCorrelation::{from_dataset,get_coeffs}", "DatasetBase::pearson_correlation"],
        ["integer entries in [-B,B]", "every feature non-constant (std != 0 stated up front so that the engine does not fork on the divisor)", "obligations 1-3 together give r_ij = C_ij / sqrt(C_ii C_jj); the composition is arithmetic outside the solver"]);
}

//! C06 — kernel matrices hold the kernel function (dense and sparse, all views); agglomerative
//! clustering on a kernel partitions the samples as stated.
//!
//! Oracles are recomputed from the input terms: the kernel function of two rows (dot product,
//! (dot + c)^degree, exp(-||a-b||^2 / eps)), the k-nearest-neighbour relation from squared distances,
//! and for the clustering the similarity graph `s_ij > tau` (the threshold handed to linfa is
//! `-ln(tau)`, so "dissimilarity -ln(s) below the threshold" is `s > tau` by monotonicity of ln).
use crate::common::*;
use crate::harness;
use linfa::traits::Transformer;
use linfa::ParamGuard;
use linfa_hierarchical::{HierarchicalCluster, Method};
use linfa_kernel::{Kernel, KernelInner, KernelMethod, KernelType};
use linfa_nn::CommonNearestNeighbour;
use ndarray::Array2;

fn fabs<F: Scalar>(x: F) -> F {
    num_traits::Float::abs(x)
}

/// `a` and `b` agree: same term / same bits, else exactly equal (tol == 0) or within `tol * (1 + |b|)`
/// (values that went through exp / a fractional power / a rounded division: the witness is evaluated with
/// IEEE shadows, the solver with exact reals).
fn agree<F: Scalar>(name: &str, a: F, b: F, tol: f64) {
    if a.identical(b) {
        check_bool(name, true);
    } else if tol == 0.0 {
        check(name, a.s_eq(b));
    } else {
        // relative to the magnitude on the run at hand (witness or replayed candidate)
        let t = tol * (1.0 + b.shadow().abs());
        check(name, fabs(a - b).s_le(F::lit(if t.is_finite() { t } else { tol })));
    }
}

fn index_kind(i: usize) -> CommonNearestNeighbour {
    match i {
        0 => CommonNearestNeighbour::BallTree,
        1 => CommonNearestNeighbour::KdTree,
        _ => CommonNearestNeighbour::LinearSearch,
    }
}

/// kernel method selected by parameters, with its symbolic constants
/// method=0 linear | 1 polynomial (constant c symbolic in [-C,C], degree = deg2/2) | 2 Gaussian
/// (eps: epsk=0 symbolic integer in [1,E]; epsk=1 constant 0.5 (the default); epsk=2 constant 4; epsk=3 constant 5 (rounded division))
struct Meth<F> {
    kind: usize,
    c: F,
    deg2: i64,
    eps: F,
    /// tolerance for comparisons of kernel values (0 = exact)
    tol: f64,
}

fn method_from<F: Scalar>(p: &Params) -> Meth<F> {
    let kind = p.u("method", 0);
    let mut m = Meth { kind, c: F::lit(0.0), deg2: 2 * p.get("deg", 2), eps: F::lit(1.0), tol: 0.0 };
    if p.get("deg2", 0) != 0 {
        m.deg2 = p.get("deg2", 0);
    }
    match kind {
        1 => {
            let cb = p.get("C", 4);
            m.c = if cb > 0 { int::<F>("c", -cb, cb) } else { F::lit(1.0) };
            if m.deg2 % 2 != 0 {
                m.tol = 1e-9;
            }
        }
        2 => {
            m.eps = match p.u("epsk", 1) {
                0 => int::<F>("eps", 1, p.get("E", 64)),
                1 => F::lit(0.5),
                2 => F::lit(4.0),
                _ => F::lit(5.0),
            };
            m.tol = 1e-12;
        }
        _ => {}
    }
    m
}

fn linfa_method<F: Scalar>(m: &Meth<F>) -> KernelMethod<F> {
    match m.kind {
        0 => KernelMethod::Linear,
        1 => KernelMethod::Polynomial(m.c, F::lit(m.deg2 as f64 / 2.0)),
        _ => KernelMethod::Gaussian(m.eps),
    }
}

/// the documented kernel function of two rows, from the input terms
fn kfun<F: Scalar>(m: &Meth<F>, a: &[F], b: &[F], mutate: i64) -> F {
    let mut dot = F::lit(0.0);
    for k in 0..a.len() {
        dot = dot + a[k] * b[k];
    }
    match m.kind {
        0 => {
            if mutate == 1 {
                dot + F::lit(1.0)
            } else {
                dot
            }
        }
        1 => {
            let base = dot + m.c;
            if m.deg2 % 2 == 0 {
                let mut r = F::lit(1.0);
                let reps = m.deg2 / 2 + if mutate == 1 { 1 } else { 0 };
                for _ in 0..reps {
                    r = r * base;
                }
                r
            } else {
                num_traits::Float::powf(base, F::lit(m.deg2 as f64 / 2.0 + if mutate == 1 { 1.0 } else { 0.0 }))
            }
        }
        _ => {
            let mut dist = F::lit(0.0);
            for k in 0..a.len() {
                dist = dist + (a[k] - b[k]) * (a[k] - b[k]);
            }
            if mutate == 1 {
                dist = dist + dist;
            }
            num_traits::Float::exp(-dist / m.eps)
        }
    }
}

fn records<F: Scalar>(n: usize, d: usize, b: i64) -> Array2<F> {
    let mut x = Array2::from_elem((n, d), F::lit(0.0));
    for i in 0..n {
        for j in 0..d {
            x[(i, j)] = int::<F>(&format!("x{}_{}", i, j), -b, b);
        }
    }
    x
}

fn rhs_matrix<F: Scalar>(n: usize, m: usize, r: i64) -> Array2<F> {
    let mut x = Array2::from_elem((n, m), F::lit(0.0));
    for i in 0..n {
        for j in 0..m {
            x[(i, j)] = int::<F>(&format!("r{}_{}", i, j), -r, r);
        }
    }
    x
}

/// for a fractional degree the power of a negative base is NaN: that region is excluded
fn assume_poly_base_nonneg<F: Scalar>(m: &Meth<F>, x: &Array2<F>) {
    if m.kind == 1 && m.deg2 % 2 != 0 {
        let n = x.nrows();
        for i in 0..n {
            for j in 0..n {
                let mut dot = F::lit(0.0);
                for k in 0..x.ncols() {
                    dot = dot + x[(i, k)] * x[(j, k)];
                }
                assume(F::lit(0.0).s_le(dot + m.c));
            }
        }
    }
}

/// the views of a kernel agree with the matrix `mat` (None = structural zero of a sparse kernel)
fn check_views<F: Scalar>(tag: &str, kernel: &Kernel<F>, mat: &Vec<Vec<Option<F>>>, rhs: &Array2<F>, tol: f64, mutate: i64) {
    let n = mat.len();
    let val = |i: usize, j: usize| mat[i][j].unwrap_or(F::lit(0.0));
    check_bool(&format!("{}.size is the number of records", tag), kernel.size() == n + if mutate == 2 { 1 } else { 0 });
    // row sums
    let sums = kernel.sum();
    check_bool(&format!("{}.sum has one entry per row", tag), sums.len() == n);
    if sums.len() == n {
        for i in 0..n {
            let mut s = F::lit(0.0);
            for j in 0..n {
                if mat[i][j].is_some() {
                    s = s + val(i, j);
                }
            }
            if mutate == 3 && i == 0 {
                s = s + F::lit(1.0);
            }
            agree(&format!("{}.sum()[i] is the sum of row i", tag), sums[i], s, tol * n as f64);
            if tol == 0.0 {
                observe(sums[i]);
            }
        }
    }
    // diagonal
    let diag = kernel.diagonal();
    check_bool(&format!("{}.diagonal has n entries", tag), diag.len() == n);
    if diag.len() == n {
        for i in 0..n {
            let want = if mutate == 4 { val(i, (i + 1) % n) } else { val(i, i) };
            agree(&format!("{}.diagonal()[i] is entry (i,i)", tag), diag[i], want, 0.0);
        }
    }
    // columns
    for j in 0..n {
        let col = kernel.column(j);
        check_bool(&format!("{}.column(j) has n entries", tag), col.len() == n);
        if col.len() == n {
            for i in 0..n {
                let want = if mutate == 5 { val(j, (i + 1) % n) } else { val(i, j) };
                agree(&format!("{}.column(j)[i] is entry (i,j)", tag), col[i], want, 0.0);
            }
        }
    }
    // upper triangle, row major, strictly above the diagonal
    let ut = kernel.to_upper_triangle();
    check_bool(&format!("{}.to_upper_triangle has n(n-1)/2 entries", tag), ut.len() == n * (n.max(1) - 1) / 2);
    if ut.len() == n * (n.max(1) - 1) / 2 {
        let mut t = 0;
        for i in 0..n {
            for j in i + 1..n {
                let want = if mutate == 6 { val(j, i) + F::lit(1.0) } else { val(i, j) };
                agree(&format!("{}.to_upper_triangle lists entries (i,j), i<j, row by row", tag), ut[t], want, 0.0);
                t += 1;
            }
        }
    }
    // matrix product
    let prod = kernel.dot(&rhs.view());
    check_bool(&format!("{}.dot has the shape n x m", tag), prod.dim() == (n, rhs.ncols()));
    if prod.dim() == (n, rhs.ncols()) {
        for i in 0..n {
            for c in 0..rhs.ncols() {
                let mut s = F::lit(0.0);
                for k in 0..n {
                    if mat[i][k].is_some() {
                        s = s + val(i, k) * rhs[(k, c)];
                    }
                }
                if mutate == 7 && i == 0 {
                    s = s + rhs[(0, c)];
                }
                agree(&format!("{}.dot(rhs)[i,c] is sum_k K[i,k] rhs[k,c]", tag), prod[(i, c)], s, tol * n as f64);
                if tol == 0.0 {
                    observe(prod[(i, c)]);
                }
            }
        }
    }
}

/// dense kernel: entries == kernel function of the rows, symmetry, Gaussian unit diagonal, views
fn dense<F: Scalar>(p: &Params) {
    let (n, d, b) = (p.u("n", 3), p.u("d", 1), p.get("B", 64));
    let mutate = p.get("mut", 0);
    let mut x = records::<F>(n, d, b);
    // offs=k: every coordinate is shifted by 2^k (records far from the origin but close to each other; still exact)
    let offs = p.get("offs", 0);
    if offs > 0 {
        // harness-side order branches on the first coordinate: one path (and one witness) per ordering of the rows,
        // so that witnesses with different rows are evaluated, not only the all-equal default input
        for i in 0..n {
            for j in i + 1..n {
                let _ = x[(i, 0)] < x[(j, 0)] || x[(j, 0)] < x[(i, 0)];
            }
        }
        x.mapv_inplace(|v| v + F::lit((offs as f64).exp2()));
    }
    let m = method_from::<F>(p);
    let rhs = rhs_matrix::<F>(n, p.u("m", 1), p.get("R", 16));
    assume_poly_base_nonneg(&m, &x);
    let kernel = Kernel::params().method(linfa_method(&m)).transform(x.view());
    let arr = match &kernel.inner {
        KernelInner::Dense(a) => a.clone(),
        KernelInner::Sparse(_) => {
            check_bool("dense.default kind is a dense matrix", false);
            return;
        }
    };
    check_bool("dense.matrix is n x n", arr.dim() == (n, n));
    if arr.dim() != (n, n) {
        return;
    }
    check_bool("dense.is_linear reports the linear method", kernel.is_linear() == (m.kind == 0));
    let rows: Vec<Vec<F>> = (0..n).map(|i| x.row(i).to_vec()).collect();
    for i in 0..n {
        for j in 0..n {
            let want = kfun(&m, &rows[i], &rows[j], mutate);
            agree("dense.entry (i,j) is the kernel function of rows i and j", arr[(i, j)], want, m.tol);
            observe(arr[(i, j)]);
            if j > i {
                agree("dense.symmetric", arr[(i, j)], arr[(j, i)], m.tol);
            }
        }
        if m.kind == 2 {
            check("dense.Gaussian kernel has unit diagonal", arr[(i, i)].s_eq(F::lit(if mutate == 8 { 2.0 } else { 1.0 })));
        }
    }
    // Gaussian: two identical rows are at similarity one, whatever the bandwidth
    let mat: Vec<Vec<Option<F>>> = (0..n).map(|i| (0..n).map(|j| Some(arr[(i, j)])).collect()).collect();
    check_views("dense", &kernel, &mat, &rhs, m.tol, mutate);
    // the borrowed view of the kernel reports the same matrix
    let view = kernel.view();
    check_bool("dense.view has the same size", view.size() == n);
    let vt = view.to_upper_triangle();
    let kt = kernel.to_upper_triangle();
    check_bool("dense.view has the same entries", vt.len() == kt.len() && vt.iter().zip(kt.iter()).all(|(a, b)| a.identical(*b)));
}

/// "at most `m` of `ps` hold"
fn at_most(ps: &[SymB], m: usize) -> SymB {
    // for every subset of size m+1, not all hold
    let n = ps.len();
    if m >= n {
        return SymB::k(true);
    }
    let mut clauses = vec![];
    for mask in 0u32..(1 << n) {
        if mask.count_ones() as usize == m + 1 {
            let nots: Vec<SymB> = (0..n).filter(|i| mask >> i & 1 == 1).map(|i| ps[i].not()).collect();
            clauses.push(SymB::any(&nots));
        }
    }
    SymB::all(&clauses)
}

/// sparse kernel: stored pattern is the symmetrised k-nearest-neighbour graph plus the diagonal
/// (any tie-breaking accepted), stored values are the kernel function, views agree.
fn sparse<F: Scalar>(p: &Params) {
    let (n, d, k, b) = (p.u("n", 3), p.u("d", 1), p.u("k", 1), p.get("B", 64));
    let mutate = p.get("mut", 0);
    let x = records::<F>(n, d, b);
    let m = method_from::<F>(p);
    let rhs = rhs_matrix::<F>(n, p.u("m", 1), p.get("R", 16));
    assume_poly_base_nonneg(&m, &x);
    let kernel = Kernel::params().kind(KernelType::Sparse(k)).nn_algo(index_kind(p.u("kind", 1))).method(linfa_method(&m)).transform(x.view());
    let cs = match &kernel.inner {
        KernelInner::Sparse(c) => c.clone(),
        KernelInner::Dense(_) => {
            check_bool("sparse.kind Sparse(k) gives a sparse matrix", false);
            return;
        }
    };
    check_bool("sparse.matrix is n x n", cs.rows() == n && cs.cols() == n);
    if cs.rows() != n || cs.cols() != n {
        return;
    }
    let rows: Vec<Vec<F>> = (0..n).map(|i| x.row(i).to_vec()).collect();
    // squared Euclidean distances from the input terms
    let d2 = |i: usize, j: usize| {
        let mut s = F::lit(0.0);
        for c in 0..d {
            s = s + (rows[i][c] - rows[j][c]) * (rows[i][c] - rows[j][c]);
        }
        s
    };
    let kk = if mutate == 10 { k + 1 } else if mutate == 11 { k - 1 } else { k };
    // j is among the k nearest of i under some / under every tie-breaking
    let possibly = |i: usize, j: usize| {
        let closer: Vec<SymB> = (0..n).filter(|&o| o != i && o != j).map(|o| d2(i, o).s_lt(d2(i, j))).collect();
        if kk == 0 {
            return SymB::k(false);
        }
        at_most(&closer, kk - 1)
    };
    let surely = |i: usize, j: usize| {
        let not_farther: Vec<SymB> = (0..n).filter(|&o| o != i && o != j).map(|o| d2(i, o).s_le(d2(i, j))).collect();
        if kk == 0 {
            return SymB::k(false);
        }
        at_most(&not_farther, kk - 1)
    };
    let mut mat: Vec<Vec<Option<F>>> = vec![vec![None; n]; n];
    for i in 0..n {
        for j in 0..n {
            mat[i][j] = cs.get(i, j).copied();
            observe_usize(mat[i][j].is_some() as usize);
        }
    }
    for i in 0..n {
        check_bool("sparse.diagonal is stored", mat[i][i].is_some());
        for j in 0..n {
            if i == j {
                continue;
            }
            if j > i {
                check_bool("sparse.pattern is symmetric", mat[i][j].is_some() == mat[j][i].is_some());
            }
            if mat[i][j].is_some() {
                check("sparse.a stored pair has one point among the k nearest neighbours of the other", possibly(i, j).or(possibly(j, i)));
            } else {
                check("sparse.a pair with one point among the k nearest neighbours of the other is stored", surely(i, j).or(surely(j, i)).not());
            }
        }
    }
    for i in 0..n {
        for j in 0..n {
            if let Some(v) = mat[i][j] {
                let want = kfun(&m, &rows[i], &rows[j], if mutate == 1 { 1 } else { 0 });
                agree("sparse.stored value is the kernel function of rows i and j", v, want, m.tol);
                observe(v);
            }
        }
        if m.kind == 2 {
            if let Some(v) = mat[i][i] {
                check("sparse.Gaussian kernel has unit diagonal", v.s_eq(F::lit(1.0)));
            }
        }
    }
    check_views("sparse", &kernel, &mat, &rhs, m.tol, mutate);
}

fn link_method(i: usize) -> Method {
    match i {
        0 => Method::Single,
        1 => Method::Complete,
        2 => Method::Average,
        3 => Method::Weighted,
        4 => Method::Ward,
        5 => Method::Centroid,
        _ => Method::Median,
    }
}

/// kernel whose entries are symbolic similarities j/2^shift in (0,1] (symmetric, unit diagonal)
fn similarity_kernel<F: Scalar>(n: usize, shift: u32) -> (Kernel<F>, Vec<Vec<F>>) {
    let top = 1i64 << shift;
    let mut s = vec![vec![F::lit(1.0); n]; n];
    for i in 0..n {
        for j in i + 1..n {
            let v = F::input(&format!("s{}_{}", i, j), 1, top, shift);
            s[i][j] = v;
            s[j][i] = v;
        }
    }
    let mut arr = Array2::from_elem((n, n), F::lit(1.0));
    for i in 0..n {
        for j in 0..n {
            arr[(i, j)] = s[i][j];
        }
    }
    (Kernel { inner: KernelInner::Dense(arr), method: KernelMethod::Linear }, s)
}

/// clusters (sorted member lists) of a labelling, numbered by first occurrence
fn clusters_of(labels: &[usize]) -> Vec<Vec<usize>> {
    let mut seen: Vec<usize> = vec![];
    let mut cl: Vec<Vec<usize>> = vec![];
    for (i, l) in labels.iter().enumerate() {
        match seen.iter().position(|s| s == l) {
            Some(c) => cl[c].push(i),
            None => {
                seen.push(*l);
                cl.push(vec![i]);
            }
        }
    }
    cl
}

/// requested number of clusters: every sample labelled, exactly min(requested, n) clusters
fn hier_count<F: Scalar>(p: &Params) {
    let (n, c, meth) = (p.u("n", 3), p.u("c", 2), p.u("linkage", 0));
    let mutate = p.get("mut", 0);
    let (kernel, _s) = similarity_kernel::<F>(n, p.get("shift", 4) as u32);
    let res = HierarchicalCluster::default().with_method(link_method(meth)).num_clusters(c).transform(kernel);
    if c == 0 {
        check_bool("hier.zero clusters is rejected", res.is_err());
        return;
    }
    let ds = match res {
        Ok(d) => d,
        Err(_) => {
            check_bool("hier.valid request is accepted", false);
            return;
        }
    };
    let labels: Vec<usize> = ds.targets().to_vec();
    check_bool("hier.every sample is labelled", labels.len() == n);
    let cl = clusters_of(&labels);
    let want = c.min(n) + if mutate == 1 { 1 } else { 0 };
    check_bool("hier.exactly min(requested, n) clusters", cl.len() == want);
    check_bool("hier.labels are 0..clusters", labels.iter().all(|l| *l < cl.len()));
    check_bool("hier.the kernel is handed back as the records", ds.records().size() == n);
    for (ci, members) in cl.iter().enumerate() {
        for i in members {
            observe_usize(ci * 16 + i);
        }
    }
}

/// all pairs (a in A, b in B)
fn cross(a: &[usize], b: &[usize]) -> Vec<(usize, usize)> {
    let mut v = vec![];
    for &i in a {
        for &j in b {
            v.push((i, j));
        }
    }
    v
}

/// distance threshold -ln(tau): single linkage == connected components of the graph s_ij > tau;
/// complete linkage: every cluster is a clique of that graph and no two clusters are completely joined.
fn hier_threshold<F: Scalar>(p: &Params) {
    let (n, meth) = (p.u("n", 3), p.u("linkage", 0));
    let mutate = p.get("mut", 0);
    let shift = p.get("shift", 4) as u32;
    let (kernel, s) = similarity_kernel::<F>(n, shift);
    let tau = F::input("tau", 1, 1i64 << shift, shift);
    // 0 - ln(tau) rather than -(ln tau): tau = 1 must give +0.0 (a threshold of -0.0 is rejected by check())
    let t = F::lit(0.0) - num_traits::Float::ln(tau);
    let res = HierarchicalCluster::default().with_method(link_method(meth)).max_distance(t).transform(kernel);
    let ds = match res {
        Ok(d) => d,
        Err(_) => {
            check_bool("hier.non-negative finite threshold is accepted", false);
            return;
        }
    };
    let labels: Vec<usize> = ds.targets().to_vec();
    check_bool("hier.every sample is labelled", labels.len() == n);
    if labels.len() != n {
        return;
    }
    let cl = clusters_of(&labels);
    check_bool("hier.labels are 0..clusters", labels.iter().all(|l| *l < cl.len()));
    // edge of the below-threshold graph: -ln(s) < -ln(tau)  <=>  s > tau
    let edge = |i: usize, j: usize| match mutate {
        1 => tau.s_le(s[i][j]),
        2 => (tau + F::lit(1.0 / (1u64 << shift) as f64)).s_lt(s[i][j]),
        _ => tau.s_lt(s[i][j]),
    };
    match meth {
        0 => {
            for a in 0..cl.len() {
                for b in a + 1..cl.len() {
                    for (i, j) in cross(&cl[a], &cl[b]) {
                        check("hier.single: no below-threshold pair is split over two clusters", edge(i, j).not());
                    }
                }
                // connected: every cut of the cluster is crossed by an edge
                let c = &cl[a];
                let m = c.len();
                for mask in 1u32..(1 << m) - 1 {
                    if mask & 1 == 0 {
                        continue;
                    }
                    let inside: Vec<usize> = (0..m).filter(|x| mask >> x & 1 == 1).map(|x| c[x]).collect();
                    let outside: Vec<usize> = (0..m).filter(|x| mask >> x & 1 == 0).map(|x| c[x]).collect();
                    let es: Vec<SymB> = cross(&inside, &outside).into_iter().map(|(i, j)| edge(i, j)).collect();
                    check("hier.single: every cluster is connected by below-threshold pairs", SymB::any(&es));
                }
            }
        }
        1 => {
            for a in 0..cl.len() {
                for b in a + 1..cl.len() {
                    let es: Vec<SymB> = cross(&cl[a], &cl[b]).into_iter().map(|(i, j)| edge(i, j).not()).collect();
                    check("hier.complete: two remaining clusters have a pair at or above the threshold", SymB::any(&es));
                }
                let c = &cl[a];
                for x in 0..c.len() {
                    for y in x + 1..c.len() {
                        check("hier.complete: all pairs inside a cluster are below the threshold", edge(c[x], c[y]));
                    }
                }
            }
        }
        _ => {
            // other linkages: the dissimilarity of a merge is a rounded combination of logarithms; only
            // what holds for every reducible linkage is stated: the closest pair overall is merged iff
            // it is below the threshold (the first merge has the dissimilarity of that pair itself)
            let mut any_edge = vec![];
            for i in 0..n {
                for j in i + 1..n {
                    any_edge.push(edge(i, j));
                }
            }
            if cl.len() == n {
                check("hier.any linkage: nothing merged means no pair is below the threshold", SymB::any(&any_edge).not());
            } else {
                check("hier.any linkage: a merge happened, so some pair is below the threshold", SymB::any(&any_edge));
            }
        }
    }
    for (ci, members) in cl.iter().enumerate() {
        for i in members {
            observe_usize(ci * 16 + i);
        }
    }
}

/// invalid stopping criteria are rejected by the guard (concrete; one path)
fn hier_guard<F: Scalar>(_p: &Params) {
    let (k, _) = similarity_kernel::<F>(2, 1);
    check_bool("hier.negative threshold is rejected", HierarchicalCluster::default().max_distance(F::lit(-1.0)).transform(k.clone()).is_err());
    check_bool("hier.NaN threshold is rejected", HierarchicalCluster::default().max_distance(F::lit(f64::NAN)).transform(k.clone()).is_err());
    check_bool("hier.infinite threshold is rejected", HierarchicalCluster::default().max_distance(F::lit(f64::INFINITY)).transform(k.clone()).is_err());
    check_bool("hier.zero clusters is rejected", HierarchicalCluster::<F>::default().num_clusters(0).check().is_err());
    check_bool("hier.threshold zero is accepted", HierarchicalCluster::default().max_distance(F::lit(0.0)).transform(k).is_ok());
}

pub fn register(v: &mut Vec<HarnessDef>) {
    harness!(v, "c06.dense", "C06", dense,
        "dense kernel from symbolic integer records: entry (i,j) == kernel function of rows i,j recomputed from the inputs; symmetry; Gaussian unit diagonal; size/sum/diagonal/column/to_upper_triangle/dot/view agree with the matrix",
        ["linfa_kernel::KernelParams::{method,transform}", "linfa_kernel::Kernel::new", "linfa_kernel::dense_from_fn", "linfa_kernel::KernelMethod::{distance,is_linear}", "linfa_kernel::KernelBase::{size,sum,diagonal,column,to_upper_triangle,dot}", "linfa_kernel::Kernel::view", "linfa_kernel::inner::Inner for ArrayBase"],
        ["records are integers in [-B,B], rhs of dot integers in [-R,R], polynomial constant an integer in [-C,C], Gaussian bandwidth an integer in [1,E] or a constant", "fractional polynomial degree: (dot + c) >= 0 assumed (the power of a negative base is NaN)", "values that pass through exp, a fractional power or a division by a non power of two are compared with an absolute tolerance (1e-12 / 1e-9)", "positive semidefiniteness is outside"]);
    harness!(v, "c06.sparse", "C06", sparse,
        "sparse kernel: stored pattern == diagonal + pairs with one point among the other's k nearest (squared Euclidean distance from the inputs, any tie-breaking), symmetric pattern, stored values == kernel function, views agree with the stored matrix",
        ["linfa_kernel::KernelParams::{kind,nn_algo,method,transform}", "linfa_kernel::sparse_from_fn", "linfa_kernel::sparse::adjacency_matrix", "linfa_nn::{BallTree,KdTree,LinearSearch}::from_batch + k_nearest (L2Dist::rdistance)", "linfa_kernel::inner::Inner for CsMat", "sprs::CsMatBase::{new_from_unsorted,transpose_view,to_other_storage}, sprs::binop::csmat_binop"],
        ["records are integers in [-B,B]", "ties between neighbour distances: every tie-breaking is accepted (must store pairs that are neighbours under every tie-breaking, may store pairs that are neighbours under some)", "the neighbour indices are built with linfa's default leaf size (16), so for n <= 16 each tree is one leaf"]);
    harness!(v, "c06.hier_count", "C06", hier_count,
        "HierarchicalCluster with a requested cluster count on a kernel of symbolic similarities: every sample labelled, exactly min(requested, n) clusters",
        ["linfa_hierarchical::HierarchicalCluster::{with_method,num_clusters,check_ref}", "linfa_hierarchical::ValidHierarchicalCluster::transform", "kodama::linkage (mst / nnchain / generic, Lance-Williams updates) on the symbolic scalar", "linfa_kernel::KernelBase::{to_upper_triangle,size}"],
        ["similarities are j/2^shift in (0,1] (all above the 1e-6 floor), kernel built through the public fields of KernelBase", "ln is an uninterpreted strictly monotone function; for linkages other than single/complete the merge dissimilarities are rounded combinations of logarithms and a path is only explored when the solver's model realises it concretely"]);
    harness!(v, "c06.hier_threshold", "C06", hier_threshold,
        "HierarchicalCluster with max_distance(-ln tau): single linkage == connected components of the graph s_ij > tau; complete linkage: clusters are cliques and no two clusters are completely joined; other linkages: first merge iff some pair is below the threshold",
        ["linfa_hierarchical::HierarchicalCluster::{with_method,max_distance,check_ref}", "linfa_hierarchical::ValidHierarchicalCluster::transform", "kodama::linkage on the symbolic scalar"],
        ["similarities and tau are j/2^shift in (0,1]", "threshold is -ln(tau), compared with -ln(s_ij) through strict monotonicity of ln (s > tau)", "complete linkage: necessary conditions only (the merge order under ties is not pinned)"]);
    harness!(v, "c06.hier_guard", "C06", hier_guard,
        "invalid stopping criteria (0 clusters; negative, NaN, infinite threshold) are rejected",
        ["linfa_hierarchical::HierarchicalCluster::check_ref"],
        []);
}

//! C07 — nearest-neighbour indices against brute force over the same symbolic coordinates.
use crate::common::*;
use crate::harness;
use linfa_nn::{distance::*, BallTree, CommonNearestNeighbour, KdTree, LinearSearch, NearestNeighbour};
use ndarray::{Array1, Array2};

/// A metric whose reduced distance differs from its distance by a *linear* map (rdistance = 2 * L1):
/// exercises every rdist/dist conversion of the index code (ball radii, range radius) in linear arithmetic.
#[derive(Clone, Debug, PartialEq)]
struct ScaledL1;
impl<F: linfa::Float> Distance<F> for ScaledL1 {
    fn distance<D: ndarray::Dimension>(&self, a: ndarray::ArrayView<F, D>, b: ndarray::ArrayView<F, D>) -> F {
        ndarray::Zip::from(&a).and(&b).fold(F::zero(), |acc, &x, &y| acc + (x - y).abs())
    }
    fn rdistance<D: ndarray::Dimension>(&self, a: ndarray::ArrayView<F, D>, b: ndarray::ArrayView<F, D>) -> F {
        let d: F = Distance::<F>::distance(self, a, b);
        d + d
    }
    fn rdist_to_dist(&self, r: F) -> F {
        r / F::cast(2.0)
    }
    fn dist_to_rdist(&self, d: F) -> F {
        d + d
    }
}
/// The opposite scaling (rdistance = L1 / 2): a forgotten or doubled conversion now *under*estimates.
#[derive(Clone, Debug, PartialEq)]
struct HalfL1;
impl<F: linfa::Float> Distance<F> for HalfL1 {
    fn distance<D: ndarray::Dimension>(&self, a: ndarray::ArrayView<F, D>, b: ndarray::ArrayView<F, D>) -> F {
        ndarray::Zip::from(&a).and(&b).fold(F::zero(), |acc, &x, &y| acc + (x - y).abs())
    }
    fn rdistance<D: ndarray::Dimension>(&self, a: ndarray::ArrayView<F, D>, b: ndarray::ArrayView<F, D>) -> F {
        let d: F = Distance::<F>::distance(self, a, b);
        d / F::cast(2.0)
    }
    fn rdist_to_dist(&self, r: F) -> F {
        r + r
    }
    fn dist_to_rdist(&self, d: F) -> F {
        d / F::cast(2.0)
    }
}
/// Euclidean metric with the same structure as `L2Dist` (squared distance as reduced distance, sqrt /
/// powi conversions) but computed on the scalar itself instead of through `ndarray_stats::l2_dist`,
/// which converts to f64 and would concretise symbolic coordinates.
#[derive(Clone, Debug, PartialEq)]
struct SymL2;
impl<F: linfa::Float> Distance<F> for SymL2 {
    fn distance<D: ndarray::Dimension>(&self, a: ndarray::ArrayView<F, D>, b: ndarray::ArrayView<F, D>) -> F {
        Distance::<F>::rdistance(self, a, b).sqrt()
    }
    fn rdistance<D: ndarray::Dimension>(&self, a: ndarray::ArrayView<F, D>, b: ndarray::ArrayView<F, D>) -> F {
        ndarray::Zip::from(&a).and(&b).fold(F::zero(), |acc, &x, &y| acc + (x - y) * (x - y))
    }
    fn rdist_to_dist(&self, r: F) -> F {
        r.sqrt()
    }
    fn dist_to_rdist(&self, d: F) -> F {
        d.powi(2)
    }
}

fn index_kind(i: usize) -> CommonNearestNeighbour {
    match i {
        0 => CommonNearestNeighbour::BallTree,
        1 => CommonNearestNeighbour::KdTree,
        _ => CommonNearestNeighbour::LinearSearch,
    }
}

/// harness-side (reduced) distance built from the same terms: L1, squared L2, Linf
fn rdist<F: Scalar>(metric: usize, a: &[F], b: &[F]) -> F {
    let mut s = F::lit(0.0);
    for j in 0..a.len() {
        let d = a[j] - b[j];
        match metric {
            1 | 4 | 6 => s = s + num_traits::Float::abs(d),
            2 | 5 => s = s + d * d,
            _ => s = num_traits::Float::max(s, num_traits::Float::abs(d)),
        }
    }
    if metric == 4 {
        s = s + s;
    }
    if metric == 6 {
        s = s / F::lit(2.0);
    }
    s
}

fn points_s<F: Scalar>(n: usize, d: usize, b: i64, shift: u32) -> (Array2<F>, Array1<F>) {
    let mut pts = Array2::from_elem((n, d), F::lit(0.0));
    for i in 0..n {
        for j in 0..d {
            pts[(i, j)] = grid::<F>(&format!("p{}_{}", i, j), b, shift);
        }
    }
    let q = Array1::from_iter((0..d).map(|j| grid::<F>(&format!("q{}", j), b, shift)));
    (pts, q)
}

fn query_knn<F: Scalar>(kind: usize, metric: usize, leaf: usize, pts: &Array2<F>, q: &Array1<F>, k: usize) -> Vec<(Vec<F>, usize)> {
    let nn = index_kind(kind);
    macro_rules! go {
        ($m:expr) => {{
            let idx = nn.from_batch_with_leaf_size(pts, leaf, $m).expect("index build");
            idx.k_nearest(q.view(), k).expect("k_nearest").into_iter().map(|(p, i)| (p.to_vec(), i)).collect()
        }};
    }
    match metric {
        1 => go!(L1Dist),
        2 => go!(L2Dist),
        4 => go!(ScaledL1),
        5 => go!(SymL2),
        6 => go!(HalfL1),
        _ => go!(LInfDist),
    }
}

fn query_range<F: Scalar>(kind: usize, metric: usize, leaf: usize, pts: &Array2<F>, q: &Array1<F>, r: F) -> Vec<(Vec<F>, usize)> {
    let nn = index_kind(kind);
    macro_rules! go {
        ($m:expr) => {{
            let idx = nn.from_batch_with_leaf_size(pts, leaf, $m).expect("index build");
            idx.within_range(q.view(), r).expect("within_range").into_iter().map(|(p, i)| (p.to_vec(), i)).collect()
        }};
    }
    match metric {
        1 => go!(L1Dist),
        2 => go!(L2Dist),
        4 => go!(ScaledL1),
        5 => go!(SymL2),
        6 => go!(HalfL1),
        _ => go!(LInfDist),
    }
}

/// k-nearest: length, distinct rows, coordinates belong to the row, ascending, and no stored point
/// that was left out is strictly closer than a returned one.
fn knn<F: Scalar>(p: &Params) {
    let (n, d, k) = (p.u("n", 3), p.u("d", 1), p.u("k", 1));
    let (kind, metric, leaf, b) = (p.u("kind", 0), p.u("metric", 1), p.u("leaf", 1), p.get("B", 1024));
    let (pts, q) = points_s::<F>(n, d, b, p.u("shift", 0) as u32);
    let res = query_knn(kind, metric, leaf, &pts, &q, k);
    check_bool("knn.len == min(k,n)", res.len() == k.min(n));
    let mut seen = vec![false; n];
    let mut ok_idx = true;
    for (_, i) in &res {
        if *i >= n || seen[*i] {
            ok_idx = false;
        } else {
            seen[*i] = true;
        }
    }
    check_bool("knn.rows distinct and in range", ok_idx);
    if !ok_idx {
        return;
    }
    let qv = q.to_vec();
    let dist_of = |i: usize| rdist(metric, &pts.row(i).to_vec(), &qv);
    for (pt, i) in &res {
        let same = pt.len() == d && (0..d).all(|j| pt[j].identical(pts[(*i, j)]));
        check_bool("knn.returned coordinates are those of the reported row", same);
    }
    for w in 0..res.len().saturating_sub(1) {
        check("knn.ascending distance", dist_of(res[w].1).s_le(dist_of(res[w + 1].1)));
    }
    for (_, i) in &res {
        for o in 0..n {
            if !seen[o] {
                check("knn.no omitted point is strictly closer", dist_of(*i).s_le(dist_of(o)));
            }
        }
    }
    for (_, i) in &res {
        observe_usize(*i);
        observe(dist_of(*i));
    }
}

/// range query: everything strictly inside is returned, nothing strictly outside is; and the three
/// index kinds return the same set (incl. points exactly on the radius).
fn range<F: Scalar>(p: &Params) {
    let (n, d) = (p.u("n", 3), p.u("d", 1));
    let (metric, leaf, b) = (p.u("metric", 1), p.u("leaf", 1), p.get("B", 1024));
    let kinds: Vec<usize> = match p.get("kind", -1) {
        -1 => vec![0, 1, 2],
        x => vec![x as usize],
    };
    let (pts, q) = points_s::<F>(n, d, b, p.u("shift", 0) as u32);
    let r = int::<F>("radius", 0, 2 * b * d as i64 + 1);
    let qv = q.to_vec();
    // reduced radius on the harness side
    let rr = if metric == 2 || metric == 5 { r * r } else if metric == 4 { r + r } else if metric == 6 { r / F::lit(2.0) } else { r };
    let mut sets: Vec<Vec<bool>> = vec![];
    for &kind in &kinds {
        let res = query_range(kind, metric, leaf, &pts, &q, r);
        let mut inset = vec![false; n];
        let mut ok_idx = true;
        for (pt, i) in &res {
            if *i >= n || inset[*i] {
                ok_idx = false;
                continue;
            }
            inset[*i] = true;
            let same = pt.len() == d && (0..d).all(|j| pt[j].identical(pts[(*i, j)]));
            check_bool("range.returned coordinates are those of the reported row", same);
        }
        check_bool("range.rows distinct and in range", ok_idx);
        for i in 0..n {
            let di = rdist(metric, &pts.row(i).to_vec(), &qv);
            if inset[i] {
                check("range.no returned point is strictly outside", di.s_le(rr));
            } else {
                check("range.every point strictly inside is returned", rr.s_le(di));
            }
            observe_usize(inset[i] as usize);
        }
        sets.push(inset);
    }
    for s in &sets[1..] {
        check_bool("range.index kinds agree (also on the border)", *s == sets[0]);
    }
}

/// malformed builds and queries are errors, for every index kind (concrete shapes; one path)
fn errors<F: Scalar>(_p: &Params) {
    for kind in 0..3 {
        let nn = index_kind(kind);
        let pts = Array2::from_elem((2, 2), F::lit(1.0));
        check_bool("errors.leaf size 0 is rejected", nn.from_batch_with_leaf_size(&pts, 0, L1Dist).is_err());
        let zero_dim = Array2::<F>::from_elem((2, 0), F::lit(0.0));
        check_bool("errors.zero dimension is rejected", nn.from_batch_with_leaf_size(&zero_dim, 1, L1Dist).is_err());
        let idx = nn.from_batch_with_leaf_size(&pts, 1, L1Dist).unwrap();
        let q3 = Array1::from_elem(3, F::lit(0.0));
        check_bool("errors.k_nearest with wrong query dimension is rejected", idx.k_nearest(q3.view(), 1).is_err());
        check_bool("errors.within_range with wrong query dimension is rejected", idx.within_range(q3.view(), F::lit(1.0)).is_err());
        check_bool("errors.wrong query dimension is an error for k = 0 too", idx.k_nearest(q3.view(), 0).is_err());
        let q2ok = Array1::from_elem(2, F::lit(0.0));
        check_bool("errors.k = 0 answers with no neighbours", idx.k_nearest(q2ok.view(), 0).map(|v| v.is_empty()).unwrap_or(false));
        let empty = Array2::<F>::from_elem((0, 2), F::lit(0.0));
        let idx = nn.from_batch_with_leaf_size(&empty, 1, L1Dist).unwrap();
        let q2 = Array1::from_elem(2, F::lit(0.0));
        check_bool("errors.wrong query dimension is an error on an empty index too", idx.k_nearest(q3.view(), 1).is_err() && idx.within_range(q3.view(), F::lit(1.0)).is_err());
        check_bool("errors.empty index answers with no neighbours", idx.k_nearest(q2.view(), 3).map(|v| v.is_empty()).unwrap_or(false));
        check_bool("errors.empty index answers range with nothing", idx.within_range(q2.view(), F::lit(3.0)).map(|v| v.is_empty()).unwrap_or(false));
    }
    let _ = (BallTree, KdTree, LinearSearch);
}

/// exact comparison of an integer squared distance with the square of an f64 radius (r = m * 2^e, m < 2^53)
fn cmp_d2_r2(d2: u64, r: f64) -> std::cmp::Ordering {
    use std::cmp::Ordering::*;
    if r <= 0.0 {
        return if d2 == 0 && r == 0.0 { Equal } else { Greater };
    }
    let bits = r.to_bits();
    let exp = ((bits >> 52) & 0x7ff) as i64;
    let frac = bits & ((1u64 << 52) - 1);
    let (m, e) = if exp == 0 { (frac, -1074i64) } else { (frac | (1u64 << 52), exp - 1075) };
    // d2 ? m^2 * 2^(2e)   <=>   d2 * 2^(-2e) ? m^2      (here e < 0 and d2 < 2^20: both sides fit u128 for r >= 2^-2)
    let m2 = (m as u128) * (m as u128);
    let sh = (-2 * e) as u32;
    if sh >= 127 || (d2 as u128).leading_zeros() < sh {
        return Greater; // radius far below 1: only d2 = 0 could be inside, handled by the caller's tables (never used)
    }
    ((d2 as u128) << sh).cmp(&m2)
}

/// Range queries whose radius is a rounded square root (and its neighbouring doubles) over integer lattice points:
/// points can then lie a fraction of an ulp inside or outside the radius.  The three index kinds are queried with
/// the real f64 code (L2Dist: the ball tree's `distance` concretises symbolically, see c07.knn); membership is
/// decided exactly in integer arithmetic.  The solver enumerates the configuration (point table, query, radius, leaf).
fn boundary<F: Scalar>(_p: &Params) {
    let tables: Vec<Vec<[i64; 2]>> = vec![
        vec![[1, 1], [-1, 1], [1, -1], [-1, -1], [3, 0], [0, -2]],
        vec![[2, 1], [1, 2], [-2, 1], [-1, -2], [2, -1], [0, 0], [1, 0], [3, 3]],
        vec![[0, 1], [1, 0], [0, -1], [-1, 0], [2, 2], [-2, -2], [1, 1], [-3, 1], [3, -1]],
        vec![[3, 1], [1, 3], [-3, -1], [-1, 3], [2, 3], [3, 2], [0, 3], [-2, -3], [1, -3], [4, 0]],
        vec![[1, 6], [6, 1], [5, 4], [3, 5], [2, 5], [1, 5], [6, 2], [4, 1], [-1, -6], [0, 0], [-5, 4]],
    ];
    let pts_i = &tables[choice("table", tables.len())];
    let queries: [[i64; 2]; 3] = [[0, 0], [1, 0], [-1, 2]];
    let qi = queries[choice("query", queries.len())];
    let squares: [u64; 16] = [1, 2, 5, 8, 10, 13, 17, 18, 20, 25, 26, 29, 34, 37, 40, 41];
    let k2 = squares[choice("r2", squares.len())];
    let base = (k2 as f64).sqrt();
    let r = match choice("ulp", 3) {
        0 => f64::from_bits(base.to_bits() - 1),
        1 => base,
        _ => f64::from_bits(base.to_bits() + 1),
    };
    let leaf = 1 + choice("leaf", 3);
    let n = pts_i.len();
    let pts = Array2::from_shape_fn((n, 2), |(i, j)| pts_i[i][j] as f64);
    let q = Array1::from(vec![qi[0] as f64, qi[1] as f64]);
    // single=1: the same in single precision (radius = the f32 square root and its neighbours)
    let single = _p.u("single", 0) == 1;
    let r32 = {
        let base = (k2 as f32).sqrt();
        let bits = base.to_bits();
        match ((r > (k2 as f64).sqrt()) as i32) - ((r < (k2 as f64).sqrt()) as i32) {
            -1 => f32::from_bits(bits - 1),
            0 => base,
            _ => f32::from_bits(bits + 1),
        }
    };
    let r = if single { r32 as f64 } else { r };
    let pts32 = pts.mapv(|v| v as f32);
    let q32 = q.mapv(|v| v as f32);
    let mut sets: Vec<Vec<bool>> = vec![];
    for kind in 0..3 {
        let res: Vec<(Vec<f64>, usize)> = if single {
            query_range::<f32>(kind, 2, leaf, &pts32, &q32, r32).into_iter().map(|(p, i)| (p.into_iter().map(|v| v as f64).collect(), i)).collect()
        } else {
            query_range::<f64>(kind, 2, leaf, &pts, &q, r)
        };
        let mut inset = vec![false; n];
        for (_, i) in &res {
            if *i < n {
                inset[*i] = true;
            }
        }
        for i in 0..n {
            let d2 = ((pts_i[i][0] - qi[0]).pow(2) + (pts_i[i][1] - qi[1]).pow(2)) as u64;
            // A point whose squared distance is within a few ulps (of the precision in use) of the squared radius is
            // treated as lying on the radius: the indices compare rounded squares, so its membership is not
            // determined -- but the three kinds must still agree on it.
            let eps = if single { f32::EPSILON as f64 } else { f64::EPSILON };
            let on_border = ((d2 as f64) - r * r).abs() <= 4.0 * eps * d2 as f64;
            match if on_border { std::cmp::Ordering::Equal } else { cmp_d2_r2(d2, r) } {
                std::cmp::Ordering::Less => check_bool(&format!("boundary.every point strictly inside the radius (exact arithmetic) is returned [{}]", ["ball tree", "k-d tree", "linear scan"][kind]), inset[i]),
                std::cmp::Ordering::Greater => check_bool(&format!("boundary.no point strictly outside the radius (exact arithmetic) is returned [{}]", ["ball tree", "k-d tree", "linear scan"][kind]), !inset[i]),
                _ => {}
            }
        }
        if std::env::var("HS_DEBUG").is_ok() {
            eprintln!("kind {} single {} r {:e} q {:?} leaf {} -> {:?}", kind, single, r, qi, leaf, inset);
        }
        sets.push(inset);
    }
    check_bool("boundary.index kinds agree", sets[1] == sets[0] && sets[2] == sets[0]);
    symx::observe_usize(sets[0].iter().filter(|b| **b).count());
}

/// k-nearest under `LpDist(p)` with a whole-number order over integer lattice points: the true neighbours are known
/// from the integer keys sum_j |a_j - b_j|^p (keys that differ differ by at least one, so no rounding of `powf` can
/// reorder them).  Concrete f64 runs of the three index kinds; the solver enumerates the configuration.
fn lp_lattice<F: Scalar>(_p: &Params) {
    let tables: Vec<Vec<[i64; 2]>> = vec![
        vec![[1, 1], [-1, 1], [1, -1], [-1, -1], [3, 0], [0, -2]],
        vec![[2, -1], [1, 2], [-2, 1], [-1, -2], [2, 1], [0, 0], [1, 0], [3, -3]],
        vec![[0, 1], [1, 0], [0, -1], [-1, 0], [2, -2], [-2, 2], [1, 1], [-3, 1], [3, -1], [-2, -3]],
    ];
    let pts_i = &tables[choice("table", tables.len())];
    let queries: [[i64; 2]; 3] = [[0, 0], [1, -1], [-2, 2]];
    let qi = queries[choice("query", queries.len())];
    let order = 1 + choice("order", 3) as u32;
    let k = [1usize, 2, 3, 5, 20][choice("k", 5)];
    let leaf = 1 + choice("leaf", 3);
    let n = pts_i.len();
    let pts = Array2::from_shape_fn((n, 2), |(i, j)| pts_i[i][j] as f64);
    let q = Array1::from(vec![qi[0] as f64, qi[1] as f64]);
    let key = |i: usize| -> u64 { ((pts_i[i][0] - qi[0]).unsigned_abs()).pow(order) + ((pts_i[i][1] - qi[1]).unsigned_abs()).pow(order) };
    let mut want: Vec<u64> = (0..n).map(key).collect();
    want.sort();
    want.truncate(k.min(n));
    for kind in 0..3 {
        let nn = index_kind(kind);
        let idx = nn.from_batch_with_leaf_size(&pts, leaf, LpDist(order as f64)).expect("index build");
        let res: Vec<usize> = idx.k_nearest(q.view(), k).expect("k_nearest").into_iter().map(|(_, i)| i).collect();
        let ok_rows = res.iter().all(|i| *i < n) && (0..res.len()).all(|a| (0..a).all(|b| res[a] != res[b]));
        check_bool("lp.min(k, n) distinct stored rows", res.len() == k.min(n) && ok_rows);
        if res.len() == k.min(n) && ok_rows {
            let got: Vec<u64> = res.iter().map(|&i| key(i)).collect();
            check_bool("lp.neighbours are the k nearest under the Minkowski distance of that order, in ascending distance", got == want);
        }
    }
    symx::observe_usize(want.len());
}

pub fn register(v: &mut Vec<HarnessDef>) {
    v.push(HarnessDef {
        name: "c07.lp_lattice", property: "C07",
        doc: "k_nearest under LpDist(1), LpDist(2), LpDist(3) over integer lattice points for the three index kinds against the ranking by the integer keys sum |a_j - b_j|^p",
        sym: lp_lattice::<SymF>, native: None,
        functions: &["linfa_nn::distance::LpDist::distance (powf)", "linfa_nn::{BallTreeIndex, KdTreeIndex, LinearSearchIndex}::k_nearest (f64)"],
        assumptions: &["three tables of 6-10 lattice points, three queries, orders 1-3, k in {1,2,3,5,20}, leaf sizes 1-3", "concrete f64 run per configuration (powf is an uninterpreted function for the symbolic scalar); the solver only enumerates configurations"],
    });
    v.push(HarnessDef {
        name: "c07.boundary", property: "C07",
        doc: "L2 range queries over integer lattice points with radii sqrt(k) and its two neighbouring doubles: every index kind returns exactly the points inside the radius in exact arithmetic; kinds agree",
        sym: boundary::<SymF>, native: None,
        functions: &["linfa_nn::{BallTreeIndex, KdTreeIndex, LinearSearchIndex}::within_range (f64, L2Dist)", "linfa_nn::balltree::BallTreeInner::rdistance (rounded lower bound)", "linfa_nn::distance::L2Dist::{distance, rdistance, dist_to_rdist}"],
        assumptions: &["five tables of 6-11 lattice points, three queries, radii sqrt(k) (16 values of k between 1 and 41) and the floats next to them, leaf sizes 1-3; single=1: the f32 instantiation", "concrete f64 run per configuration (the solver only enumerates configurations); membership decided exactly in 128-bit integer arithmetic"],
    });
    harness!(v, "c07.knn", "C07", knn,
        "k_nearest of one index kind vs brute force on symbolic integer coordinates",
        ["linfa_nn::NearestNeighbour::from_batch_with_leaf_size", "linfa_nn::NearestNeighbourIndex::k_nearest", "linfa_nn::balltree::{BallTreeInner::new, partition, calc_radius, BallTreeInner::rdistance, BallTreeIndex::nn_helper}", "linfa_nn::kdtree::KdTreeIndex::{new,k_nearest} (kdtree::KdTree::{add,nearest})", "linfa_nn::linear::LinearSearchIndex::k_nearest", "linfa_nn::distance::{L1Dist,L2Dist,LInfDist}::{distance,rdistance,rdist_to_dist,dist_to_rdist}"],
        ["coordinates are integers in [-B,B] (exact in f64)", "L2 through rdistance only; BallTree x L2 concretises (ndarray_stats::l2_dist) and is not run"]);
    harness!(v, "c07.range", "C07", range,
        "within_range of the three index kinds vs the definition, and agreement between kinds",
        ["linfa_nn::NearestNeighbourIndex::within_range", "linfa_nn::balltree::BallTreeIndex::nn_helper", "linfa_nn::kdtree::KdTreeIndex::within_range (kdtree::KdTree::within)", "linfa_nn::linear::LinearSearchIndex::within_range", "linfa_nn::distance::*::dist_to_rdist"],
        ["coordinates and radius are integers (exact in f64)"]);
    harness!(v, "c07.errors", "C07", errors,
        "malformed builds / queries are reported as errors by every index kind",
        ["linfa_nn::{BallTreeIndex,KdTreeIndex,LinearSearchIndex}::new", "k_nearest / within_range dimension checks"],
        []);
}

//! C01 — k-fold splitting (`fold`, `iter_fold`, `sample_chunks`) and cross-validation
//! (`cross_validate`, `cross_validate_single`) on datasets whose cells are opaque symbolic tags.
//!
//! Every record cell x(r,j) and target cell t(r,c) is its own symbolic input with a domain that is
//! disjoint from the domain of every other cell, so "this output cell is that input cell" is
//! `identical()` in the symbolic run (same term) and stays observable in every concrete replay.
use crate::common::*;
use crate::{harness, harness_sym};
use linfa::dataset::{DatasetBase, Records, TargetDim};
use linfa::traits::{Fit, PredictInplace};
use ndarray::{arr0, Array, Array1, Array2, ArrayBase, ArrayView, ArrayView2, Axis, Data, Ix1, Ix2, ShapeBuilder};
use std::cell::RefCell;
use std::rc::Rc;

/// target cell: the symbolic tag plus provenance (who == 0: dataset target, who == 1+m: prediction
/// of model m; fold: the fold the predicting model was trained for)
#[derive(Clone, Copy, Debug)]
pub struct Tg<F> {
    v: F,
    who: usize,
    fold: usize,
}

/// the two target ranks linfa supports
pub trait TD: TargetDim {
    fn build<E: Clone>(n: usize, ntc: usize, f: &dyn Fn(usize, usize) -> E) -> Array<E, Self>;
    fn as2<'a, E>(v: ArrayView<'a, E, Self>) -> ArrayView2<'a, E>;
    fn smaller<E: Clone>(v: Vec<E>) -> Array<E, Self::Smaller>;
}
impl TD for Ix1 {
    fn build<E: Clone>(n: usize, _ntc: usize, f: &dyn Fn(usize, usize) -> E) -> Array<E, Ix1> {
        Array1::from_shape_fn(n, |r| f(r, 0))
    }
    fn as2<'a, E>(v: ArrayView<'a, E, Ix1>) -> ArrayView2<'a, E> {
        v.insert_axis(Axis(1))
    }
    fn smaller<E: Clone>(v: Vec<E>) -> Array<E, ndarray::Ix0> {
        arr0(v[0].clone())
    }
}
impl TD for Ix2 {
    fn build<E: Clone>(n: usize, ntc: usize, f: &dyn Fn(usize, usize) -> E) -> Array<E, Ix2> {
        Array2::from_shape_fn((n, ntc), |(r, c)| f(r, c))
    }
    fn as2<'a, E>(v: ArrayView<'a, E, Ix2>) -> ArrayView2<'a, E> {
        v
    }
    fn smaller<E: Clone>(v: Vec<E>) -> Array<E, Ix1> {
        Array1::from(v)
    }
}

/// the input table: n rows, nf feature cells and ntc target cells per row, all distinct inputs
pub struct Table<F> {
    n: usize,
    nf: usize,
    ntc: usize,
    x: Vec<Vec<F>>,
    t: Vec<Vec<F>>,
    /// hidden fault injection (never set by the registry): hand linfa a dataset whose targets of
    /// rows 0 and 1 are exchanged, so that every "record with its own target" obligation must fail
    scramble: bool,
}

impl<F: Scalar> Table<F> {
    fn new(n: usize, nf: usize, ntc: usize) -> Table<F> {
        let w = nf + ntc;
        let cell = |name: String, c: usize| int::<F>(&name, 8 * c as i64, 8 * c as i64 + 7);
        let mut x = vec![];
        let mut t = vec![];
        for r in 0..n {
            x.push((0..nf).map(|j| cell(format!("x{}_{}", r, j), r * w + j)).collect::<Vec<F>>());
            t.push((0..ntc).map(|c| cell(format!("t{}_{}", r, c), r * w + nf + c)).collect::<Vec<F>>());
        }
        Table { n, nf, ntc, x, t, scramble: false }
    }
    fn records(&self) -> Array2<F> {
        Array2::from_shape_fn((self.n, self.nf), |(r, j)| self.x[r][j])
    }
    fn targets<I: TD>(&self) -> Array<Tg<F>, I> {
        let src = |r: usize| if self.scramble && r < 2 { 1 - r } else { r };
        I::build(self.n, self.ntc, &|r, c| Tg { v: self.t[src(r)][c], who: 0, fold: usize::MAX })
    }
    /// index of the input row that (record, target) is, if it is exactly one of them
    fn row_of(&self, rec: &[F], tgt: &[Tg<F>]) -> Option<usize> {
        if rec.len() != self.nf || tgt.len() != self.ntc {
            return None;
        }
        (0..self.n).find(|&r| (0..self.nf).all(|j| rec[j].identical(self.x[r][j])) && (0..self.ntc).all(|c| tgt[c].who == 0 && tgt[c].v.identical(self.t[r][c])))
    }
    /// the input rows a (records, targets) pair consists of, in order; None if some row is not an
    /// intact input row (record separated from its target, cell altered, wrong shape)
    fn rows_of<S: Data<Elem = F>, T: Data<Elem = Tg<F>>, I: TD>(&self, rec: &ArrayBase<S, Ix2>, tgt: &ArrayBase<T, I>) -> Option<Vec<usize>> {
        let t2 = I::as2(tgt.view());
        if rec.nrows() != t2.nrows() {
            return None;
        }
        let mut out = vec![];
        for r in 0..rec.nrows() {
            out.push(self.row_of(&rec.row(r).to_vec(), &t2.row(r).to_vec())?);
        }
        Some(out)
    }
    /// dataset holds exactly the input rows in input order
    fn intact<S: Data<Elem = F>, T: Data<Elem = Tg<F>>, I: TD>(&self, rec: &ArrayBase<S, Ix2>, tgt: &ArrayBase<T, I>) -> bool {
        self.rows_of(rec, tgt) == Some((0..self.n).collect())
    }
}

fn sorted(mut v: Vec<usize>) -> Vec<usize> {
    v.sort();
    v
}
/// which block [f*fs, (f+1)*fs), f < k, a set of rows is (as a multiset)
fn block_of(rows: &[usize], fs: usize, k: usize) -> Option<usize> {
    let s = sorted(rows.to_vec());
    (0..k).find(|&f| s == (f * fs..(f + 1) * fs).collect::<Vec<_>>())
}
/// the block whose complement in 0..n a set of rows is (as a multiset)
fn complement_block(rows: &[usize], n: usize, fs: usize, k: usize) -> Option<usize> {
    let s = sorted(rows.to_vec());
    (0..k).find(|&f| s == (0..n).filter(|r| *r < f * fs || *r >= (f + 1) * fs).collect::<Vec<_>>())
}

/// obligations shared by `fold` and `iter_fold`: the k (training, validation) pairs as row-index lists
/// (None = some row was not an intact input row)
fn check_pairs(what: &str, pairs: &[(Option<Vec<usize>>, Option<Vec<usize>>)], n: usize, k: usize, mutant: i64) {
    let fs = n / k;
    check_bool(&format!("{}.k pairs", what), pairs.len() == k);
    let mut validated = vec![0usize; n];
    for (tr, va) in pairs {
        check_bool(&format!("{}.validation rows are intact input rows (record with its own target)", what), va.is_some());
        check_bool(&format!("{}.training rows are intact input rows (record with its own target)", what), tr.is_some());
        let (tr, va) = match (tr, va) {
            (Some(a), Some(b)) => (a, b),
            _ => continue,
        };
        let b = block_of(va, fs, k);
        check_bool(&format!("{}.validation part is one block of floor(n/k) consecutive samples", what), b.is_some());
        for r in va {
            validated[*r] += 1;
        }
        let mut all = tr.clone();
        all.extend(va.iter().cloned());
        let expect: Vec<usize> = if mutant == 1 { (1..n).collect() } else { (0..n).collect() };
        check_bool(&format!("{}.training and validation are disjoint and their union is the dataset", what), sorted(all) == expect);
    }
    let lim = if mutant == 2 { n } else { k * fs };
    check_bool(
        &format!("{}.each of the first k*floor(n/k) samples is validated exactly once, the tail never", what),
        (0..n).all(|r| validated[r] == if r < lim { 1 } else { 0 }),
    );
}

fn observe_rows(v: &Option<Vec<usize>>) {
    match v {
        Some(v) => {
            observe_usize(v.len());
            for r in v {
                observe_usize(*r);
            }
        }
        None => observe_usize(usize::MAX),
    }
}

// ------------------------------------------------------------------------------------------ fold

fn fold_i<F: Scalar, I: TD>(p: &Params) {
    let (n, k, nf, ntc) = (p.u("n", 4), p.u("k", 2), p.u("nf", 1), p.u("nt", 0).max(1));
    let mut tb = Table::<F>::new(n, nf, ntc);
    tb.scramble = p.get("mut", 0) == 6;
    let ds = DatasetBase::new(tb.records(), tb.targets::<I>());
    let res: Vec<_> = if p.u("view", 0) == 1 {
        let v: DatasetBase<ArrayView2<F>, ArrayView<Tg<F>, I>> = ds.view();
        v.fold(k)
    } else {
        ds.fold(k)
    };
    let pairs: Vec<_> = res.iter().map(|(tr, va)| (tb.rows_of(tr.records(), tr.targets()), tb.rows_of(va.records(), va.targets()))).collect();
    check_pairs("fold", &pairs, n, k, p.get("mut", 0));
    check_bool("fold.input dataset untouched", tb.intact(ds.records(), ds.targets()));
    for (tr, va) in &pairs {
        observe_rows(tr);
        observe_rows(va);
    }
}
fn fold<F: Scalar>(p: &Params) {
    if p.u("nt", 0) == 0 {
        fold_i::<F, Ix1>(p)
    } else {
        fold_i::<F, Ix2>(p)
    }
}

// ------------------------------------------------------------------------------------- iter_fold

fn iter_fold_i<F: Scalar, I: TD>(p: &Params) {
    let (n, k, nf, ntc) = (p.u("n", 4), p.u("k", 2), p.u("nf", 1), p.u("nt", 0).max(1));
    let mut tb = Table::<F>::new(n, nf, ntc);
    tb.scramble = p.get("mut", 0) == 6;
    let mut ds = DatasetBase::new(tb.records(), tb.targets::<I>());
    let fs = n / k;
    let pairs: Vec<(Option<Vec<usize>>, Option<Vec<usize>>)>;
    let closure = |train: &DatasetBase<ArrayView2<F>, ArrayView<Tg<F>, I>>| tb.rows_of(train.records(), train.targets());
    if p.u("view", 0) == 1 {
        let mut vm = DatasetBase::new(ds.records.view_mut(), ds.targets.view_mut());
        pairs = vm.iter_fold(k, closure).map(|(tr, va)| (tr, tb.rows_of(va.records(), va.targets()))).collect();
        check_bool("iter_fold.view holds the original rows in order afterwards", tb.intact(vm.records(), vm.targets()));
    } else {
        pairs = ds.iter_fold(k, closure).map(|(tr, va)| (tr, tb.rows_of(va.records(), va.targets()))).collect();
    }
    check_pairs("iter_fold", &pairs, n, k, p.get("mut", 0));
    let want: Vec<usize> = if p.get("mut", 0) == 3 { (0..n).rev().collect() } else { (0..n).collect() };
    check_bool("iter_fold.dataset holds the original rows in order afterwards", tb.rows_of(ds.records(), ds.targets()) == Some(want));
    // sample_chunks alone: n / size consecutive blocks, in order
    let chunks: Vec<_> = ds.sample_chunks(fs).map(|c| tb.rows_of(c.records(), c.targets())).collect();
    // the complete chunks must be there; whether a shorter tail chunk is yielded is left open
    check_bool("sample_chunks.every complete chunk is yielded, nothing beyond the data", chunks.len() >= n / fs && chunks.len() <= (n + fs - 1) / fs);
    for (i, c) in chunks.iter().enumerate().take(n / fs) {
        let off = if p.get("mut", 0) == 8 { 1 } else { 0 };
        check_bool("sample_chunks.chunk i is rows [i*size,(i+1)*size) in order", *c == Some((i * fs + off..(i + 1) * fs + off).collect()));
    }
    for (tr, va) in &pairs {
        observe_rows(tr);
        observe_rows(va);
    }
}
fn iter_fold<F: Scalar>(p: &Params) {
    if p.u("nt", 0) == 0 {
        iter_fold_i::<F, Ix1>(p)
    } else {
        iter_fold_i::<F, Ix2>(p)
    }
}

/// the documented panics of iter_fold: k == 0, k > n, data not contiguous in standard order
fn iter_fold_panics<F: Scalar>(p: &Params) {
    let (n, nf) = (p.u("n", 4), p.u("nf", 2));
    let tb = Table::<F>::new(n, nf, 1);
    let panics = |f: &mut dyn FnMut()| std::panic::catch_unwind(std::panic::AssertUnwindSafe(|| f())).is_err();
    let mut ds = DatasetBase::new(tb.records(), tb.targets::<Ix1>());
    check_bool("iter_fold.k == 0 panics (documented)", panics(&mut || {
        let _ = ds.iter_fold(0, |_| ()).count();
    }));
    check_bool("iter_fold.k > n panics (documented)", panics(&mut || {
        let _ = ds.iter_fold(n + 1, |_| ()).count();
    }));
    check_bool("iter_fold.k == n does not panic", !panics(&mut || {
        let _ = ds.iter_fold(n, |_| ()).count();
    }));
    check_bool("iter_fold.dataset intact after the refused calls", tb.intact(ds.records(), ds.targets()));
    // column-major records: not in standard order
    let mut rec_f = Array2::from_elem((n, nf).f(), F::lit(0.0));
    rec_f.assign(&tb.records());
    let mut ds2 = DatasetBase::new(rec_f, tb.targets::<Ix1>());
    if nf > 1 && n > 1 {
        check_bool("iter_fold.non-standard layout panics (documented)", panics(&mut || {
            let _ = ds2.iter_fold(2, |_| ()).count();
        }));
        check_bool("iter_fold.dataset intact after the refused call", tb.intact(ds2.records(), ds2.targets()));
    }
}

// ------------------------------------------------------------------------------ cross validation

#[derive(Debug)]
pub enum MockErr {
    Fit(usize, usize),
    Linfa(linfa::Error),
}
impl std::fmt::Display for MockErr {
    fn fmt(&self, f: &mut std::fmt::Formatter) -> std::fmt::Result {
        write!(f, "{:?}", self)
    }
}
impl std::error::Error for MockErr {}
impl From<linfa::Error> for MockErr {
    fn from(e: linfa::Error) -> MockErr {
        MockErr::Linfa(e)
    }
}

struct Ctx<F> {
    tb: Table<F>,
    k: usize,
    /// (fold, model) pairs fitted so far
    fits: RefCell<Vec<(usize, usize)>>,
    /// (fold, model) pairs evaluated so far
    evals: RefCell<Vec<(usize, usize)>>,
    fit_fails: Option<(usize, usize)>,
    eval_fails: Option<(usize, usize)>,
}

struct MockParams<F> {
    id: usize,
    ctx: Rc<Ctx<F>>,
}
struct MockModel {
    id: usize,
    fold: usize,
    ntc: usize,
}
thread_local!(static MUT7: std::cell::Cell<bool> = std::cell::Cell::new(false));

impl<'c, F: Scalar, I: TD> Fit<ArrayView2<'c, F>, ArrayView<'c, Tg<F>, I>, MockErr> for MockParams<F> {
    type Object = MockModel;
    fn fit(&self, d: &DatasetBase<ArrayView2<'c, F>, ArrayView<'c, Tg<F>, I>>) -> Result<MockModel, MockErr> {
        let c = &self.ctx;
        let rows = c.tb.rows_of(d.records(), d.targets());
        check_bool("cv.training rows are intact input rows (record with its own target)", rows.is_some());
        let fold = rows.and_then(|r| complement_block(&r, c.tb.n, c.tb.n / c.k, c.k));
        check_bool("cv.training set is the complement of one validation block", fold.is_some());
        let fold = fold.unwrap_or(usize::MAX);
        c.fits.borrow_mut().push((fold, self.id));
        if c.fit_fails == Some((fold, self.id)) {
            return Err(MockErr::Fit(fold, self.id));
        }
        let fold = if MUT7.with(|m| m.get()) { (fold + 1) % c.k } else { fold };
        Ok(MockModel { id: self.id, fold, ntc: c.tb.ntc })
    }
}

impl<'b, F: Scalar, I: TD> PredictInplace<ArrayView2<'b, F>, Array<Tg<F>, I>> for MockModel {
    fn predict_inplace<'a>(&'a self, x: &'a ArrayView2<'b, F>, y: &mut Array<Tg<F>, I>) {
        *y = I::build(x.nrows(), self.ntc, &|r, _c| Tg { v: x[(r, 0)], who: 1 + self.id, fold: self.fold });
    }
    fn default_target(&self, x: &ArrayView2<'b, F>) -> Array<Tg<F>, I> {
        I::build(x.nrows(), self.ntc, &|_r, _c| Tg { v: F::lit(-1.0), who: usize::MAX, fold: usize::MAX })
    }
}

fn eval_tag(f: usize, m: usize) -> String {
    format!("eval of fold {} model {}", f, m)
}

/// the evaluation closure: identifies (fold, model) from its arguments, checks that the prediction is
/// the one of that model for that fold's validation records, answers e[fold][model][target]
fn eval_fn<F: Scalar, I: TD>(c: &Ctx<F>, e: &[Vec<Vec<F>>], pred: &Array<Tg<F>, I>, truth: &ArrayView<Tg<F>, I>) -> Result<Array<F, I::Smaller>, linfa::Error> {
    let (tb, fs) = (&c.tb, c.tb.n / c.k);
    let t2 = I::as2(truth.view());
    let p2 = I::as2(pred.view());
    let shape_ok = t2.nrows() == fs && t2.ncols() == tb.ntc && p2.dim() == t2.dim();
    check_bool("cv.eval sees floor(n/k) validation targets and as many predictions", shape_ok);
    if !shape_ok {
        return Ok(I::smaller(vec![F::lit(0.0); tb.ntc]));
    }
    // fold from the first validation target
    let fold = (0..c.k).find(|&f| t2[(0, 0)].v.identical(tb.t[f * fs][0]));
    check_bool("cv.validation targets start at a block boundary", fold.is_some());
    let fold = match fold {
        Some(f) => f,
        None => return Ok(I::smaller(vec![F::lit(0.0); tb.ntc])),
    };
    let truth_ok = (0..fs).all(|r| (0..tb.ntc).all(|cc| t2[(r, cc)].who == 0 && t2[(r, cc)].v.identical(tb.t[fold * fs + r][cc])));
    check_bool("cv.validation targets are those of block f in order", truth_ok);
    let m = p2[(0, 0)].who.wrapping_sub(1);
    let pred_ok = m < e[fold].len() && (0..fs).all(|r| (0..tb.ntc).all(|cc| p2[(r, cc)].who == m + 1 && p2[(r, cc)].fold == fold && p2[(r, cc)].v.identical(tb.x[fold * fs + r][0])));
    check_bool("cv.predictions come from the model trained without block f, applied to the records of block f", pred_ok);
    if !pred_ok {
        return Ok(I::smaller(vec![F::lit(0.0); tb.ntc]));
    }
    c.evals.borrow_mut().push((fold, m));
    if c.eval_fails == Some((fold, m)) {
        return Err(linfa::Error::Parameters(eval_tag(fold, m)));
    }
    Ok(I::smaller(e[fold][m].clone()))
}

fn cv_i<F: Scalar, I: TD>(p: &Params, fit_fails: Option<(usize, usize)>, eval_fails: Option<(usize, usize)>, e: Vec<Vec<Vec<F>>>, tb: Table<F>) {
    let (n, k, nm) = (p.u("n", 4), p.u("k", 2), p.u("m", 2));
    let ntc = tb.ntc;
    let mutant = p.get("mut", 0);
    MUT7.with(|m| m.set(mutant == 7));
    let mut tb = tb;
    tb.scramble = mutant == 6;
    let mut ds = DatasetBase::new(tb.records(), tb.targets::<I>());
    let ctx = Rc::new(Ctx { tb, k, fits: RefCell::new(vec![]), evals: RefCell::new(vec![]), fit_fails, eval_fails });
    let models: Vec<MockParams<F>> = (0..nm).map(|id| MockParams { id, ctx: ctx.clone() }).collect();
    let res: Result<Array<F, I>, MockErr> = {
        let c2 = ctx.clone();
        let e2 = &e;
        if p.u("view", 0) == 1 {
            let mut vm = DatasetBase::new(ds.records.view_mut(), ds.targets.view_mut());
            let r = vm.cross_validate(k, &models, move |a: &Array<Tg<F>, I>, b: &ArrayView<Tg<F>, I>| eval_fn::<F, I>(&c2, e2, a, b));
            r
        } else {
            let r = ds.cross_validate(k, &models, move |a: &Array<Tg<F>, I>, b: &ArrayView<Tg<F>, I>| eval_fn::<F, I>(&c2, e2, a, b));
            r
        }
    };
    check_bool("cv.dataset holds the original rows in order afterwards", ctx.tb.intact(ds.records(), ds.targets()));
    finish_cv::<F, I>(res, &ctx, &e, n, k, nm, ntc, mutant);
}

fn finish_cv<F: Scalar, I: TD>(res: Result<Array<F, I>, MockErr>, ctx: &Ctx<F>, e: &[Vec<Vec<F>>], _n: usize, k: usize, nm: usize, ntc: usize, mutant: i64) {
    match (ctx.fit_fails, ctx.eval_fails) {
        (None, None) => {
            check_bool("cv.no failure injected: result is Ok", res.is_ok());
            let sc = match res {
                Ok(s) => s,
                Err(_) => return,
            };
            let s2 = I::as2(sc.view());
            let shape_ok = s2.dim() == (nm, ntc);
            check_bool("cv.one score per model (and per target column)", shape_ok);
            if !shape_ok {
                return;
            }
            let all_pairs: Vec<(usize, usize)> = (0..k).flat_map(|f| (0..nm).map(move |m| (f, m))).collect();
            check_bool("cv.every model was fitted once per fold", sorted_pairs(ctx.fits.borrow().clone()) == all_pairs);
            check_bool("cv.every model was evaluated once per fold", sorted_pairs(ctx.evals.borrow().clone()) == all_pairs);
            for m in 0..nm {
                for c in 0..ntc {
                    let mut sum = F::lit(0.0);
                    for f in 0..k {
                        if mutant == 4 && f == k - 1 && m == nm - 1 {
                            continue;
                        }
                        sum = sum + e[f][m][c];
                    }
                    // score = sum / k: one division inside linfa, so compare after multiplying back
                    let d = num_traits::Float::abs(s2[(m, c)] * F::lit(k as f64) - sum);
                    check("cv.score is the arithmetic mean of the per-fold evaluations", d.s_le(F::lit(1e-6)));
                    observe(s2[(m, c)]);
                }
            }
        }
        (ff, ef) => {
            check_bool("cv.injected failure: result is Err", res.is_err());
            let err = match res {
                Err(x) => x,
                Ok(_) => return,
            };
            let is_fit = matches!((&err, ff), (MockErr::Fit(a, b), Some((f, m))) if (*a, *b) == (f, m));
            let is_eval = match (&err, ef) {
                (MockErr::Linfa(linfa::Error::Parameters(s)), Some((f, m))) => *s == eval_tag(f, m) && mutant != 5,
                _ => false,
            };
            check_bool("cv.the reported error is the injected one", is_fit || is_eval);
        }
    }
}
fn sorted_pairs(mut v: Vec<(usize, usize)>) -> Vec<(usize, usize)> {
    v.sort();
    v
}

fn eval_table<F: Scalar>(k: usize, nm: usize, ntc: usize) -> Vec<Vec<Vec<F>>> {
    (0..k).map(|f| (0..nm).map(|m| (0..ntc).map(|c| int::<F>(&format!("e{}_{}_{}", f, m, c), -1000, 1000)).collect()).collect()).collect()
}

/// cross_validate, no failure injected
fn cv<F: Scalar>(p: &Params) {
    let (n, k, nf, nt, nm) = (p.u("n", 4), p.u("k", 2), p.u("nf", 1), p.u("nt", 0), p.u("m", 2));
    let tb = Table::<F>::new(n, nf, nt.max(1));
    let e = eval_table::<F>(k, nm, nt.max(1));
    if nt == 0 {
        cv_i::<F, Ix1>(p, None, None, e, tb)
    } else {
        cv_i::<F, Ix2>(p, None, None, e, tb)
    }
}

/// cross_validate_single (Ix1 targets), no failure injected
fn cv_single<F: Scalar>(p: &Params) {
    let (n, k, nf, nm) = (p.u("n", 4), p.u("k", 2), p.u("nf", 1), p.u("m", 2));
    let tb = Table::<F>::new(n, nf, 1);
    let e = eval_table::<F>(k, nm, 1);
    let mut ds = DatasetBase::new(tb.records(), tb.targets::<Ix1>());
    let ctx = Rc::new(Ctx { tb, k, fits: RefCell::new(vec![]), evals: RefCell::new(vec![]), fit_fails: None, eval_fails: None });
    let models: Vec<MockParams<F>> = (0..nm).map(|id| MockParams { id, ctx: ctx.clone() }).collect();
    let c2 = ctx.clone();
    let e2 = &e;
    let res: Result<Array1<F>, MockErr> = ds.cross_validate_single(k, &models, move |a: &Array1<Tg<F>>, b: &ArrayView<Tg<F>, Ix1>| eval_fn::<F, Ix1>(&c2, e2, a, b).map(|x| x.into_scalar()));
    check_bool("cv.dataset holds the original rows in order afterwards", ctx.tb.intact(ds.records(), ds.targets()));
    finish_cv::<F, Ix1>(res, &ctx, &e, n, k, nm, 1, p.get("mut", 0));
}

/// cross_validate with an injected failure: fail=1 one fit fails, fail=2 one evaluation fails,
/// fail=3 one of each (either may be reported); which (fold, model) is chosen by the solver
fn cv_err(p: &Params) {
    type F = SymF;
    let (n, k, nf, nt, nm, fail) = (p.u("n", 4), p.u("k", 2), p.u("nf", 1), p.u("nt", 0), p.u("m", 2), p.u("fail", 1));
    let tb = Table::<F>::new(n, nf, nt.max(1));
    let e = eval_table::<F>(k, nm, nt.max(1));
    let pick = |what: &str| {
        let c = choice(what, k * nm);
        (c / nm, c % nm)
    };
    let ff = if fail == 1 || fail == 3 { Some(pick("failing_fit")) } else { None };
    let ef = if fail == 2 || fail == 3 { Some(pick("failing_eval")) } else { None };
    if nt == 0 {
        cv_i::<F, Ix1>(p, ff, ef, e, tb)
    } else {
        cv_i::<F, Ix2>(p, ff, ef, e, tb)
    }
}

pub fn register(v: &mut Vec<HarnessDef>) {
    harness!(v, "c01.fold", "C01", fold,
        "fold(k) of an owned dataset / a view: k (training, validation) pairs partition the tagged rows",
        ["linfa::DatasetBase::fold", "linfa::DatasetBase::view", "ndarray axis_chunks_iter/concatenate (as called by fold)"],
        ["cells are pairwise distinct integers (disjoint ranges per cell); they are only moved", "params: n, k, nf (feature columns), nt (0 = Ix1 targets, c>0 = Ix2 with c columns), view (0 owned, 1 read-only view)"]);
    harness!(v, "c01.iter_fold", "C01", iter_fold,
        "iter_fold(k, closure) on an owned dataset / a mutable view: training view seen by the closure, yielded validation view, dataset restored; sample_chunks",
        ["linfa::DatasetBase::iter_fold (assist_swap_array2)", "linfa::DatasetBase::sample_chunks", "linfa::dataset::iter::ChunksIter::next"],
        ["cells are pairwise distinct integers (disjoint ranges per cell); they are only moved", "params: n, k, nf, nt (0 = Ix1), view (0 owned, 1 mutable view)"]);
    harness!(v, "c01.iter_fold_panics", "C01", iter_fold_panics,
        "documented panics of iter_fold (k = 0, k > n, non-standard layout) leave the dataset intact",
        ["linfa::DatasetBase::iter_fold"],
        []);
    harness!(v, "c01.cv", "C01", cv,
        "cross_validate with m mock models: score = mean over folds of the (symbolic) evaluation, pairing of predictions and validation targets, dataset restored",
        ["linfa::DatasetBase::cross_validate", "linfa::DatasetBase::iter_fold", "linfa::dataset::iter::ChunksIter::next", "linfa::traits::Predict::predict (blanket impl for &ArrayBase)"],
        ["evaluation values are integers in [-1000,1000]; the single division by k is checked after multiplying back, tolerance 1e-6", "cells are pairwise distinct integers", "params: n, k, nf, nt (0 = Ix1), m (models), view (0 owned, 1 mutable view)"]);
    harness!(v, "c01.cv_single", "C01", cv_single,
        "cross_validate_single with m mock models (Ix1 targets)",
        ["linfa::DatasetBase::cross_validate_single", "linfa::DatasetBase::cross_validate", "linfa::DatasetBase::iter_fold"],
        ["evaluation values are integers in [-1000,1000]; tolerance 1e-6 on score*k - sum", "cells are pairwise distinct integers"]);
    harness_sym!(v, "c01.cv_err", "C01", cv_err,
        "cross_validate with one failing fit and/or one failing evaluation (solver picks fold and model): that error is returned, dataset restored",
        ["linfa::DatasetBase::cross_validate", "linfa::DatasetBase::iter_fold"],
        ["exactly one fit failure (fail=1), one eval failure (fail=2) or one of each (fail=3, either error accepted)"]);
}

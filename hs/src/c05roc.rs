//! C05 (ROC / AUC / log-loss): the code takes `&[Pr]` (f32), so scores cannot be symbolic scalars.
//! Scores are solver-chosen on a small grid (ties and the boundary scores 0 and 1 included) and labels
//! solver-chosen booleans: the solver enumerates every (score vector, label vector) as a path and the
//! definition is recomputed on each.
use crate::common::*;
use crate::harness_sym;
use linfa::dataset::Pr;
use linfa::metrics::BinaryClassification;

fn roc(p: &Params) {
    let (n, levels) = (p.u("n", 3), p.u("levels", 3));
    let form = p.u("form", 0);
    let lv: Vec<usize> = (0..n).map(|i| choice(&format!("score{}", i), levels)).collect();
    let lab: Vec<bool> = (0..n).map(|i| choice(&format!("label{}", i), 2) == 1).collect();
    let (npos, nneg) = (lab.iter().filter(|b| **b).count(), lab.iter().filter(|b| !**b).count());
    // the statement is about vectors with both classes present
    assume_bool(npos > 0 && nneg > 0);
    // grid=0: j/(levels-1); grid=1: consecutive f32 values from 0.5 upwards (different scores one ulp apart);
    // grid=2: multiples of 1e-9 (tiny probabilities)
    let grid = p.u("grid", 0);
    let score = |l: usize| match grid {
        1 => f32::from_bits(0.5f32.to_bits() + l as u32),
        2 => l as f32 * 1e-9,
        _ => l as f32 / (levels - 1) as f32,
    };
    let pr: Vec<Pr> = lv.iter().map(|&l| Pr::new(score(l))).collect();
    let r = match form {
        0 => pr.as_slice().roc(lab.as_slice()),
        _ => ndarray::Array1::from(pr.clone()).roc(lab.as_slice()),
    };
    check_bool("roc.succeeds when both classes are present", r.is_ok());
    let r = match r {
        Ok(r) => r,
        Err(_) => return,
    };
    // Mann-Whitney statistic with ties counted one half
    let mut u = 0.0f64;
    for i in 0..n {
        for j in 0..n {
            if lab[i] && !lab[j] {
                u += if lv[i] > lv[j] { 1.0 } else if lv[i] == lv[j] { 0.5 } else { 0.0 };
            }
        }
    }
    let mw = u / (npos * nneg) as f64;
    let auc = r.area_under_curve() as f64;
    check_bool("roc.AUC equals the Mann-Whitney statistic with ties counted one half", (auc - mw).abs() <= 1e-5);
    let c = r.get_curve();
    check_bool("roc.curve starts at (0,0)", c.first().map(|p| p.0 == 0.0 && p.1 == 0.0).unwrap_or(false));
    check_bool("roc.curve ends at (1,1)", c.last().map(|p| (p.0 - 1.0).abs() < 1e-6 && (p.1 - 1.0).abs() < 1e-6).unwrap_or(false));
    check_bool("roc.curve is monotone in both coordinates", c.windows(2).all(|w| w[1].0 >= w[0].0 && w[1].1 >= w[0].1));
    check_bool("roc.curve stays inside the unit square", c.iter().all(|p| (0.0..=1.0).contains(&p.0) && (0.0..=1.0).contains(&p.1)));
    // invariance under one permutation applied to scores and labels together
    if n >= 2 {
        let mut pr2 = pr.clone();
        let mut lab2 = lab.clone();
        pr2.rotate_left(1);
        lab2.rotate_left(1);
        let r2 = pr2.as_slice().roc(lab2.as_slice()).map(|r| r.area_under_curve() as f64);
        check_bool("roc.AUC is unchanged by permuting scores and labels together", r2.map(|a| (a - auc).abs() <= 1e-6).unwrap_or(false));
    }
}

fn log_loss(p: &Params) {
    let (n, levels) = (p.u("n", 3), p.u("levels", 5));
    let lv: Vec<usize> = (0..n).map(|i| choice(&format!("score{}", i), levels)).collect();
    let lab: Vec<bool> = (0..n).map(|i| choice(&format!("label{}", i), 2) == 1).collect();
    let score = |l: usize| l as f32 / (levels - 1) as f32;
    let pr: Vec<Pr> = lv.iter().map(|&l| Pr::new(score(l))).collect();
    let got = pr.as_slice().log_loss(lab.as_slice());
    check_bool("log_loss.succeeds on a non-empty vector", got.is_ok());
    if let Ok(g) = got {
        // mean clipped negative log-likelihood (clipping to [eps, 1-eps], eps = f32::EPSILON as documented by the code's clamp)
        let mut s = 0.0f64;
        for i in 0..n {
            let q = (score(lv[i]) as f64).clamp(f32::EPSILON as f64, 1.0 - f32::EPSILON as f64);
            s += if lab[i] { -q.ln() } else { -(1.0 - q).ln() };
        }
        let want = s / n as f64;
        check_bool("log_loss.is finite", g.is_finite());
        check_bool("log_loss.equals the mean clipped negative log-likelihood", ((g as f64) - want).abs() <= 1e-4 * (1.0 + want.abs()));
        let mut pr2 = pr.clone();
        let mut lab2 = lab.clone();
        pr2.reverse();
        lab2.reverse();
        let g2 = pr2.as_slice().log_loss(lab2.as_slice()).unwrap_or(f32::NAN);
        check_bool("log_loss.unchanged by permuting probabilities and labels together", (g2 - g).abs() <= 1e-5 * (1.0 + g.abs()));
    }
    let empty: Vec<Pr> = vec![];
    let e: Vec<bool> = vec![];
    check_bool("log_loss.empty input is an error", empty.as_slice().log_loss(e.as_slice()).is_err());
}

pub fn register(v: &mut Vec<HarnessDef>) {
    harness_sym!(v, "c05.roc", "C05", roc,
        "ROC curve and AUC on every (score, label) vector over a small score grid incl. ties and the boundary scores 0 and 1: AUC == Mann-Whitney (ties 1/2), curve monotone from (0,0) to (1,1), permutation invariance",
        ["linfa::metrics::BinaryClassification::roc (for &[Pr] and ArrayBase<Pr>)", "ReceiverOperatingCharacteristic::{get_curve, area_under_curve}", "trapezoidal"],
        ["scores on the grid j/(levels-1) (f32 `Pr` cannot be a symbolic scalar); both classes present"]);
    harness_sym!(v, "c05.log_loss", "C05", log_loss,
        "log-loss on every (probability, label) vector over a small grid incl. 0 and 1: mean clipped negative log-likelihood, finite, permutation invariant; empty input is an error",
        ["linfa::metrics::BinaryClassification::log_loss"], ["probabilities on the grid j/(levels-1)"]);
}

//! C13 — SVM solutions satisfy the dual feasibility and KKT conditions they publish.
//!
//! State level (public `solver_smo::SolverState`, kernels through the `rust_ml_linfa_verif` re-export):
//! * `c13.swap`       `new` + `swap`s: target / bound / gradient bookkeeping per position, optionally `solve()`
//!                    afterwards (shrinking off) and feasibility + KKT of the written-back solution.
//! * `c13.writeback`  `solve()` entered with Q = 0, p = 0 after swaps: every sample gets its own alpha back
//!                    (classification and the 2n-variable regression folding).
//! * `c13.rho_nu`     `calculate_rho()` of a nu-constrained state: finite and between the KKT bounds.
//! * `c13.shrink`     `do_shrinking()` on a feasible state: no panic, `nactive <= ntotal`.
//! * `c13.svr`        epsilon-SVR assembled as `regression::fit_epsilon` does (that `Fit` impl exists for
//!                    f32/f64 only), solved by the real `SolverState::solve`: feasibility + KKT.
//! End to end (public `Fit` / `Predict`):
//! * `c13.csvc`       C-classification with per-class weights: box, equality, KKT within eps, decision
//!                    value == sum alpha_i K(x_i, q) - rho, label == sign, nsupport, no panic.
//! * `c13.oneclass`   one-class nu-SVM: box, sum, KKT, decision value.
//!
//! alpha passes through divisions, so obligations on it carry the absolute tolerance `TOL` = 2^-20.
use crate::common::*;
use crate::harness;
use linfa::dataset::Pr;
use linfa::traits::{Fit, Predict, Transformer};
use linfa::DatasetBase;
use linfa_kernel::{Kernel, KernelInner, KernelMethod};
use linfa_svm::solver_smo::SolverState;
use linfa_svm::{PermutableKernel, PermutableKernelRegression, SolverParams, Svm};
use ndarray::{Array1, Array2};
use std::panic::{catch_unwind, resume_unwind, AssertUnwindSafe};

const TOL: f64 = 9.5367431640625e-7; // 2^-20

fn fabs<F: Scalar>(x: F) -> F {
    num_traits::Float::abs(x)
}
/// harness-side branches on exact input relations: split the domain into more paths (more concrete
/// witnesses) where z3 cannot flip the solver's own non-linear branch conditions; no restriction of the domain
fn diversify<F: Scalar>(v: &[F], k: usize) {
    let m = v.len();
    for i in 0..k.min(2 * m) {
        if i < m {
            let _ = v[i].s_lt(F::lit(0.0)).branch();
        } else {
            let _ = v[i - m].s_lt(v[(i - m + 1) % m]).branch();
        }
    }
}
fn near<F: Scalar>(a: F, b: F, tol: F) -> SymB {
    fabs(a - b).s_le(tol)
}
fn labels(pat: usize, n: usize) -> Vec<bool> {
    (0..n).map(|i| (pat >> i) & 1 == 1).collect()
}
fn ysign<F: Scalar>(b: bool) -> F {
    F::lit(if b { 1.0 } else { -1.0 })
}
/// run linfa code that may panic; engine aborts (assume / div0 / unsupported) are passed on
fn guarded<T>(f: impl FnOnce() -> T) -> Option<T> {
    match catch_unwind(AssertUnwindSafe(f)) {
        Ok(v) => Some(v),
        Err(p) => {
            if p.is::<symx::Abort>() {
                resume_unwind(p)
            }
            let msg = p.downcast_ref::<&str>().map(|s| s.to_string()).or_else(|| p.downcast_ref::<String>().cloned()).unwrap_or_default();
            note(&format!("panic inside linfa: {}", msg));
            None
        }
    }
}
/// 1-D points: symbolic integers, or the concrete values x0, x1, ... of the parameters
fn points<F: Scalar>(pr: &Params, n: usize, sym: bool, b: i64) -> Array2<F> {
    let dflt = [1i64, 2, 3, 5, -4, -2];
    let mut x = Array2::from_elem((n, 1), F::lit(0.0));
    for i in 0..n {
        x[(i, 0)] = if sym { int::<F>(&format!("x{}", i), -b, b) } else { F::lit(pr.get(&format!("x{}", i), dflt[i % dflt.len()]) as f64) };
    }
    x
}
fn kern<F: Scalar>(kind: usize, a: F, b: F) -> F {
    match kind {
        2 => (a * b + F::lit(1.0)) * (a * b + F::lit(1.0)),
        _ => a * b,
    }
}
fn kmethod<F: Scalar>(kind: usize) -> KernelMethod<F> {
    match kind {
        2 => KernelMethod::Polynomial(F::lit(1.0), F::lit(2.0)),
        _ => KernelMethod::Linear,
    }
}

/// Feasibility and KKT of a C-SVC dual solution given as unsigned alpha, labels, per-sample bounds and
/// the kernel values K[i][j] (harness terms); `only` selects the obligation groups (1 box, 2 equality, 4 KKT).
fn check_csvc<F: Scalar>(tag: &str, only: usize, alpha: &[F], y: &[bool], c: &[F], k: &dyn Fn(usize, usize) -> F, rho: F, eps: F) {
    let n = alpha.len();
    let tol = F::lit(TOL);
    let zero = F::lit(0.0);
    if only & 1 != 0 {
        for i in 0..n {
            check(&format!("{}.box: 0 <= alpha_i <= C of the sample's class", tag), (zero - tol).s_le(alpha[i]).and(alpha[i].s_le(c[i] + tol)));
        }
    }
    if only & 2 != 0 {
        let mut s = zero;
        for i in 0..n {
            s = s + ysign::<F>(y[i]) * alpha[i];
        }
        check(&format!("{}.equality: sum_i y_i alpha_i == 0", tag), near(s, zero, tol));
    }
    if only & 4 != 0 {
        for i in 0..n {
            let mut f = zero - rho;
            for j in 0..n {
                f = f + ysign::<F>(y[j]) * alpha[j] * k(i, j);
            }
            let yf = ysign::<F>(y[i]) * f;
            let slack = eps + tol;
            // not at the upper bound => on or outside the margin; not at zero => on or inside it
            let a = alpha[i].s_lt(c[i] - tol).implies((F::lit(1.0) - slack).s_le(yf));
            let b = tol.s_lt(alpha[i]).implies(yf.s_le(F::lit(1.0) + slack));
            check(&format!("{}.KKT within eps: zero alpha outside, free on, bounded inside the margin", tag), a.and(b));
        }
    }
}

// --------------------------------------------------------------------------------- c13.swap
fn all_pairs(n: usize) -> Vec<(usize, usize)> {
    let mut v = vec![];
    for i in 0..n {
        for j in i + 1..n {
            v.push((i, j));
        }
    }
    v
}
fn is_involution(perm: &[usize]) -> bool {
    (0..perm.len()).all(|i| perm[perm[i]] == i)
}

fn swap<F: Scalar>(pr: &Params) {
    let (n, pat, b) = (pr.u("n", 3), pr.u("pat", 0b101), pr.get("B", 8));
    let (ub, nsw, symx) = (pr.u("ub", 1) == 1, pr.u("nsw", 1), pr.u("symx", 0) == 1);
    let (do_solve, only, mutate) = (pr.u("solve", 0) == 1, pr.u("only", 63), pr.u("mut", 0));
    let y = labels(pat, n);
    let x = points::<F>(pr, n, symx, b);
    // bounds: one per sample (ub=1) or one for all; alpha feasible on the 1/4 grid; linear term integer
    let cs: Vec<F> = if ub { (0..n).map(|i| int::<F>(&format!("c{}", i), 1, 4)).collect() } else { vec![int::<F>("c", 1, 4); n] };
    let (alpha, p): (Vec<F>, Vec<F>) = if do_solve {
        // a C-SVC start: alpha = 0 (feasible for sum y alpha = 0), p = -1
        (vec![F::lit(0.0); n], vec![F::lit(-1.0); n])
    } else {
        let a: Vec<F> = (0..n).map(|i| grid::<F>(&format!("a{}", i), 16, 2)).collect();
        for i in 0..n {
            assume(F::lit(0.0).s_le(a[i]).and(a[i].s_le(cs[i])));
        }
        (a, (0..n).map(|i| int::<F>(&format!("p{}", i), -b, b)).collect())
    };
    let pairs = all_pairs(n);
    let seq: Vec<(usize, usize)> = (0..nsw).map(|s| pairs[choice(&format!("swap{}", s), pairs.len())]).collect();

    let kernel: Kernel<F> = Kernel::params().method(KernelMethod::Linear).transform(&x);
    let pk = PermutableKernel::new(kernel, y.clone());
    let eps = F::lit((2.0f64).powi(-(pr.get("epsk", 4) as i32)));
    let mut st = SolverState::new(alpha.clone(), p.clone(), y.clone(), x.view(), pk, cs.clone(), SolverParams { eps, shrinking: false }, false);
    let mut perm: Vec<usize> = (0..n).collect(); // perm[pos] = sample now at pos
    for &(i, j) in &seq {
        st.swap(i, j);
        perm.swap(i, j);
    }
    if pr.u("inv", 2) == 1 {
        assume_bool(is_involution(&perm));
    }
    let kv = |i: usize, j: usize| x[(i, 0)] * x[(j, 0)];
    if only & 8 != 0 {
        for pos in 0..n {
            check_bool("swap.target(pos) is the label of the sample now at pos", st.target(pos).identical(ysign::<F>(y[perm[pos]])));
        }
    }
    if only & 16 != 0 {
        for pos in 0..n {
            let want = if mutate == 1 { cs[pos] } else { cs[perm[pos]] };
            check("swap.bound(pos) is the box bound of the sample now at pos", st.bound(pos).s_eq(want));
        }
    }
    if only & 32 != 0 && !do_solve {
        // gradient / alpha / label / kernel bookkeeping, read through max_violating_pair()
        let zero = F::lit(0.0);
        let g: Vec<F> = (0..n)
            .map(|s| {
                let mut v = p[s];
                for t in 0..n {
                    v = v + ysign::<F>(y[s]) * ysign::<F>(y[t]) * kv(s, t) * alpha[t];
                }
                if mutate == 2 && s == 0 {
                    v = v + F::lit(1.0);
                }
                v
            })
            .collect();
        let in_up = |s: usize| if y[s] { alpha[s].s_lt(cs[s]) } else { alpha[s].s_eq(zero).not() };
        let in_low = |s: usize| if y[s] { alpha[s].s_eq(zero).not() } else { alpha[s].s_lt(cs[s]) };
        let v1 = |s: usize| if y[s] { zero - g[s] } else { g[s] };
        let v2 = |s: usize| if y[s] { g[s] } else { zero - g[s] };
        let ((g1, i1), (g2, i2)) = st.max_violating_pair();
        let mut obs: Vec<SymB> = vec![];
        for (gm, im, member, val) in [(g1, i1, &in_up as &dyn Fn(usize) -> SymB, &v1 as &dyn Fn(usize) -> F), (g2, i2, &in_low as &dyn Fn(usize) -> SymB, &v2 as &dyn Fn(usize) -> F)] {
            if im >= 0 {
                let s = perm[im as usize];
                obs.push(member(s));
                obs.push(gm.s_eq(val(s)));
                for t in 0..n {
                    obs.push(member(t).implies(val(t).s_le(gm)));
                }
            } else {
                for t in 0..n {
                    obs.push(member(t).not());
                }
            }
            observe_usize((im + 1) as usize);
        }
        check("swap.max_violating_pair reports the gradient of the sample now at the reported position", SymB::all(&obs));
    }
    if do_solve {
        // the permuted problem is the same problem: the written-back solution must be feasible and KKT
        let res = match guarded(move || st.solve()) {
            Some(r) => r,
            None => {
                check_bool("swap.solve does not panic", false);
                return;
            }
        };
        check_bool("swap.solve returns one alpha per sample", res.alpha.len() == n);
        check_csvc("swap.solve", only & 7, &res.alpha, &y, &cs, &kv, res.rho, eps);
        for a in &res.alpha {
            observe(*a);
        }
        observe(res.rho);
    }
}

// ---------------------------------------------------------------------------- c13.writeback
fn writeback<F: Scalar>(pr: &Params) {
    let (n, nsw, reg, inv) = (pr.u("n", 3), pr.u("nsw", 2), pr.u("reg", 0) == 1, pr.u("inv", 2));
    let mutate = pr.u("mut", 0);
    let m = if reg { 2 * n } else { n };
    let x = points::<F>(pr, n, false, 8);
    let alpha: Vec<F> = (0..m).map(|i| int::<F>(&format!("a{}", i), 1, 7)).collect();
    let pairs = all_pairs(m);
    let seq: Vec<(usize, usize)> = (0..nsw).map(|s| pairs[choice(&format!("swap{}", s), pairs.len())]).collect();
    let mut perm: Vec<usize> = (0..m).collect();
    for &(i, j) in &seq {
        perm.swap(i, j);
    }
    match inv {
        1 => assume_bool(is_involution(&perm)),
        0 => assume_bool(!is_involution(&perm)),
        _ => {}
    }
    let zk: Kernel<F> = Kernel { inner: KernelInner::Dense(Array2::from_elem((n, n), F::lit(0.0))), method: KernelMethod::Linear };
    let params = SolverParams { eps: F::lit(0.0625), shrinking: false };
    let p = vec![F::lit(0.0); m];
    let bounds = vec![F::lit(8.0); m];
    let out: Vec<F> = if reg {
        let targets: Vec<bool> = (0..m).map(|i| i < n).collect();
        let mut st = SolverState::new(alpha.clone(), p, targets, x.view(), PermutableKernelRegression::new(zk), bounds, params, false);
        for &(i, j) in &seq {
            st.swap(i, j);
        }
        st.solve().alpha
    } else {
        let targets = vec![true; n];
        let mut st = SolverState::new(alpha.clone(), p, targets.clone(), x.view(), PermutableKernel::new(zk, targets), bounds, params, false);
        for &(i, j) in &seq {
            st.swap(i, j);
        }
        st.solve().alpha
    };
    check_bool("writeback.one coefficient per sample", out.len() == n);
    if out.len() != n {
        return;
    }
    for s in 0..n {
        let mut want = if reg { alpha[s] - alpha[s + n] } else { alpha[s] };
        if mutate == 1 && s == 0 {
            want = want + F::lit(1.0);
        }
        check("writeback.alpha_out[sample] == alpha_in[sample] (regression: alpha_i - alpha_{i+n})", out[s].s_eq(want));
        observe(out[s]);
    }
}

// ------------------------------------------------------------------------------- c13.rho_nu
fn rho_nu<F: Scalar>(pr: &Params) {
    let (n, pat, b) = (pr.u("n", 4), pr.u("pat", 0b0011), pr.get("B", 8));
    let mutate = pr.u("mut", 0);
    let y = labels(pat, n);
    let x = points::<F>(pr, n, true, b);
    // alpha status per sample: 0 lower bound, 1 free (1/2), 2 upper bound (bound 1)
    let status: Vec<usize> = (0..n).map(|i| choice(&format!("st{}", i), 3)).collect();
    let alpha: Vec<F> = status.iter().map(|s| F::lit([0.0, 0.5, 1.0][*s])).collect();
    let kernel: Kernel<F> = Kernel::params().method(KernelMethod::Linear).transform(&x);
    let pk = PermutableKernel::new(kernel, y.clone());
    let mut st = SolverState::new(alpha.clone(), vec![F::lit(0.0); n], y.clone(), x.view(), pk, vec![F::lit(1.0); n], SolverParams { eps: F::lit(0.0625), shrinking: false }, true);
    let rho = st.calculate_rho();
    // gradient G = Q alpha
    let g: Vec<F> = (0..n)
        .map(|s| {
            let mut v = F::lit(0.0);
            for t in 0..n {
                v = v + ysign::<F>(y[s]) * ysign::<F>(y[t]) * x[(s, 0)] * x[(t, 0)] * alpha[t];
            }
            v
        })
        .collect();
    // admissible interval of r_c per class: free vectors pin it between their gradients; otherwise it lies
    // between the largest gradient at the upper bound and the smallest at the lower bound
    let mut lo: Vec<Option<F>> = vec![None, None];
    let mut hi: Vec<Option<F>> = vec![None, None];
    let fmax = |a: Option<F>, v: F| Some(a.map_or(v, |a| num_traits::Float::max(a, v)));
    let fmin = |a: Option<F>, v: F| Some(a.map_or(v, |a| num_traits::Float::min(a, v)));
    for c in 0..2 {
        let cls = c == 0; // c = 0: positive class (r1), c = 1: negative class (r2)
        let members: Vec<usize> = (0..n).filter(|i| y[*i] == cls).collect();
        let free: Vec<usize> = members.iter().cloned().filter(|i| status[*i] == 1).collect();
        if !free.is_empty() {
            for &i in &free {
                lo[c] = fmin(lo[c], g[i]);
                hi[c] = fmax(hi[c], g[i]);
            }
        } else {
            for &i in &members {
                if status[i] == 2 {
                    lo[c] = fmax(lo[c], g[i]);
                } else {
                    hi[c] = fmin(hi[c], g[i]);
                }
            }
        }
    }
    // region=1: every class has a free vector; region=0: some class has none; 2: both
    let all_free = (0..2).all(|c| (0..n).any(|i| (y[i] == (c == 0)) && status[i] == 1));
    match pr.u("region", 2) {
        1 => assume_bool(all_free),
        0 => assume_bool(!all_free),
        _ => {}
    }
    // degenerate: a class without free vectors that lacks an upper- or a lower-bounded one (rho undefined)
    assume_bool(lo.iter().all(|v| v.is_some()) && hi.iter().all(|v| v.is_some()));
    let (lo1, hi1, lo2, hi2) = (lo[0].unwrap(), hi[0].unwrap(), lo[1].unwrap(), hi[1].unwrap());
    // the state is a KKT point of its class-wise constraints
    assume(lo1.s_le(hi1).and(lo2.s_le(hi2)));
    let finite = num_traits::Float::is_finite(rho);
    check_bool("rho_nu.calculate_rho is finite", finite);
    if finite {
        let two = F::lit(2.0);
        let shift = if mutate == 1 { F::lit(1.0) } else { F::lit(0.0) };
        let lo_r = (lo1 - hi2) / two + shift;
        let hi_r = (hi1 - lo2) / two;
        check("rho_nu.rho between the KKT bounds (r1 - r2)/2 of the two classes", (lo_r - F::lit(TOL)).s_le(rho).and(rho.s_le(hi_r + F::lit(TOL))));
        observe(rho);
    }
}

// ------------------------------------------------------------------------------- c13.shrink
fn shrink<F: Scalar>(pr: &Params) {
    let (n, pat, b) = (pr.u("n", 3), pr.u("pat", 0b101), pr.get("B", 8));
    let y = labels(pat, n);
    let x = points::<F>(pr, n, true, b);
    let status: Vec<usize> = (0..n).map(|i| choice(&format!("st{}", i), 3)).collect();
    let c = F::lit(1.0);
    let alpha: Vec<F> = status.iter().map(|s| F::lit([0.0, 0.5, 1.0][*s])).collect();
    let kernel: Kernel<F> = Kernel::params().method(KernelMethod::Linear).transform(&x);
    let pk = PermutableKernel::new(kernel, y.clone());
    let mut st = SolverState::new(alpha, vec![F::lit(-1.0); n], y.clone(), x.view(), pk, vec![c; n], SolverParams { eps: F::lit(0.0625), shrinking: true }, false);
    let r = guarded(move || {
        st.do_shrinking();
        (st.nactive(), st.ntotal())
    });
    match r {
        None => check_bool("shrink.do_shrinking does not panic", false),
        Some((na, nt)) => {
            check_bool("shrink.do_shrinking does not panic", true);
            check_bool("shrink.nactive <= ntotal", na <= nt && nt == n);
            observe_usize(na);
        }
    }
}

// --------------------------------------------------------------------------------- c13.csvc
fn csvc<F: Scalar>(pr: &Params) {
    let (n, pat, b) = (pr.u("n", 3), pr.u("pat", 0b101), pr.get("B", 8));
    let (symx, symw) = (pr.u("symx", 1) == 1, pr.u("symw", 0) == 1);
    let (shrinking, kind, only, mutate) = (pr.u("shrink", 0) == 1, pr.u("kern", 0), pr.u("only", 127), pr.u("mut", 0));
    let eps = F::lit((2.0f64).powi(-(pr.get("epsk", 4) as i32)));
    let y = labels(pat, n);
    let x = points::<F>(pr, n, symx, b);
    if symx {
        if pr.u("distinct", 0) == 1 {
            for i in 0..n {
                for j in i + 1..n {
                    assume(x[(i, 0)].s_eq(x[(j, 0)]).not());
                }
            }
        }
        diversify(&x.iter().cloned().collect::<Vec<F>>(), pr.u("div", 0));
    }
    // class weights: symbolic on the 1/4 grid in (0, 8], or the concrete cp/4, cn/4
    let (cp, cn) = if symw {
        (F::input("cpos", 1, 32, 2), F::input("cneg", 1, 32, 2))
    } else {
        (F::lit(pr.get("cp", 4) as f64 / 4.0), F::lit(pr.get("cn", 4) as f64 / 4.0))
    };
    let q = int::<F>("q", -b, b);
    let ds = DatasetBase::new(x.clone(), Array1::from_vec(y.clone()));
    let params = Svm::<F, bool>::params().pos_neg_weights(cp, cn).eps(eps).shrinking(shrinking);
    let params = match kind {
        2 => params.polynomial_kernel(F::lit(1.0), F::lit(2.0)),
        _ => params.linear_kernel(),
    };
    let model = match guarded(|| params.fit(&ds)) {
        Some(Ok(m)) => m,
        Some(Err(_)) => {
            check_bool("csvc.fit accepts valid parameters", false);
            return;
        }
        None => {
            if only & 32 != 0 {
                check_bool("csvc.fit does not panic", false);
            }
            return;
        }
    };
    if only & 32 != 0 {
        check_bool("csvc.fit does not panic", true);
    }
    check_bool("csvc.one coefficient per sample", model.alpha.len() == n);
    if model.alpha.len() != n {
        return;
    }
    let finite = num_traits::Float::is_finite(model.rho) && model.alpha.iter().all(|a| num_traits::Float::is_finite(*a));
    if only & 64 != 0 {
        check_bool("csvc.rho and the coefficients are finite", finite);
    }
    if !finite {
        return;
    }
    // published coefficients are signed by the label
    let mut rho = model.rho;
    if mutate == 3 {
        rho = rho + F::lit(0.5);
    }
    let a_un: Vec<F> = (0..n).map(|i| ysign::<F>(y[i]) * model.alpha[i] + if mutate == 1 && i == 0 { F::lit(0.01) } else { F::lit(0.0) }).collect();
    let c: Vec<F> = y.iter().map(|t| if *t { cp } else { cn }).collect();
    let kv = |i: usize, j: usize| kern(kind, x[(i, 0)], x[(j, 0)]);
    check_csvc("csvc", only & 7, &a_un, &y, &c, &kv, rho, eps);
    if only & 8 != 0 {
        let qa = Array1::from_elem(1, q);
        let dec = model.weighted_sum(&qa) - model.rho;
        let mut f = F::lit(0.0) - rho;
        for i in 0..n {
            f = f + model.alpha[i] * kern(kind, x[(i, 0)], q);
        }
        if mutate == 2 {
            f = f + F::lit(0.01);
        }
        check("csvc.decision value == sum_i alpha_i K(x_i, q) - rho from the published coefficients", near(dec, f, F::lit(TOL)));
        let label: bool = model.predict(qa.view());
        let t = F::lit(TOL);
        check("csvc.predicted label is the sign of the decision value", t.s_le(f).implies(SymB::k(label)).and(f.s_le(F::lit(0.0) - t).implies(SymB::k(!label))));
        observe(dec);
        observe_usize(label as usize);
    }
    if only & 16 != 0 {
        // nsupport counts |alpha| > 100 ulp; "non-zero" is demanded up to coefficients below 2^-40
        let mut lower = 0;
        let mut upper = 0;
        for i in 0..n {
            if F::lit((2.0f64).powi(-40)).s_lt(fabs(model.alpha[i])).branch() {
                lower += 1;
                upper += 1;
            } else if model.alpha[i].s_eq(F::lit(0.0)).not().branch() {
                upper += 1;
            }
        }
        let ns = model.nsupport() + (mutate == 4) as usize;
        check_bool("csvc.nsupport is the number of non-zero coefficients", lower <= ns && ns <= upper);
        observe_usize(ns);
    }
    for a in &model.alpha {
        observe(*a);
    }
    observe(model.rho);
}


// ---------------------------------------------------------------------------------- c13.nusvc
/// outcome of running linfa code that may divide by an infinite intermediate (`symbolic / inf` cannot be a term)
enum Ran<T> {
    Done(T),
    Panicked,
    InfiniteIntermediate,
}
fn guarded_inf<T>(f: impl FnOnce() -> T) -> Ran<T> {
    match catch_unwind(AssertUnwindSafe(f)) {
        Ok(v) => Ran::Done(v),
        Err(p) => {
            if let Some(a) = p.downcast_ref::<symx::Abort>() {
                if let symx::Abort::Unsupported(m) = a {
                    if m.contains("infinite constant") {
                        return Ran::InfiniteIntermediate;
                    }
                }
                resume_unwind(p)
            }
            Ran::Panicked
        }
    }
}

fn nusvc<F: Scalar>(pr: &Params) {
    let (n, pat, b) = (pr.u("n", 3), pr.u("pat", 0b101), pr.get("B", 8));
    let (symx, shrinking, kind, only, mutate) = (pr.u("symx", 1) == 1, pr.u("shrink", 0) == 1, pr.u("kern", 0), pr.u("only", 127), pr.u("mut", 0));
    let nu = pr.get("nu", 2) as f64 / 4.0;
    let eps = F::lit((2.0f64).powi(-(pr.get("epsk", 4) as i32)));
    let y = labels(pat, n);
    let x = points::<F>(pr, n, symx, b);
    if symx {
        if pr.u("distinct", 0) == 1 {
            for i in 0..n {
                for j in i + 1..n {
                    assume(x[(i, 0)].s_eq(x[(j, 0)]).not());
                }
            }
        }
        if pr.u("sep", 0) == 1 {
            // restrict to linearly separable 1-D configurations: on data whose optimal margin is zero the
            // nu formulation is degenerate (r = 0) - that region has its own job (recorded finding)
            let mut above = vec![];
            let mut below = vec![];
            for i in 0..n {
                for j in 0..n {
                    if y[i] && !y[j] {
                        above.push(x[(j, 0)].s_lt(x[(i, 0)]));
                        below.push(x[(i, 0)].s_lt(x[(j, 0)]));
                    }
                }
            }
            assume(SymB::all(&above).or(SymB::all(&below)));
        }
        diversify(&x.iter().cloned().collect::<Vec<F>>(), pr.u("div", 0));
    }
    let q = int::<F>("q", -b, b);
    let ds = DatasetBase::new(x.clone(), Array1::from_vec(y.clone()));
    let params = Svm::<F, bool>::params().nu_weight(F::lit(nu)).eps(eps).shrinking(shrinking);
    let params = match kind {
        2 => params.polynomial_kernel(F::lit(1.0), F::lit(2.0)),
        _ => params.linear_kernel(),
    };
    let model = match guarded_inf(|| params.fit(&ds)) {
        Ran::Done(Ok(m)) => m,
        Ran::Done(Err(_)) => {
            check_bool("nusvc.fit accepts valid parameters", false);
            return;
        }
        Ran::Panicked => {
            if only & 32 != 0 {
                check_bool("nusvc.fit does not panic", false);
            }
            return;
        }
        Ran::InfiniteIntermediate => {
            // fit_nu divided the coefficients by an infinite r: they are published as 0 and rho as NaN/inf
            if only & 64 != 0 {
                check_bool("nusvc.rho and the coefficients are finite", false);
            }
            return;
        }
    };
    check_bool("nusvc.one coefficient per sample", model.alpha.len() == n);
    if model.alpha.len() != n {
        return;
    }
    let finite = num_traits::Float::is_finite(model.rho) && model.alpha.iter().all(|a| num_traits::Float::is_finite(*a));
    if only & 64 != 0 {
        check_bool("nusvc.rho and the coefficients are finite", finite);
    }
    if !finite {
        return;
    }
    let tol = F::lit(TOL);
    let zero = F::lit(0.0);
    let one = F::lit(1.0);
    let rho = model.rho + if mutate == 1 { F::lit(0.5) } else { zero };
    // unsigned coefficients, their sum S = nu n / r, so the per-sample bound 1/r is S / (nu n)
    let a_un: Vec<F> = (0..n).map(|i| ysign::<F>(y[i]) * model.alpha[i]).collect();
    let mut s_abs = zero;
    let mut s_signed = zero;
    for i in 0..n {
        s_abs = s_abs + a_un[i];
        s_signed = s_signed + model.alpha[i];
    }
    let inv_r = s_abs / F::lit(nu * n as f64);
    if only & 1 != 0 {
        for i in 0..n {
            check("nusvc.box: 0 <= y_i alpha_i <= 1/r = sum|alpha| / (nu n)", (zero - tol).s_le(a_un[i]).and(a_un[i].s_le(inv_r + tol)));
        }
    }
    if only & 2 != 0 {
        check("nusvc.equality: sum_i alpha_i == 0 (signed coefficients)", near(s_signed, zero, tol));
    }
    if only & 4 != 0 {
        for i in 0..n {
            let mut f = zero - rho;
            for j in 0..n {
                f = f + model.alpha[j] * kern(kind, x[(i, 0)], x[(j, 0)]);
            }
            let yf = ysign::<F>(y[i]) * f;
            let slack = eps * inv_r + tol;
            let lo = a_un[i].s_lt(inv_r - tol).implies((one - slack).s_le(yf));
            let hi = tol.s_lt(a_un[i]).implies(yf.s_le(one + slack));
            check("nusvc.KKT within eps/r: zero alpha outside, free on, bounded inside the margin", lo.and(hi));
        }
    }
    if only & 8 != 0 {
        let qa = Array1::from_elem(1, q);
        let dec = model.weighted_sum(&qa) - model.rho;
        let mut f = zero - model.rho;
        for i in 0..n {
            f = f + model.alpha[i] * kern(kind, x[(i, 0)], q);
        }
        check("nusvc.decision value == sum_i alpha_i K(x_i, q) - rho from the published coefficients", near(dec, f, tol));
    }
    for a in &model.alpha {
        observe(*a);
    }
    observe(model.rho);
}

// ----------------------------------------------------------------------------- c13.oneclass
fn oneclass<F: Scalar>(pr: &Params) {
    let (n, b, kind) = (pr.u("n", 3), pr.get("B", 8), pr.u("kern", 0));
    let (shrinking, mutate) = (pr.u("shrink", 0) == 1, pr.u("mut", 0));
    let nu = pr.get("nu", 2) as f64 / 4.0;
    let eps = F::lit((2.0f64).powi(-(pr.get("epsk", 4) as i32)));
    let x = points::<F>(pr, n, true, b);
    let q = int::<F>("q", -b, b);
    let ds = DatasetBase::new(x.clone(), Array1::from_elem(n, ()));
    let params = Svm::<F, Pr>::params().nu_weight(F::lit(nu)).eps(eps).shrinking(shrinking);
    let params = match kind {
        2 => params.polynomial_kernel(F::lit(1.0), F::lit(2.0)),
        _ => params.linear_kernel(),
    };
    let fitted: Option<Result<Svm<F, bool>, _>> = guarded(|| params.fit(&ds));
    let model = match fitted {
        Some(Ok(m)) => m,
        Some(Err(_)) => {
            check_bool("oneclass.fit accepts valid parameters", false);
            return;
        }
        None => {
            check_bool("oneclass.fit does not panic", false);
            return;
        }
    };
    check_bool("oneclass.one coefficient per sample", model.alpha.len() == n);
    if model.alpha.len() != n {
        return;
    }
    let tol = F::lit(TOL);
    let zero = F::lit(0.0);
    let one = F::lit(1.0);
    let a = &model.alpha;
    let rho = model.rho + if mutate == 1 { F::lit(0.5) } else { zero };
    let mut s = zero;
    for i in 0..n {
        check("oneclass.box: 0 <= alpha_i <= 1", (zero - tol).s_le(a[i]).and(a[i].s_le(one + tol)));
        s = s + a[i];
    }
    check("oneclass.sum_i alpha_i == nu * n", near(s, F::lit(nu * n as f64), tol));
    for i in 0..n {
        let mut f = zero - rho;
        for j in 0..n {
            f = f + a[j] * kern(kind, x[(i, 0)], x[(j, 0)]);
        }
        let slack = eps + tol;
        let lo = a[i].s_lt(one - tol).implies((zero - slack).s_le(f));
        let hi = tol.s_lt(a[i]).implies(f.s_le(slack));
        check("oneclass.KKT within eps: zero alpha f >= 0, free f == 0, bounded f <= 0", lo.and(hi));
    }
    let qa = Array1::from_elem(1, q);
    let dec = model.weighted_sum(&qa) - model.rho;
    let mut f = zero - model.rho;
    for i in 0..n {
        f = f + a[i] * kern(kind, x[(i, 0)], q);
    }
    check("oneclass.decision value == sum_i alpha_i K(x_i, q) - rho", near(dec, f, tol));
    for v in a {
        observe(*v);
    }
    observe(model.rho);
}

// ---------------------------------------------------------------------------------- c13.svr
fn svr<F: Scalar>(pr: &Params) {
    let (n, b, kind) = (pr.u("n", 2), pr.get("B", 8), pr.u("kern", 0));
    let (shrinking, symx, mutate) = (pr.u("shrink", 0) == 1, pr.u("symx", 0) == 1, pr.u("mut", 0));
    let cc = F::lit(pr.get("c", 4) as f64 / 4.0);
    let loss = F::lit(pr.get("loss", 2) as f64 / 4.0); // epsilon of the insensitive loss
    let eps = F::lit((2.0f64).powi(-(pr.get("epsk", 4) as i32)));
    let x = points::<F>(pr, n, symx, b);
    let t: Vec<F> = (0..n).map(|i| int::<F>(&format!("t{}", i), -b, b)).collect();
    // problem assembly of regression::fit_epsilon (private; its Fit impl is instantiated for f32/f64 only)
    let mut lin = vec![F::lit(0.0); 2 * n];
    let mut signs = vec![true; 2 * n];
    for i in 0..n {
        lin[i] = loss - t[i];
        lin[i + n] = loss + t[i];
        signs[i + n] = false;
    }
    let kernel: Kernel<F> = Kernel::params().method(kmethod::<F>(kind)).transform(&x);
    let st = SolverState::new(vec![F::lit(0.0); 2 * n], lin, signs, x.view(), PermutableKernelRegression::new(kernel), vec![cc; 2 * n], SolverParams { eps, shrinking }, false);
    let res = match guarded(move || st.solve()) {
        Some(r) => r,
        None => {
            check_bool("svr.solve does not panic", false);
            return;
        }
    };
    check_bool("svr.one coefficient per sample", res.alpha.len() == n);
    if res.alpha.len() != n {
        return;
    }
    let tol = F::lit(TOL);
    let zero = F::lit(0.0);
    let beta = &res.alpha;
    let rho = res.rho + if mutate == 1 { F::lit(0.5) } else { zero };
    let mut s = zero;
    for i in 0..n {
        check("svr.box: |alpha_i - alpha*_i| <= C", fabs(beta[i]).s_le(cc + tol));
        s = s + beta[i];
    }
    check("svr.equality: sum_i (alpha_i - alpha*_i) == 0", near(s, zero, tol));
    for i in 0..n {
        let mut f = zero - rho;
        for j in 0..n {
            f = f + beta[j] * kern(kind, x[(i, 0)], x[(j, 0)]);
        }
        let res_i = t[i] - f; // residual
        let slack = eps + tol;
        // beta < C: residual <= loss ; beta > 0: residual >= loss ; beta > -C: residual >= -loss ; beta < 0: residual <= -loss
        let c1 = beta[i].s_lt(cc - tol).implies(res_i.s_le(loss + slack));
        let c2 = tol.s_lt(beta[i]).implies((loss - slack).s_le(res_i));
        let c3 = (tol - cc).s_lt(beta[i]).implies((zero - loss - slack).s_le(res_i));
        let c4 = beta[i].s_lt(zero - tol).implies(res_i.s_le(slack - loss));
        check("svr.KKT within eps: |residual| <= loss for zero, == loss for free, >= loss for bounded coefficients", SymB::all(&[c1, c2, c3, c4]));
    }
    if kind == 0 {
        let q = int::<F>("q", -b, b);
        let qa = Array1::from_elem(1, q);
        let dec = res.weighted_sum(&qa) - res.rho;
        let mut f = zero - res.rho;
        for i in 0..n {
            f = f + beta[i] * x[(i, 0)] * q;
        }
        check("svr.decision value == sum_i (alpha_i - alpha*_i) K(x_i, q) - rho", near(dec, f, tol));
    }
    for v in beta {
        observe(*v);
    }
    observe(res.rho);
}

/// Regression through the public parameter API (`c_svr(c, Some(loss))`, `nu_svr(nu, Some(c))`, `eps`, kernels).  The
/// regression `Fit` impls exist for f32 / f64 only, so the fit is the f64 one; what the solver enumerates here
/// (`choice`) is the configuration: C, loss epsilon / nu, target vector, kernel, shrinking.
fn svr_params<F: Scalar>(pr: &Params) {
    let which = pr.u("which", 0);
    let cs = [0.5f64, 1.0, 4.0];
    let losses = [0.0625f64, 0.1, 0.25, 0.5, 1.0];
    let nus = [0.25f64, 0.5, 0.75];
    let tables: [[f64; 4]; 6] = [[0., 1., 3., 4.], [0., 2., 1., 5.], [1., -1., 2., -3.], [0., 0., 0., 4.], [3., 1., 4., 1.], [-2., 0.5, 0.75, 6.]];
    let c = cs[choice("c", cs.len())];
    let loss = losses[choice("loss", if which == 0 { losses.len() } else { 1 })];
    let nu = nus[choice("nu", if which == 1 { nus.len() } else { 1 })];
    let t = tables[choice("targets", tables.len())];
    let kind = choice("kernel", 2);
    let shrinking = choice("shrinking", 2) == 1;
    let xs = [0.0f64, 1.0, 3.0, 4.0];
    let n = xs.len();
    let x = Array2::from_shape_fn((n, 1), |(i, _)| xs[i]);
    let ds = DatasetBase::new(x.clone(), Array1::from(t.to_vec()));
    let tol_solver = 1e-6;
    let params = Svm::<f64, f64>::params().eps(tol_solver).shrinking(shrinking);
    let params = if which == 0 { params.c_svr(c, Some(loss)) } else { params.nu_svr(nu, Some(c)) };
    let params = if kind == 1 { params.gaussian_kernel(4.0) } else { params.linear_kernel() };
    let kf = |a: f64, b: f64| if kind == 1 { (-(a - b) * (a - b) / 4.0).exp() } else { a * b };
    let model = match guarded(|| params.fit(&ds)) {
        Some(Ok(m)) => m,
        Some(Err(_)) => {
            check_bool("svr_params.fit accepts valid parameters", false);
            return;
        }
        None => {
            check_bool("svr_params.fit does not panic", false);
            return;
        }
    };
    let tol = 1e-4;
    check_bool("svr_params.one coefficient per sample", model.alpha.len() == n);
    if model.alpha.len() != n {
        return;
    }
    let a = &model.alpha;
    check_bool("svr_params.box: |alpha_i| <= C", a.iter().all(|v| v.abs() <= c + tol));
    check_bool("svr_params.equality: sum_i alpha_i == 0", a.iter().sum::<f64>().abs() <= tol);
    let f: Vec<f64> = (0..n).map(|i| (0..n).map(|j| a[j] * kf(xs[j], xs[i])).sum::<f64>() - model.rho).collect();
    for i in 0..n {
        let pred: f64 = model.predict(Array1::from_elem(1, xs[i]));
        check_bool("svr_params.decision value == sum_i alpha_i K(x_i, q) - rho", (pred - f[i]).abs() <= 1e-9 * (1.0 + f[i].abs()));
    }
    if which == 0 {
        for i in 0..n {
            let r = t[i] - f[i];
            let free = a[i].abs() > tol && a[i].abs() < c - tol;
            let ok = if a[i].abs() <= tol {
                r.abs() <= loss + tol
            } else if free {
                (r.abs() - loss).abs() <= tol
            } else {
                r.abs() >= loss - tol
            } && (a[i].abs() <= tol || (a[i] > 0.0) == (r > 0.0));
            check_bool("svr_params.KKT for the requested loss epsilon: |residual| <= eps (alpha = 0), == eps (free), >= eps (bounded), sign(alpha) = sign(residual)", ok);
        }
    } else {
        check_bool("svr_params.nu constraint: sum_i |alpha_i| <= C nu n", a.iter().map(|v| v.abs()).sum::<f64>() <= c * nu * n as f64 + tol);
        // the tube is implied: all free vectors share one |residual|, zero coefficients lie inside it, bounded ones outside
        let free: Vec<f64> = (0..n).filter(|&i| a[i].abs() > tol && a[i].abs() < c - tol).map(|i| (t[i] - f[i]).abs()).collect();
        if let Some(&e) = free.first() {
            check_bool("svr_params.nu-SVR: free vectors share one tube width", free.iter().all(|v| (v - e).abs() <= tol));
            for i in 0..n {
                let r = (t[i] - f[i]).abs();
                let ok = if a[i].abs() <= tol { r <= e + tol } else if a[i].abs() >= c - tol { r >= e - tol } else { true };
                check_bool("svr_params.nu-SVR: zero coefficients inside the tube, bounded ones outside", ok);
            }
        }
    }
    symx::observe_usize(model.nsupport());
}

pub fn register(v: &mut Vec<HarnessDef>) {
    harness_sym_or_generic(v);
    v.push(HarnessDef {
        name: "c13.svr_params", property: "C13",
        doc: "epsilon- / nu-regression through the public parameter API on four concrete 1-D points: the solver enumerates (C, loss epsilon or nu, target vector, kernel, shrinking); box, equality, decision value, KKT for the requested epsilon",
        sym: svr_params::<SymF>, native: None,
        functions: &["linfa_svm::SvmParams::{c_svr, nu_svr, eps, shrinking, linear_kernel, gaussian_kernel}", "linfa_svm::regression::{fit_epsilon, fit_nu} (f64 Fit impl)", "linfa_svm::Svm::<f64,f64>::predict / weighted_sum"],
        assumptions: &["x = (0,1,3,4); six target vectors; C in {0.5,1,4}; loss epsilon in {1/16,0.1,0.25,0.5,1}; nu in {0.25,0.5,0.75}; linear and Gaussian(4) kernel; solver tolerance 1e-6, obligations up to 1e-4", "concrete f64 run per configuration (the regression Fit impl is not generic); the solver only enumerates configurations"],
    });
}

fn harness_sym_or_generic(v: &mut Vec<HarnessDef>) {
    // harnesses that use `choice` exist for the symbolic scalar only
    v.push(HarnessDef {
        name: "c13.swap", property: "C13",
        doc: "SolverState::new + swap(i,j) sequences: target/bound/gradient of every position belong to the sample now there; optionally solve() and feasibility + KKT of the written-back solution",
        sym: swap::<SymF>, native: None,
        functions: &["linfa_svm::solver_smo::SolverState::{new, swap, target, bound, max_violating_pair, solve, select_working_set, update, calculate_rho}", "linfa_svm::PermutableKernel::{new, swap_indices, distances, self_distance}", "linfa_kernel::KernelParams::transform (dense_from_fn, KernelMethod::distance)"],
        assumptions: &["n <= 4 samples, concrete label pattern, 1-D points (concrete x0.. or integers in [-B,B])", "bounds integers in [1,4], alpha on the 1/4 grid with 0 <= alpha <= C, integer linear term", "swap pairs are solver-chosen (all pairs, nsw swaps); inv=1 keeps involutive permutations only"],
    });
    v.push(HarnessDef {
        name: "c13.writeback", property: "C13",
        doc: "solve() entered with Q = 0, p = 0 after solver-chosen swaps: alpha_out[sample] == alpha_in[sample]; reg=1: 2n-variable regression state, alpha_i - alpha_{i+n}",
        sym: writeback::<SymF>, native: None,
        functions: &["linfa_svm::solver_smo::SolverState::{new, swap, solve}", "linfa_svm::{PermutableKernel, PermutableKernelRegression}::{new, swap_indices, distances}"],
        assumptions: &["alpha integers in [1,7], bounds 8, zero kernel and zero linear term (the SMO loop exits at once)", "inv=1: involutive permutations only; inv=0: non-involutive only"],
    });
    v.push(HarnessDef {
        name: "c13.rho_nu", property: "C13",
        doc: "calculate_rho() of a nu-constrained state with solver-chosen alpha status per sample: finite, and (r1-r2)/2 between the KKT bounds of the two classes",
        sym: rho_nu::<SymF>, native: None,
        functions: &["linfa_svm::solver_smo::SolverState::{new, calculate_rho, calculate_rho_nu}", "linfa_svm::PermutableKernel::distances"],
        assumptions: &["alpha in {0, 1/2, 1} with bound 1, 1-D integer points, linear kernel, p = 0", "every class has a free vector or both an upper- and a lower-bounded one; the state is class-wise KKT (lb <= ub)"],
    });
    v.push(HarnessDef {
        name: "c13.shrink", property: "C13",
        doc: "do_shrinking() on a C-SVC state with solver-chosen alpha status: does not panic, nactive <= ntotal",
        sym: shrink::<SymF>, native: None,
        functions: &["linfa_svm::solver_smo::SolverState::{new, do_shrinking, should_shrunk, max_violating_pair, reconstruct_gradient, swap, nactive, ntotal}"],
        assumptions: &["alpha in {0, 1/2, 1} with C = 1, p = -1, 1-D integer points, linear kernel, eps = 1/16"],
    });
    harness!(v, "c13.csvc", "C13", csvc,
        "Svm::<F,bool> C-classification through Fit/Predict: box per class weight, equality, KKT within eps, decision value from the published coefficients, label = sign, nsupport, no panic, finite rho",
        ["linfa_svm::SvmValidParams::<F,bool>::fit", "linfa_svm::classification::fit_c", "linfa_svm::solver_smo::SolverState::{new, solve, select_working_set, max_violating_pair, update, calculate_rho, do_shrinking, should_shrunk, reconstruct_gradient, swap}", "linfa_svm::PermutableKernel::{distances, self_distance, swap_indices}", "linfa_svm::Svm::{weighted_sum, nsupport, predict}", "linfa_svm::SvmParams::{pos_neg_weights, eps, shrinking, linear_kernel, polynomial_kernel, check_ref}", "linfa_kernel::{KernelParams::transform, dense_from_fn, KernelMethod::distance}"],
        ["1-D points: integers in [-B,B] (symx=1; distinct=1: pairwise distinct) or concrete x0.. (symx=0); concrete label pattern", "class weights concrete cp/4, cn/4 or symbolic on the 1/4 grid in (0,8] (symw=1)", "kernel linear or (x.x'+1)^2; solver eps = 2^-epsk; query point integer", "alpha is a rounded term: tolerance 2^-20 on every obligation; nsupport: coefficients in (0, 2^-40] may count either way"]);
    harness!(v, "c13.nusvc", "C13", nusvc,
        "Svm::<F,bool> nu-classification through Fit: finite rho, sign/box (1/r recovered from sum|alpha| = nu n / r), equality, KKT within eps/r, decision value",
        ["linfa_svm::SvmValidParams::<F,bool>::fit", "linfa_svm::classification::fit_nu", "linfa_svm::solver_smo::SolverState::{new, solve, select_working_set_nu, max_violating_pair_nu, update, calculate_rho_nu, do_shrinking_nu, should_shrunk_nu}", "linfa_svm::Svm::weighted_sum", "linfa_svm::SvmParams::nu_weight"],
        ["1-D points integers in [-B,B] or concrete; nu = nu/4; kernel linear or (x.x'+1)^2; eps = 2^-epsk", "a division of symbolic coefficients by an infinite r aborts the symbolic run; it is reported under 'rho and the coefficients are finite' and confirmed by the concrete replay", "tolerance 2^-20"]);
    harness!(v, "c13.oneclass", "C13", oneclass,
        "one-class nu-SVM through Fit: box, sum alpha = nu n, KKT within eps, decision value from the published coefficients",
        ["linfa_svm::SvmValidParams::<F,Pr>::fit (one class)", "linfa_svm::classification::fit_one_class", "linfa_svm::PermutableKernelOneClass::{distances, self_distance}", "linfa_svm::solver_smo::SolverState::{new, solve, select_working_set, update, calculate_rho}", "linfa_svm::Svm::weighted_sum"],
        ["1-D integer points in [-B,B], nu = nu/4, kernel linear or (x.x'+1)^2, solver eps = 2^-epsk", "tolerance 2^-20"]);
    harness!(v, "c13.svr", "C13", svr,
        "epsilon-SVR assembled like regression::fit_epsilon and solved by SolverState::solve over PermutableKernelRegression: box, equality, KKT within eps, decision value",
        ["linfa_svm::solver_smo::SolverState::{new, solve, select_working_set, update, calculate_rho} on the 2n-variable regression problem", "linfa_svm::PermutableKernelRegression::{new, distances, self_distance, swap_indices}", "linfa_svm::Svm::weighted_sum"],
        ["problem assembly (linear term, signs) copied from regression::fit_epsilon, whose Fit impl is instantiated for f32/f64 only", "1-D points concrete (symx=0) or integers; integer targets in [-B,B]; C = c/4, loss epsilon = loss/4 > solver eps = 2^-epsk", "tolerance 2^-20"]);
}

//! Shared plumbing of the Engine S harnesses.
use std::collections::BTreeMap;
pub use symx::{assume, assume_bool, check, check_bool, choice, grid, int, note, observe, observe_usize, Scalar, SymB, SymF, SymLabel};

#[derive(Clone, Debug)]
pub struct Params(pub BTreeMap<String, i64>);
impl Params {
    pub fn get(&self, k: &str, default: i64) -> i64 {
        *self.0.get(k).unwrap_or(&default)
    }
    pub fn u(&self, k: &str, default: usize) -> usize {
        self.get(k, default as i64) as usize
    }
}

pub struct HarnessDef {
    pub name: &'static str,
    pub property: &'static str,
    pub doc: &'static str,
    pub sym: fn(&Params),
    pub native: Option<fn(&Params)>,
    /// functions of /repo that this harness drives (entry points and what they call)
    pub functions: &'static [&'static str],
    pub assumptions: &'static [&'static str],
}

/// register a harness whose body is generic over the scalar
#[macro_export]
macro_rules! harness {
    ($v:expr, $name:expr, $prop:expr, $body:ident, $doc:expr, [$($f:expr),* $(,)?], [$($a:expr),* $(,)?]) => {
        $v.push($crate::common::HarnessDef {
            name: $name, property: $prop, doc: $doc,
            sym: $body::<symx::SymF>, native: Some($body::<f64>),
            functions: &[$($f),*], assumptions: &[$($a),*],
        });
    };
}
/// register a harness that only exists for the symbolic scalar (labels, choices)
#[macro_export]
macro_rules! harness_sym {
    ($v:expr, $name:expr, $prop:expr, $body:ident, $doc:expr, [$($f:expr),* $(,)?], [$($a:expr),* $(,)?]) => {
        $v.push($crate::common::HarnessDef {
            name: $name, property: $prop, doc: $doc,
            sym: $body, native: None,
            functions: &[$($f),*], assumptions: &[$($a),*],
        });
    };
}

pub fn all(v: &[SymB]) -> SymB {
    SymB::all(v)
}

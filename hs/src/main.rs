//! hs — harnesses of Engine S.  `hs run <harness> k=v ...` explores one harness instance and prints a
//! JSON report; `hs replay <file>` re-executes a recorded counterexample natively.
mod common;
#[cfg(feature = "c01")]
mod c01;
#[cfg(feature = "c02")]
mod c02;
#[cfg(feature = "c03")]
mod c03;
#[cfg(feature = "c05")]
mod c05;
#[cfg(feature = "c05")]
mod c05roc;
#[cfg(feature = "c06")]
mod c06;
#[cfg(feature = "c07")]
mod c07;
#[cfg(feature = "c08")]
mod c08;
#[cfg(feature = "c09")]
mod c09;
#[cfg(feature = "c11")]
mod c11;
#[cfg(feature = "c12")]
mod c12;
#[cfg(feature = "c13")]
mod c13;
#[cfg(feature = "c14")]
mod c14;
#[cfg(feature = "c15")]
mod c15;
#[cfg(feature = "c16")]
mod c16;
#[cfg(feature = "c19")]
mod c19;
#[cfg(feature = "c19")]
mod c19b;
#[cfg(feature = "c20")]
mod c20;

use common::{HarnessDef, Params};
use std::collections::BTreeMap;

fn registry() -> Vec<HarnessDef> {
    let mut v = Vec::new();
    #[cfg(feature = "c01")]
    c01::register(&mut v);
    #[cfg(feature = "c02")]
    c02::register(&mut v);
    #[cfg(feature = "c03")]
    c03::register(&mut v);
    #[cfg(feature = "c05")]
    c05::register(&mut v);
    #[cfg(feature = "c05")]
    c05roc::register(&mut v);
    #[cfg(feature = "c06")]
    c06::register(&mut v);
    #[cfg(feature = "c07")]
    c07::register(&mut v);
    #[cfg(feature = "c08")]
    c08::register(&mut v);
    #[cfg(feature = "c09")]
    c09::register(&mut v);
    #[cfg(feature = "c11")]
    c11::register(&mut v);
    #[cfg(feature = "c12")]
    c12::register(&mut v);
    #[cfg(feature = "c13")]
    c13::register(&mut v);
    #[cfg(feature = "c14")]
    c14::register(&mut v);
    #[cfg(feature = "c15")]
    c15::register(&mut v);
    #[cfg(feature = "c16")]
    c16::register(&mut v);
    #[cfg(feature = "c19")]
    c19::register(&mut v);
    #[cfg(feature = "c19")]
    c19b::register(&mut v);
    #[cfg(feature = "c20")]
    c20::register(&mut v);
    v
}

fn main() {
    let args: Vec<String> = std::env::args().collect();
    if args.len() < 2 {
        eprintln!("usage: hs list | hs run <harness> [k=v ...] [--max-paths N] [--max-secs S] [--qto MS] [--out FILE] | hs replay <file>");
        std::process::exit(2);
    }
    let reg = registry();
    match args[1].as_str() {
        "list" => {
            for h in &reg {
                println!("{}\t{}\t{}", h.name, h.property, h.doc);
            }
        }
        "run" => {
            let name = &args[2];
            let h = reg.iter().find(|h| h.name == *name).unwrap_or_else(|| {
                eprintln!("unknown harness {}", name);
                std::process::exit(2)
            });
            let mut params: BTreeMap<String, i64> = BTreeMap::new();
            let mut cfg = symx::Config::default();
            let mut out: Option<String> = None;
            let mut jobs: usize = 1;
            let mut work_in: Option<String> = None;
            let mut i = 3;
            while i < args.len() {
                let a = &args[i];
                if a == "--max-paths" {
                    cfg.max_paths = args[i + 1].parse().unwrap();
                    i += 2;
                } else if a == "--max-secs" {
                    cfg.max_secs = args[i + 1].parse().unwrap();
                    i += 2;
                } else if a == "--qto" {
                    cfg.query_timeout_ms = args[i + 1].parse().unwrap();
                    i += 2;
                } else if a == "--solver" {
                    cfg.solver = args[i + 1].clone();
                    i += 2;
                } else if a == "--out" {
                    out = Some(args[i + 1].clone());
                    i += 2;
                } else if a == "--seed" {
                    let seed: u64 = args[i + 1].parse().unwrap();
                    // the seed picks the first concrete input (exploration order), not the explored set
                    let mut x = seed.wrapping_mul(0x9E37_79B9_7F4A_7C15) | 1;
                    cfg.first_inputs = (0..64).map(|_| { x ^= x << 13; x ^= x >> 7; x ^= x << 17; (x % 7) as i64 - 3 }).collect();
                    i += 2;
                } else if a == "--max-violations" {
                    cfg.max_violations = args[i + 1].parse().unwrap();
                    i += 2;
                } else if a == "--solver2" {
                    cfg.solver2 = Some(args[i + 1].clone());
                    i += 2;
                } else if a == "--random-pop" {
                    cfg.random_pop = Some(args[i + 1].parse().unwrap());
                    i += 2;
                } else if a == "--closure" {
                    cfg.closure = true;
                    i += 1;
                } else if a == "--witnesses" {
                    cfg.n_witnesses = args[i + 1].parse().unwrap();
                    i += 2;
                } else if a == "--jobs" {
                    jobs = args[i + 1].parse().unwrap();
                    i += 2;
                } else if a == "--work-in" {
                    work_in = Some(args[i + 1].clone());
                    i += 2;
                } else if a == "-v" {
                    cfg.verbose = true;
                    i += 1;
                } else if let Some((k, v)) = a.split_once('=') {
                    params.insert(k.to_string(), v.parse().expect("integer parameter"));
                    i += 1;
                } else {
                    eprintln!("bad argument {}", a);
                    std::process::exit(2);
                }
            }
            let p = Params(params.clone());
            let pstr: Vec<String> = params.iter().map(|(k, v)| format!("{}={}", k, v)).collect();
            cfg.name = format!("{} {}", h.name, pstr.join(" "));
            let sym = || (h.sym)(&p);
            let nat = || (h.native.unwrap())(&p);
            if let Some(f) = &work_in {
                cfg.initial_work = serde_json::from_str(&std::fs::read_to_string(f).expect("work file")).expect("work file json");
            }
            if jobs > 1 {
                cfg.frontier_target = 8 * jobs;
            }
            let t_start = std::time::Instant::now();
            let mut rep = if h.native.is_some() { symx::explore(&cfg, &sym, Some(&nat)) } else { symx::explore(&cfg, &sym, None) };
            if !rep.frontier.is_empty() && rep.violations.is_empty() {
                // shard the remaining exploration over `jobs` child processes (one solver each)
                let items = std::mem::take(&mut rep.frontier);
                let dir = std::env::temp_dir().join(format!("hs-shards-{}", std::process::id()));
                let dir = std::env::var("SYMX_SCRATCH").map(std::path::PathBuf::from).unwrap_or(dir);
                std::fs::create_dir_all(&dir).unwrap();
                let exe = std::env::current_exe().unwrap();
                let remaining = (cfg.max_secs - t_start.elapsed().as_secs_f64()).max(5.0);
                let mut kids = vec![];
                for j in 0..jobs {
                    let mine: Vec<&symx::explore::WorkItem> = items.iter().enumerate().filter(|(i, _)| i % jobs == j).map(|(_, w)| w).collect();
                    if mine.is_empty() {
                        continue;
                    }
                    let wf = dir.join(format!("work-{}-{}.json", std::process::id(), j));
                    let of = dir.join(format!("out-{}-{}.json", std::process::id(), j));
                    std::fs::write(&wf, serde_json::to_string(&mine).unwrap()).unwrap();
                    let mut c = std::process::Command::new(&exe);
                    c.arg("run").arg(name);
                    for (k, v) in &params {
                        c.arg(format!("{}={}", k, v));
                    }
                    c.args(["--max-secs", &format!("{}", remaining), "--max-paths", &format!("{}", cfg.max_paths), "--qto", &format!("{}", cfg.query_timeout_ms), "--solver", &cfg.solver]);
                    c.args(["--witnesses", &format!("{}", cfg.n_witnesses / jobs + 1)]);
                    if cfg.closure {
                        c.arg("--closure");
                    }
                    if let Some(s2) = &cfg.solver2 {
                        c.args(["--solver2", s2]);
                    }
                    if let Some(sd) = cfg.random_pop {
                        c.args(["--random-pop", &format!("{}", sd + j as u64 + 1)]);
                    }
                    c.arg("--work-in").arg(&wf).arg("--out").arg(&of);
                    kids.push((c.spawn().expect("spawn shard"), wf, of));
                }
                for (mut k, wf, of) in kids {
                    let st = k.wait().unwrap();
                    let txt = std::fs::read_to_string(&of).unwrap_or_default();
                    match serde_json::from_str::<serde_json::Value>(&txt).ok().and_then(|j| serde_json::from_value::<symx::Report>(j["report"].clone()).ok()) {
                        Some(r) if st.success() => rep.merge(&r),
                        _ => {
                            rep.exhaustive = false;
                            rep.notes.push(format!("shard failed: status {:?}", st));
                        }
                    }
                    let _ = std::fs::remove_file(wf);
                    let _ = std::fs::remove_file(of);
                }
                let _ = std::fs::remove_dir(&dir);
                if cfg.closure && rep.closure.is_empty() {
                    if rep.exhaustive {
                        symx::explore::run_closure(&mut rep, &cfg.solver, Some(&|| (h.sym)(&p)));
                    } else {
                        rep.closure = "skipped: the exploration did not close".into();
                        rep.path_conditions.clear();
                    }
                }
                rep.wall_s = t_start.elapsed().as_secs_f64();
            }
            let j = serde_json::json!({
                "harness": h.name, "property": h.property, "params": params, "doc": h.doc,
                "functions": h.functions, "assumptions": h.assumptions, "report": rep,
            });
            let txt = serde_json::to_string_pretty(&j).unwrap();
            match out {
                Some(f) => std::fs::write(f, txt).unwrap(),
                None => println!("{}", txt),
            }
        }
        "observe" => {
            // hs observe <harness> <inputs.json> k=v ... : native f64 outputs for each input vector (one JSON line each)
            let name = &args[2];
            let h = reg.iter().find(|h| h.name == *name).expect("unknown harness");
            let vecs: Vec<Vec<i64>> = serde_json::from_str(&std::fs::read_to_string(&args[3]).expect("inputs file")).unwrap();
            let mut params: BTreeMap<String, i64> = BTreeMap::new();
            for a in &args[4..] {
                if let Some((k, v)) = a.split_once('=') {
                    params.insert(k.to_string(), v.parse().unwrap());
                }
            }
            let p = Params(params);
            symx::explore::install_panic_hook();
            let nat = h.native.expect("harness has no native instantiation");
            let mut outs: Vec<Vec<u64>> = vec![];
            for inp in &vecs {
                let o = symx::run_once(false, inp, &|| nat(&p));
                outs.push(o.arena.observations.clone());
            }
            println!("{}", serde_json::to_string(&outs).unwrap());
        }
        "trace" => {
            // hs trace <harness> <comma separated inputs> k=v ... : one symbolic run, prints the recorded decisions
            let name = &args[2];
            let h = reg.iter().find(|h| h.name == *name).expect("unknown harness");
            let inputs: Vec<i64> = args[3].split(',').filter(|s| !s.is_empty()).map(|s| s.parse().unwrap()).collect();
            let mut params: BTreeMap<String, i64> = BTreeMap::new();
            for a in &args[4..] {
                if let Some((k, v)) = a.split_once('=') {
                    params.insert(k.to_string(), v.parse().unwrap());
                }
            }
            let p = Params(params);
            symx::explore::install_panic_hook();
            let o = symx::run_once(true, &inputs, &|| (h.sym)(&p));
            println!("abort={:?} panic={:?} vars={}", o.abort, o.panic_msg, o.arena.vars.len());
            for (j, ev) in o.arena.trace.iter().enumerate() {
                let pc = symx::solver::inline_path_condition_one(&o.arena, j);
                println!("{:3} {:?} outcome={} sig={:x} {}", j, ev.kind, ev.outcome, o.arena.bools[ev.cond as usize].2, pc.unwrap_or_default());
            }
        }
        "replay" => {
            // file: {"harness":..., "params":{...}, "inputs":[...]}
            let txt = std::fs::read_to_string(&args[2]).expect("replay file");
            let j: serde_json::Value = serde_json::from_str(&txt).unwrap();
            let name = j["harness"].as_str().unwrap();
            let h = reg.iter().find(|h| h.name == name).expect("unknown harness in replay file");
            let params: BTreeMap<String, i64> = j["params"].as_object().unwrap().iter().map(|(k, v)| (k.clone(), v.as_i64().unwrap())).collect();
            let inputs: Vec<i64> = j["inputs"].as_array().unwrap().iter().map(|v| v.as_i64().unwrap()).collect();
            let p = Params(params);
            symx::explore::install_panic_hook();
            let f: Box<dyn Fn()> = match h.native {
                Some(nat) => Box::new(move || nat(&p)),
                None => {
                    let s = h.sym;
                    Box::new(move || s(&p))
                }
            };
            let out = symx::run_once(false, &inputs, &*f);
            let mut fails: Vec<String> = out.arena.bool_failures.clone();
            for ob in &out.arena.obligations {
                if !out.arena.bval(ob.cond) {
                    fails.push(ob.name.clone());
                }
            }
            if let Some(m) = out.panic_msg {
                fails.push(format!("panic: {}", m));
            }
            println!("replay {} native_scalar={} inputs={:?}", name, h.native.is_some(), inputs);
            if fails.is_empty() {
                println!("REPLAY-OK: all obligations hold on this input");
            } else {
                println!("REPLAY-FAIL: {}", fails.join("; "));
                std::process::exit(1);
            }
        }
        _ => {
            eprintln!("unknown command");
            std::process::exit(2);
        }
    }
}

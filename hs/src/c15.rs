//! C15 — incremental fitting: Gaussian / multinomial naive Bayes (batch == incremental == textbook),
//! mini-batch k-means (running mean with cumulative counts, verdict), FTRL (z / n recurrence, sparsity).
//!
//! The naive-Bayes models keep their statistics private; they are read through the crates' own serde
//! support (`serde_json::to_value(&model)`): class_count, prior, theta/sigma resp. feature_count/feature_log_prob.
use crate::c09::{close, model_with, pow2_at_least, rdist, row, sym_matrix, Dst, NoStop, SS};
use crate::common::*;
use crate::harness;
use linfa::prelude::*;
use linfa_bayes::{GaussianNb, MultinomialNb};
use linfa_clustering::{IncrKMeansError, KMeans, KMeansInit};
use linfa_ftrl::Ftrl;
use linfa_nn::distance::{L1Dist, L2Dist};
use ndarray::{Array1, Array2, Axis};
use rand_xoshiro::rand_core::SeedableRng;
use rand_xoshiro::Xoshiro256Plus;
use std::collections::BTreeMap;

fn fabs<F: Scalar>(x: F) -> F {
    num_traits::Float::abs(x)
}
fn fmax<F: Scalar>(a: F, b: F) -> F {
    num_traits::Float::max(a, b)
}
fn k<F: Scalar>(v: f64) -> F {
    F::lit(v)
}

/// label vector number `pattern` in base `classes`
fn labels_of(pattern: usize, n: usize, classes: usize) -> Vec<usize> {
    let mut p = pattern;
    (0..n).map(|_| { let l = p % classes; p /= classes; l }).collect()
}
/// contiguous batches from the cut mask (bit i set = cut between row i and i+1)
fn batches_of(mask: usize, n: usize) -> Vec<(usize, usize)> {
    let mut out = vec![];
    let mut lo = 0;
    for i in 0..n - 1 {
        if mask >> i & 1 == 1 {
            out.push((lo, i + 1));
            lo = i + 1;
        }
    }
    out.push((lo, n));
    out
}
fn masks(p: &Params, n: usize) -> Vec<usize> {
    match p.get("split", -1) {
        -1 => (1..(1usize << (n - 1))).filter(|m| m.count_ones() <= p.get("maxcuts", 2) as u32).collect(),
        m => vec![m as usize],
    }
}
fn sub<F: Scalar>(x: &Array2<F>, y: &[usize], lo: usize, hi: usize) -> DatasetBase<Array2<F>, Array1<usize>> {
    DatasetBase::new(x.slice_axis(Axis(0), ndarray::Slice::from(lo..hi)).to_owned(), Array1::from(y[lo..hi].to_vec()))
}

struct ClassStats<F> {
    count: usize,
    prior: F,
    a: Vec<F>, // theta | feature_count
    b: Vec<F>, // sigma | feature_log_prob
}
/// per-class statistics of a fitted naive-Bayes model, via its serde representation
fn stats<F: SS, M: serde::Serialize>(model: &M, fa: &str, fb: &str) -> BTreeMap<usize, ClassStats<F>> {
    let v = serde_json::to_value(model).expect("model to json");
    let mut out = BTreeMap::new();
    for (key, info) in v["class_info"].as_object().expect("class_info") {
        let arr = |f: &str| -> Vec<F> { serde_json::from_value::<Array1<F>>(info[f].clone()).expect("array field").to_vec() };
        out.insert(key.parse::<usize>().expect("usize class"), ClassStats {
            count: info["class_count"].as_u64().expect("class_count") as usize,
            prior: serde_json::from_value::<F>(info["prior"].clone()).expect("prior"),
            a: arr(fa),
            b: arr(fb),
        });
    }
    out
}

/// sums over the rows of class c: (count, sum_j, sum of squares_j)
fn class_sums<F: Scalar>(x: &Array2<F>, y: &[usize], c: Option<usize>) -> (usize, Vec<F>, Vec<F>) {
    let d = x.ncols();
    let (mut cnt, mut s, mut q) = (0, vec![k::<F>(0.0); d], vec![k::<F>(0.0); d]);
    for i in 0..x.nrows() {
        if c.map_or(true, |c| y[i] == c) {
            cnt += 1;
            for j in 0..d {
                s[j] = s[j] + x[(i, j)];
                q[j] = q[j] + x[(i, j)] * x[(i, j)];
            }
        }
    }
    (cnt, s, q)
}

// ------------------------------------------------------------------------------------------------
/// Gaussian NB: `fit` on the whole data and `fit_with` over every split into contiguous batches, both
/// against the textbook estimates.  vs = var_smoothing selector (0 -> 0, s>0 -> 2^-s).
/// ob: 0 = everything except "incremental sigma", 1 = only "incremental sigma == batch sigma / textbook".
fn gnb<F: SS>(p: &Params) {
    let (n, d, classes, b) = (p.u("n", 3), p.u("d", 1), p.u("classes", 2), p.get("B", 16));
    let (vs_sel, ob, mutate) = (p.u("vs", 0), p.u("ob", 0), p.u("mut", 0));
    let y = labels_of(p.u("pattern", 1), n, classes);
    let x = sym_matrix::<F>("x", n, d, b);
    let vs = if vs_sel == 0 { 0.0 } else { 0.5f64.powi(vs_sel as i32) };
    let params = GaussianNb::<F, usize>::params().var_smoothing(k(vs));
    let nf = n as f64;
    let scale = 1.0 + (b * b) as f64 * nf.powi(4);
    let tol = pow2_at_least(1e-9 * scale);
    // textbook: n^2 * Var_j(all rows) = n*sum x^2 - (sum x)^2 ; eps = vs * max_j Var_j
    let (_, s_all, q_all) = class_sums(&x, &y, None);
    let mut n2_maxvar = k::<F>(nf) * q_all[0] - s_all[0] * s_all[0];
    for j in 1..d {
        n2_maxvar = fmax(n2_maxvar, k::<F>(nf) * q_all[j] - s_all[j] * s_all[j]);
    }
    let present: Vec<usize> = (0..classes).filter(|c| y.contains(c)).collect();
    let check_model = |tag: &str, st: &BTreeMap<usize, ClassStats<F>>, with_sigma: bool, only_sigma: bool| {
        if !only_sigma {
            check_bool(&format!("gnb.{}: exactly the classes present in the data", tag), st.keys().copied().collect::<Vec<_>>() == present);
        }
        for &c in &present {
            let Some(cs) = st.get(&c) else { continue };
            let (cnt, s, q) = class_sums(&x, &y, Some(c));
            let cf = cnt as f64;
            if !only_sigma {
                check_bool(&format!("gnb.{}: class_count is the number of rows of the class", tag), cs.count == cnt);
                check(&format!("gnb.{}: prior is the class frequency", tag), close(cs.prior * k(nf), k(cf), pow2_at_least(1e-9)));
                check_bool(&format!("gnb.{}: one mean and one variance per feature", tag), cs.a.len() == d && cs.b.len() == d);
            }
            if cs.a.len() != d || cs.b.len() != d {
                continue;
            }
            for j in 0..d {
                if !only_sigma {
                    let want = if mutate == 1 { s[j] + k(1.0) } else { s[j] };
                    check(&format!("gnb.{}: theta is the per-class mean", tag), close(cs.a[j] * k(cf), want, tol));
                }
                if with_sigma {
                    // sigma = Var_c + vs*maxVar  <=>  sigma*cnt^2*n^2 = n^2*(cnt*q - s^2) + vs*cnt^2*(n^2 maxVar)
                    let lhs = cs.b[j] * k(cf * cf * nf * nf);
                    let rhs = k::<F>(nf * nf) * (k::<F>(cf) * q[j] - s[j] * s[j]) + k::<F>(vs * cf * cf) * n2_maxvar;
                    let rhs = if mutate == 2 { rhs + k(1.0) } else { rhs };
                    check(&format!("gnb.{}: sigma is the per-class variance plus var_smoothing * largest feature variance", tag), close(lhs, rhs, tol));
                }
            }
        }
    };
    let batch = params.fit(&DatasetBase::new(x.clone(), Array1::from(y.clone()))).expect("gnb fit");
    let sb = stats::<F, _>(&batch, "theta", "sigma");
    // part: 0 = batch and incremental models, 1 = batch only, 2 = incremental only
    let part = p.u("part", 0);
    if ob == 0 && part != 2 {
        check_model("fit", &sb, true, false);
    }
    // sigma comes out of ndarray's var_axis, whose `mul_add` is fused for f64 and two operations on the symbolic
    // scalar (last-bit differences once a division by 3 has rounded): observed on a 2^-10 grid
    let coarse = |v: F| observe_usize((v.shadow() * 1024.0).round().max(0.0) as usize);
    for st in sb.values() {
        observe(st.prior);
        for v in st.a.iter() {
            observe(*v);
        }
        for v in st.b.iter() {
            coarse(*v);
        }
    }
    for mask in if part == 1 { vec![] } else { masks(p, n) } {
        let mut model = None;
        for (lo, hi) in batches_of(mask, n) {
            model = params.fit_with(model, &sub(&x, &y, lo, hi)).expect("gnb fit_with");
        }
        let si = stats::<F, _>(&model.expect("model after the last batch"), "theta", "sigma");
        if ob == 0 {
            check_model("fit_with", &si, false, false);
        } else {
            check_model("fit_with", &si, true, true);
        }
        for st in si.values() {
            for v in st.a.iter() {
                observe(*v);
            }
            for v in st.b.iter() {
                coarse(*v);
            }
        }
    }
}

// ------------------------------------------------------------------------------------------------
/// multinomial NB: counts, priors, feature counts and smoothed log-frequencies; alpha selector a: 0 -> 1, s -> 2^-s
fn mnb<F: SS>(p: &Params) {
    let (n, d, classes, b) = (p.u("n", 3), p.u("d", 2), p.u("classes", 2), p.get("B", 16));
    let (a_sel, mutate) = (p.u("a", 0), p.u("mut", 0));
    let y = labels_of(p.u("pattern", 1), n, classes);
    let mut x = Array2::from_elem((n, d), k::<F>(0.0));
    for i in 0..n {
        for j in 0..d {
            x[(i, j)] = int::<F>(&format!("x{}_{}", i, j), 0, b);
        }
    }
    let alpha = 0.5f64.powi(a_sel as i32);
    let params = MultinomialNb::<F, usize>::params().alpha(k(alpha));
    let nf = n as f64;
    let present: Vec<usize> = (0..classes).filter(|c| y.contains(c)).collect();
    let check_model = |tag: &str, st: &BTreeMap<usize, ClassStats<F>>| {
        check_bool(&format!("mnb.{}: exactly the classes present in the data", tag), st.keys().copied().collect::<Vec<_>>() == present);
        for &c in &present {
            let Some(cs) = st.get(&c) else { continue };
            let (cnt, s, _) = class_sums(&x, &y, Some(c));
            check_bool(&format!("mnb.{}: class_count is the number of rows of the class", tag), cs.count == cnt);
            check(&format!("mnb.{}: prior is the class frequency", tag), close(cs.prior * k(nf), k(cnt as f64), pow2_at_least(1e-9)));
            check_bool(&format!("mnb.{}: one count and one log-probability per feature", tag), cs.a.len() == d && cs.b.len() == d);
            if cs.a.len() != d || cs.b.len() != d {
                continue;
            }
            let mut total = k::<F>(0.0);
            for j in 0..d {
                total = total + s[j];
            }
            let total = total + k(alpha * d as f64);
            for j in 0..d {
                let want = if mutate == 1 { s[j] + k(1.0) } else { s[j] };
                check(&format!("mnb.{}: feature_count is the per-class sum of the feature", tag), cs.a[j].s_eq(want));
                // ln((N_cj + alpha) / (N_c + alpha*d)) = ln(N_cj + alpha) - ln(N_c + alpha*d)
                let num = s[j] + k(alpha);
                let num = if mutate == 2 { num + k(1.0) } else { num };
                let want = num_traits::Float::ln(num) - num_traits::Float::ln(total);
                check(&format!("mnb.{}: feature_log_prob is the log of the additively smoothed frequency", tag), close(cs.b[j], want, pow2_at_least(1e-9)));
            }
        }
    };
    let batch = params.fit(&DatasetBase::new(x.clone(), Array1::from(y.clone()))).expect("mnb fit");
    let sb = stats::<F, _>(&batch, "feature_count", "feature_log_prob");
    check_model("fit", &sb);
    for st in sb.values() {
        observe(st.prior);
        for v in st.a.iter().chain(st.b.iter()) {
            observe(*v);
        }
    }
    for mask in masks(p, n) {
        let mut model = None;
        for (lo, hi) in batches_of(mask, n) {
            model = params.fit_with(model, &sub(&x, &y, lo, hi)).expect("mnb fit_with");
        }
        let si = stats::<F, _>(&model.expect("model after the last batch"), "feature_count", "feature_log_prob");
        check_model("fit_with", &si);
        for st in si.values() {
            for v in st.a.iter().chain(st.b.iter()) {
                observe(*v);
            }
        }
    }
}

// ------------------------------------------------------------------------------------------------
/// predictions maximise the posterior computed from the model's own (checked) statistics.
/// kind 0 = Gaussian (batch model), 1 = Gaussian (two batches), 2 = multinomial (batch), 3 = multinomial (two batches)
fn nb_predict<F: SS>(p: &Params) {
    let (n, d, classes, b, q) = (p.u("n", 3), p.u("d", 1), p.u("classes", 2), p.get("B", 8), p.u("q", 1));
    let (kind, mutate) = (p.u("kind", 0), p.u("mut", 0));
    let y = labels_of(p.u("pattern", 1), n, classes);
    let lo_x = if kind >= 2 { 0 } else { -b };
    let mut x = Array2::from_elem((n, d), k::<F>(0.0));
    for i in 0..n {
        for j in 0..d {
            x[(i, j)] = int::<F>(&format!("x{}_{}", i, j), lo_x, b);
        }
    }
    let mut qs = Array2::from_elem((q, d), k::<F>(0.0));
    for i in 0..q {
        for j in 0..d {
            qs[(i, j)] = int::<F>(&format!("q{}_{}", i, j), lo_x, b);
        }
    }
    let cut = p.u("cut", n / 2).clamp(1, n - 1);
    let whole = DatasetBase::new(x.clone(), Array1::from(y.clone()));
    let tol = pow2_at_least(1e-9 * (1.0 + (b * b) as f64));
    // (class, joint log likelihood of each query row) recomputed from the model's statistics, and the labels predicted
    let (jll, pred): (Vec<(usize, Vec<F>)>, Array1<usize>) = if kind < 2 {
        let params = GaussianNb::<F, usize>::params().var_smoothing(k(0.5f64.powi(p.get("vs", 4) as i32)));
        let model = if kind == 0 { params.fit(&whole).expect("fit") } else {
            let m = params.fit_with(None, &sub(&x, &y, 0, cut)).expect("fit_with");
            params.fit_with(m, &sub(&x, &y, cut, n)).expect("fit_with").expect("model")
        };
        let st = stats::<F, _>(&model, "theta", "sigma");
        if p.u("ob", 0) == 1 {
            // isolated: a usable (positive) variance in the batch model must be usable in the incremental one too
            let sb = stats::<F, _>(&params.fit(&whole).expect("fit"), "theta", "sigma");
            for (c, cs) in &st {
                for j in 0..d {
                    check("nb_predict.incremental sigma is positive wherever the batch sigma is", k::<F>(0.0).s_lt(sb[c].b[j]).implies(k::<F>(0.0).s_lt(cs.b[j])));
                }
            }
            return;
        }
        // zero variance and zero smoothing make the likelihood undefined (division by sigma): outside the claim
        for cs in st.values() {
            for s in &cs.b {
                assume(k::<F>(0.0).s_lt(*s));
            }
        }
        let jll = st.iter().map(|(c, cs)| {
            (*c, (0..q).map(|i| {
                // -0.5*sum ln(2 pi sigma) - 0.5*sum (x-theta)^2/sigma + ln prior
                let mut lognorm = k::<F>(0.0);
                for s in &cs.b {
                    lognorm = lognorm + num_traits::Float::ln(k::<F>(2.0 * std::f64::consts::PI) * *s);
                }
                let mut quad = k::<F>(0.0);
                for j in 0..d {
                    let dx = qs[(i, j)] - cs.a[j];
                    quad = quad + dx * dx / cs.b[j];
                }
                (k::<F>(-0.5) * lognorm - quad * k(0.5)) + num_traits::Float::ln(cs.prior)
            }).collect())
        }).collect();
        (jll, model.predict(&qs))
    } else {
        let params = MultinomialNb::<F, usize>::params().alpha(k(0.5f64.powi(p.get("a", 0) as i32)));
        let model = if kind == 2 { params.fit(&whole).expect("fit") } else {
            let m = params.fit_with(None, &sub(&x, &y, 0, cut)).expect("fit_with");
            params.fit_with(m, &sub(&x, &y, cut, n)).expect("fit_with").expect("model")
        };
        let st = stats::<F, _>(&model, "feature_count", "feature_log_prob");
        let jll = st.iter().map(|(c, cs)| {
            (*c, (0..q).map(|i| {
                let mut dot = k::<F>(0.0);
                for j in 0..d {
                    dot = dot + qs[(i, j)] * cs.b[j];
                }
                dot + num_traits::Float::ln(cs.prior)
            }).collect())
        }).collect();
        (jll, model.predict(&qs))
    };
    check_bool("nb_predict.one label per query row", pred.len() == q);
    for i in 0..q.min(pred.len()) {
        let mine = jll.iter().find(|(c, _)| *c == pred[i]);
        check_bool("nb_predict.the predicted label is a class of the model", mine.is_some());
        if let Some((_, l)) = mine {
            for (c, other) in &jll {
                if *c != pred[i] {
                    let o = if mutate == 1 { other[i] + k(1.0) } else { other[i] };
                    check("nb_predict.the predicted class maximises the joint log-likelihood", (o - l[i]).s_le(k(tol)));
                }
            }
        }
        if kind >= 2 {
            // (Gaussian: sigma comes out of a fused mul_add natively, so an exact posterior tie may fall the other way)
            observe_usize(pred[i]);
        }
    }
}

// ------------------------------------------------------------------------------------------------
fn assignments(n: usize, kk: usize) -> Vec<Vec<usize>> {
    let mut out = vec![vec![]];
    for _ in 0..n {
        out = out.iter().flat_map(|a: &Vec<usize>| (0..kk).map(move |j| { let mut b = a.clone(); b.push(j); b })).collect();
    }
    out
}

/// mini-batch k-means: `fit_with` over `nb` batches of `bs` rows from a precomputed start.
/// metric 1 = L1Dist (verdict checked), 2 = L2Dist (verdict goes through the concretising L2Dist::distance: payload only)
fn mbk_d<F: SS, D: Dst<F>>(p: &Params, dist: D, pw: usize, verdict: bool) {
    let (nb, bs, kk, d, b) = (p.u("nb", 2), p.u("bs", 2), p.u("k", 2), p.u("d", 1), p.get("B", 16));
    let mutate = p.u("mut", 0);
    let tol_param = 0.5f64.powi(p.get("tolshift", 1) as i32);
    let c0 = sym_matrix::<F>("c", kk, d, b);
    let xs: Vec<Array2<F>> = (0..nb).map(|t| sym_matrix::<F>(&format!("b{}x", t), bs, d, b)).collect();
    let params = KMeans::params_with(kk, Xoshiro256Plus::seed_from_u64(42), dist.clone()).init_method(KMeansInit::Precomputed(c0.clone())).tolerance(k(tol_param));
    let scale = if pw == 1 { (2 * b * d as i64) as f64 } else { (d as i64 * 4 * b * b) as f64 };
    let tol = pow2_at_least(1e-9 * (1.0 + scale) * (nb * bs + 1) as f64);
    let mut model: Option<KMeans<F, D>> = None;
    let mut prev_c = c0.clone();
    let mut prev_cnt = vec![0usize; kk];
    for t in 0..nb {
        let ds = DatasetBase::from(xs[t].clone());
        let (m, ok) = match params.fit_with(model.take(), &ds) {
            Ok(m) => (m, true),
            Err(IncrKMeansError::NotConverged(m)) => (m, false),
            Err(e) => panic!("unexpected error {}", e),
        };
        let cur = m.centroids().clone();
        check_bool("mbk.exactly k centroids of the data's dimension", cur.dim() == (kk, d));
        let cnt: Vec<f64> = m.cluster_count().iter().map(|c| c.shadow()).collect();
        let cnt_ok = cnt.len() == kk && cnt.iter().all(|c| *c >= 0.0 && c.fract() == 0.0);
        check_bool("mbk.cumulative counts are non-negative integers, one per cluster", cnt_ok);
        if cur.dim() != (kk, d) || !cnt_ok {
            return;
        }
        let cnt: Vec<usize> = cnt.iter().map(|c| *c as usize).collect();
        check_bool("mbk.counts grow by the batch size", cnt.iter().sum::<usize>() == prev_cnt.iter().sum::<usize>() + bs);
        // distances to the centroids before the update; tolerance only once they went through divisions
        let dtol = if t == 0 { 0.0 } else { pow2_at_least(1e-9 * (1.0 + scale)) };
        let dd: Vec<Vec<F>> = (0..bs).map(|i| (0..kk).map(|j| rdist(pw, &row(&prev_c, j), &row(&xs[t], i))).collect()).collect();
        let minimal = |i: usize, j: usize| SymB::all(&(0..kk).filter(|&o| o != j).map(|o| if dtol == 0.0 { dd[i][j].s_le(dd[i][o]) } else { (dd[i][j] - dd[i][o]).s_le(k(dtol)) }).collect::<Vec<_>>());
        let mut options = vec![];
        for a in assignments(bs, kk) {
            let add: Vec<usize> = (0..kk).map(|c| a.iter().filter(|&&v| v == c).count()).collect();
            if (0..kk).any(|c| prev_cnt[c] + add[c] != cnt[c]) {
                continue; // the reported cumulative counts must be realised by the assignment
            }
            let mut conj: Vec<SymB> = (0..bs).map(|i| minimal(i, a[i])).collect();
            for c in 0..kk {
                for j in 0..d {
                    if add[c] == 0 {
                        conj.push(close(cur[(c, j)], prev_c[(c, j)], 0.0));
                        continue;
                    }
                    // running mean: new*(old_count + m) = old*old_count + sum of the batch points of the cluster
                    let mut s = prev_c[(c, j)] * k(prev_cnt[c] as f64);
                    for i in 0..bs {
                        if a[i] == c {
                            s = s + xs[t][(i, j)];
                        }
                    }
                    let s = if mutate == 1 { s + k(1.0) } else { s };
                    conj.push(close(cur[(c, j)] * k(cnt[c] as f64), s, tol));
                }
            }
            options.push(SymB::all(&conj));
        }
        check("mbk.centroids follow the running mean of their nearest batch points with cumulative counts", SymB::any(&options));
        // inertia of the batch w.r.t. the centroids the batch was assigned with
        let mut total = k::<F>(0.0);
        for i in 0..bs {
            let mut mn = dd[i][0];
            for j in 1..kk {
                mn = num_traits::Float::min(mn, dd[i][j]);
            }
            total = total + mn;
        }
        let total = if mutate == 2 { total + k(1.0) } else { total };
        check("mbk.inertia is the mean minimal distance of the batch", close(m.inertia() * k(bs as f64), total, tol));
        if verdict {
            // Ok <=> distance(old centroids, new centroids) < tolerance (L1: sum of absolute shifts)
            let mut shift = k::<F>(0.0);
            for (o, c) in prev_c.iter().zip(cur.iter()) {
                shift = shift + fabs(*o - *c);
            }
            let conv = shift.s_lt(k(tol_param));
            let conv = if mutate == 3 { conv.not() } else { conv };
            check("mbk.Ok is returned exactly when the centroid shift is below the tolerance", if ok { conv } else { conv.not() });
        }
        for v in cur.iter() {
            observe(*v);
        }
        observe(m.inertia());
        observe_usize(ok as usize);
        prev_c = cur;
        prev_cnt = cnt;
        model = Some(m);
    }
}
fn mbk<F: SS>(p: &Params) {
    match p.u("metric", 1) {
        1 => mbk_d::<F, L1Dist>(p, L1Dist, 1, true),
        2 => mbk_d::<F, L2Dist>(p, L2Dist, 2, false),
        3 => mbk_d::<F, NoStop<L1Dist>>(p, NoStop(L1Dist), 1, false),
        _ => mbk_d::<F, NoStop<L2Dist>>(p, NoStop(L2Dist), 2, false),
    }
}

// ------------------------------------------------------------------------------------------------
fn ftrl_model<F: SS>(alpha: f64, beta: f64, l1: f64, l2: f64, z: &Array1<F>, n: &Array1<F>) -> Ftrl<F> {
    // hyper-parameters as documented; the state (z, n) is injected through the crate's serde support
    let v = serde_json::json!({
        "alpha": serde_json::to_value(k::<F>(alpha)).unwrap(), "beta": serde_json::to_value(k::<F>(beta)).unwrap(),
        "l1_ratio": serde_json::to_value(k::<F>(l1)).unwrap(), "l2_ratio": serde_json::to_value(k::<F>(l2)).unwrap(),
        "z": serde_json::to_value(z).unwrap(), "n": serde_json::to_value(n).unwrap(),
    });
    serde_json::from_value(v).expect("Ftrl from serde")
}
fn pr_of(code: usize) -> f32 {
    [0.5f32, 0.25, 0.75, 0.0, 1.0][code % 5]
}

/// FTRL: weights from (z, n), and one `update` with given probabilities against the documented recurrence
///   g = sum_i (p_i - y_i) x_i ; sigma = (sqrt(n + g^2) - sqrt(n)) / alpha ; z += g - sigma*w ; n += g^2
/// mode 0: symbolic state, given probabilities (Ftrl::update).  mode 1: fit_with == update with the model's
/// own predictions (the probabilities are concretised f32 `Pr` values on both sides).
fn ftrl<F: SS>(p: &Params) {
    let (rows, d, b) = (p.u("n", 1), p.u("d", 1), p.get("B", 8));
    let (mode, mutate) = (p.u("mode", 0), p.u("mut", 0));
    let (alpha, beta) = (0.5f64.powi(p.get("alpha_shift", 1) as i32), p.get("beta", 1) as f64);
    let (l1, l2) = (p.get("l1_q", 2) as f64 / 4.0, p.get("l2_q", 2) as f64 / 4.0);
    let labels: Vec<bool> = (0..rows).map(|i| p.u("labels", 1) >> i & 1 == 1).collect();
    let z0 = Array1::from_iter((0..d).map(|j| grid::<F>(&format!("z{}", j), 4 * b, 2)));
    let n0 = Array1::from_iter((0..d).map(|j| int::<F>(&format!("n{}", j), 0, b * b)));
    let x = sym_matrix::<F>("x", rows, d, b);
    let ds = DatasetBase::new(x.clone(), Array1::from(labels.clone()));
    let model = ftrl_model(alpha, beta, l1, l2, &z0, &n0);
    let tol = pow2_at_least(1e-9 * (1.0 + (b * b * b) as f64));

    // ---- weights: exactly zero iff |z| <= l1, otherwise the proximal solution with the opposite sign of z
    let w = model.get_weights();
    check_bool("ftrl.one weight per feature", w.len() == d);
    if w.len() != d {
        return;
    }
    for j in 0..d {
        let small = fabs(z0[j]).s_le(k(l1));
        let small = if mutate == 1 { fabs(z0[j]).s_le(k(l1 + 1.0)) } else { small };
        check("ftrl.weight is exactly zero iff |z| <= l1", small.iff(w[j].s_eq(k(0.0))));
        let den = (num_traits::Float::sqrt(n0[j]) + k(beta)) / k(alpha) + k(l2);
        let pos = k::<F>(l1).s_lt(z0[j]);
        let neg = z0[j].s_lt(k(-l1));
        let shift = if mutate == 2 { 1.0 } else { 0.0 };
        check("ftrl.non-zero weight is (sign(z)*l1 - z) / ((sqrt(n)+beta)/alpha + l2)", SymB::all(&[
            pos.implies(close(w[j] * den, k::<F>(l1 + shift) - z0[j], tol)),
            neg.implies(close(w[j] * den, k::<F>(-l1) - z0[j], tol)),
            pos.implies(w[j].s_lt(k(0.0))),
            neg.implies(k::<F>(0.0).s_lt(w[j])),
        ]));
        observe(w[j]);
    }

    if mode == 0 {
        // ---- `steps` updates with given probabilities, each checked against the recurrence from the state before it
        let steps = p.u("steps", 1);
        let mut m = model.clone();
        for t in 0..steps {
            let xt = if t == 0 { x.clone() } else { sym_matrix::<F>(&format!("s{}x", t), rows, d, b) };
            let lt: Vec<bool> = (0..rows).map(|i| (p.u("labels", 1) >> (i + t)) & 1 == 1).collect();
            let dst = DatasetBase::new(xt.clone(), Array1::from(lt.clone()));
            let probs: Array1<Pr> = (0..rows).map(|i| Pr::new(pr_of(p.u("probs", 0) / 5usize.pow(i as u32) + t))).collect();
            let (zb, nb_, wb) = (m.z().clone(), m.n().clone(), m.get_weights());
            // the documented recurrence has no division by a state-dependent quantity: a division by a symbolic zero
            // inside `update` (the engine aborts such a path) is reported, not excluded
            match std::panic::catch_unwind(std::panic::AssertUnwindSafe(|| {
                let mut m2 = m.clone();
                m2.update(&dst, probs.view());
                m2
            })) {
                Ok(m2) => m = m2,
                Err(e) => {
                    if matches!(e.downcast_ref::<symx::Abort>(), Some(symx::Abort::DivByZero)) {
                        check_bool("ftrl.update does not divide by zero (0/0 would make the state NaN)", false);
                        return;
                    }
                    std::panic::resume_unwind(e)
                }
            }
            check_bool("ftrl.state stays finite", m.z().iter().chain(m.n().iter()).all(|v| v.shadow().is_finite()));
            let diff: Array1<F> = (0..rows).map(|i| <F as linfa::Float>::cast(*probs[i]) - if lt[i] { k(1.0) } else { k(0.0) }).collect();
            let g = diff.dot(&xt);
            for j in 0..d {
                let g2 = g[j] * g[j];
                let sigma = (num_traits::Float::sqrt(nb_[j] + g2) - num_traits::Float::sqrt(nb_[j])) / k(alpha);
                let zn = (zb[j] + g[j]) - sigma * wb[j];
                let zn = if mutate == 3 { zn + k(1.0) } else { zn };
                let nn = nb_[j] + g2;
                let nn = if mutate == 4 { nn + k(1.0) } else { nn };
                check("ftrl.z += g - sigma*w with sigma = (sqrt(n+g^2) - sqrt(n))/alpha", close(m.z()[j], zn, tol));
                check("ftrl.n += g^2", close(m.n()[j], nn, tol));
                observe(m.z()[j]);
                observe(m.n()[j]);
            }
        }
        if p.u("after", 0) == 1 {
            // the state after the updates determines the weights the same way (comparisons on sqrt terms)
            let w2 = m.get_weights();
            for j in 0..d {
                check("ftrl.weight is exactly zero iff |z| <= l1 (after an update)", fabs(m.z()[j]).s_le(k(l1)).iff(w2[j].s_eq(k(0.0))));
            }
        }
    } else {
        // ---- fit_with applies `update` with the model's own predicted probabilities
        let params = Ftrl::<F>::params().alpha(k(alpha)).beta(k(beta)).l1_ratio(k(l1)).l2_ratio(k(l2)).check().expect("ftrl params");
        let fitted = params.fit_with(Some(model.clone()), &ds).expect("ftrl fit_with");
        let probs: Array1<Pr> = model.predict(&x);
        let mut m = model.clone();
        m.update(&ds, probs.view());
        for j in 0..d {
            let other = if mutate == 5 { m.z()[j] + k(1.0) } else { m.z()[j] };
            check("ftrl.fit_with == update with the model's own predictions (z)", close(fitted.z()[j], other, tol));
            check("ftrl.fit_with == update with the model's own predictions (n)", close(fitted.n()[j], m.n()[j], tol));
            observe(fitted.z()[j]);
            observe(fitted.n()[j]);
        }
        for i in 0..rows {
            check_bool("ftrl.predicted probabilities lie in [0,1]", (0.0..=1.0).contains(&*probs[i]));
        }
    }
}

pub fn register(v: &mut Vec<HarnessDef>) {
    harness!(v, "c15.gnb", "C15", gnb,
        "Gaussian NB: fit on the whole data and fit_with over every split into <= maxcuts+1 contiguous batches (class-incomplete batches included) vs class frequencies, per-class means and smoothed population variances",
        ["linfa_bayes::GaussianNbValidParams::{fit, fit_with, update_mean_variance}", "linfa_bayes::base_nb::{NaiveBayesValidParams::fit, filter}", "ndarray mean_axis / var_axis", "serde::Serialize for GaussianNb (to read class_info)"],
        ["features are integers in [-B,B]; labels are concrete (parameter `pattern`), one job per label vector", "variance = population variance (ddof 0); smoothing term = var_smoothing * largest feature variance of the whole training data", "equalities cross-multiplied, up to 1e-9*(1+B^2 n^4)", "vs>0, ob=1: incremental sigma vs the textbook value is kept apart (see findings)"]);
    harness!(v, "c15.mnb", "C15", mnb,
        "multinomial NB: fit and fit_with over every split vs class frequencies, per-class feature sums and ln((N_cj+alpha)/(N_c+alpha*d))",
        ["linfa_bayes::MultinomialNbValidParams::{fit, fit_with, update_feature_log_prob}", "linfa_bayes::base_nb::{NaiveBayesValidParams::fit, filter}", "serde::Serialize for MultinomialNb (to read class_info)"],
        ["features are integers in [0,B]; labels concrete (parameter `pattern`)", "ln is an uninterpreted function: equal arguments give equal values; log-probabilities compared up to 1e-9"]);
    harness!(v, "c15.nb_predict", "C15", nb_predict,
        "naive-Bayes predict on symbolic query rows: the predicted class maximises the joint log-likelihood recomputed from the model's statistics (batch and two-batch models)",
        ["linfa_bayes::base_nb::NaiveBayes::predict_inplace", "linfa_bayes::{GaussianNb, MultinomialNb}::joint_log_likelihood", "ndarray_stats::QuantileExt::argmax"],
        ["Gaussian: every sigma > 0 (assumed; zero variance with zero smoothing divides by zero)", "ln uninterpreted (monotone); comparison up to 1e-9*(1+B^2)", "HashMap iteration order of the class map varies between runs (real SipHash keys): obligations are order-insensitive"]);
    harness!(v, "c15.mbk", "C15", mbk,
        "mini-batch k-means fit_with over nb batches from a precomputed start: running-mean recurrence with cumulative counts, batch inertia, Ok/NotConverged verdict (L1Dist)",
        ["linfa_clustering::KMeansValidParams::fit_with", "k_means::algorithm::{update_memberships_and_dists, closest_centroid, compute_centroids_incremental}", "linfa_nn::distance::{L1Dist,L2Dist}::{rdistance,distance}"],
        ["coordinates are integers in [-B,B]", "closed form of the running mean: new*(count_before + m) == old*count_before + sum of the m nearest batch points (order of the rows inside a batch is immaterial in exact arithmetic), up to 1e-9*scale", "metric=2 (L2Dist): the verdict goes through L2Dist::distance which concretises; both Ok and Err carry the same model, only that payload is checked"]);
    harness!(v, "c15.ftrl", "C15", ftrl,
        "FTRL: get_weights from a symbolic (z,n) state; Ftrl::update with given probabilities vs the documented recurrence; fit_with == update with the model's own predictions",
        ["linfa_ftrl::Ftrl::{get_weights, update, update_params, calculate_sigma, z, n}", "linfa_ftrl::algorithm::{apply_proximal_to_weights, calculate_gradient, calculate_weight_in_average}", "linfa_ftrl::FtrlValidParams::fit_with, Ftrl::predict_probabilities, stable_sigmoid (mode=1)"],
        ["z on the quarter grid, n and features integers; alpha a power of two, l1/l2 quarters", "the symbolic state is injected through Ftrl's serde support", "mode=0: probabilities are given dyadic constants (Ftrl::update); mode=1: fit_with turns the sigmoid output into an f32 `Pr` (concretisation): the comparison with `update` on the same predictions is decided on each path witness, the all-inputs claim holds for the x-dependence at fixed probabilities only", "sqrt is rounded: equalities up to 1e-9*(1+B^3)"]);
}

//! C09 — k-means: nearest-centroid assignment, the m_k-means Lloyd step, cost monotonicity in the
//! iteration budget, restarts, and what `inertia()` / `cluster_count()` report.
//!
//! Metrics (`metric=`): 1 = `L1Dist`; 2 = `L2Dist` (its `distance`, used by `fit` only for the
//! convergence test, concretises through `ndarray_stats::l2_dist`; registered with budget 1 only, where
//! the test cannot decide anything); 3 / 4 = `NoStop(L1Dist)` / `NoStop(L2Dist)`: the real `rdistance`
//! (assignment), while `distance` (convergence test of `fit`) is +inf, so the iteration budget is the only
//! stop criterion.
use crate::common::*;
use crate::harness;
use linfa::prelude::*;
use linfa_clustering::{KMeans, KMeansInit};
use linfa_nn::distance::{Distance, L1Dist, L2Dist};
use ndarray::{Array1, Array2, ArrayView, Axis, Dimension, Ix1};
use rand_xoshiro::rand_core::SeedableRng;
use rand_xoshiro::Xoshiro256Plus;
use serde::de::DeserializeOwned;
use serde::{Deserialize, Serialize};

/// scalars of this module also travel through linfa's serde support (to build a model with given centroids)
pub trait SS: Scalar + Serialize + DeserializeOwned {}
impl<T: Scalar + Serialize + DeserializeOwned> SS for T {}

/// the wrapped metric's `rdistance` (all that assignment uses) with a `distance` that is never below any
/// tolerance: `max_n_iterations` is then the only stop criterion of `fit`
#[derive(Clone, Debug, PartialEq, Serialize, Deserialize)]
pub struct NoStop<M>(pub M);
impl<F: linfa::Float, M: Distance<F>> Distance<F> for NoStop<M> {
    fn distance<D: Dimension>(&self, _a: ArrayView<F, D>, _b: ArrayView<F, D>) -> F {
        F::infinity()
    }
    fn rdistance<D: Dimension>(&self, a: ArrayView<F, D>, b: ArrayView<F, D>) -> F {
        self.0.rdistance(a, b)
    }
}

pub trait Dst<F: linfa::Float>: Distance<F> + Serialize + DeserializeOwned + std::fmt::Debug + 'static {}
impl<F: linfa::Float, T: Distance<F> + Serialize + DeserializeOwned + std::fmt::Debug + 'static> Dst<F> for T {}

macro_rules! with_metric {
    ($metric:expr, $f:ident, $p:expr) => {
        match $metric {
            1 => $f::<F, L1Dist>($p, L1Dist, 1),
            2 => $f::<F, L2Dist>($p, L2Dist, 2),
            3 => $f::<F, NoStop<L1Dist>>($p, NoStop(L1Dist), 1),
            _ => $f::<F, NoStop<L2Dist>>($p, NoStop(L2Dist), 2),
        }
    };
}

fn fabs<F: Scalar>(x: F) -> F {
    num_traits::Float::abs(x)
}
fn fmin<F: Scalar>(a: F, b: F) -> F {
    num_traits::Float::min(a, b)
}
fn fmax<F: Scalar>(a: F, b: F) -> F {
    num_traits::Float::max(a, b)
}

/// reduced distance of the definition, same operand order as ndarray_stats (centroid first)
pub fn rdist<F: Scalar>(pw: usize, c: &[F], x: &[F]) -> F {
    let mut s = F::lit(0.0);
    for j in 0..c.len() {
        let d = c[j] - x[j];
        s = s + if pw == 1 { fabs(d) } else { d * d };
    }
    s
}
/// |a - b| <= tol
pub fn close<F: Scalar>(a: F, b: F, tol: f64) -> SymB {
    if a.identical(b) {
        return SymB::k(true);
    }
    if tol == 0.0 {
        a.s_eq(b)
    } else {
        fabs(a - b).s_le(F::lit(tol))
    }
}
/// a <= b + tol
fn le_tol<F: Scalar>(a: F, b: F, tol: f64) -> SymB {
    if tol == 0.0 {
        a.s_le(b)
    } else {
        (a - b).s_le(F::lit(tol))
    }
}

pub fn sym_matrix<F: Scalar>(name: &str, n: usize, d: usize, b: i64) -> Array2<F> {
    let mut m = Array2::from_elem((n, d), F::lit(0.0));
    for i in 0..n {
        for j in 0..d {
            m[(i, j)] = int::<F>(&format!("{}{}_{}", name, i, j), -b, b);
        }
    }
    m
}
pub fn row<F: Scalar>(m: &Array2<F>, i: usize) -> Vec<F> {
    m.row(i).to_vec()
}

/// tolerance for obligations over centroids that went through divisions (absolute; values are bounded
/// by B resp. d*(2B)^2, so this is far above the accumulated rounding and far below any real difference)
fn tol_for(b: i64, pw: usize, d: usize) -> f64 {
    let scale = if pw == 1 { (2 * b * d as i64) as f64 } else { (d as i64 * 4 * b * b) as f64 };
    pow2_at_least(1e-9 * (1.0 + scale))
}
/// smallest power of two >= v (dyadic tolerances keep the solver's rationals small)
pub fn pow2_at_least(v: f64) -> f64 {
    let mut t = 1.0f64;
    while t > v {
        t /= 2.0;
    }
    while t < v {
        t *= 2.0;
    }
    t
}

/// a `KMeans` value with the given centroid matrix, through the crate's own serde support
pub fn model_with<F: SS, D: Dst<F>>(dist: &D, centroids: &Array2<F>) -> KMeans<F, D> {
    let k = centroids.nrows();
    let v = serde_json::json!({
        "centroids": serde_json::to_value(centroids).unwrap(),
        "cluster_count": serde_json::to_value(Array1::<F>::from_elem(k, F::lit(0.0))).unwrap(),
        "inertia": serde_json::to_value(F::lit(0.0)).unwrap(),
        "dist_fn": serde_json::to_value(dist).unwrap(),
    });
    serde_json::from_value(v).expect("KMeans from serde")
}

fn tiny<F: Scalar>() -> F {
    // default 2^-40: positive (required by the parameter check), below every non-zero centroid shift on the domain
    F::lit(0.5f64.powi(TOLSHIFT.with(|t| t.get())))
}

thread_local! {
    /// tolerance of `fit` = 2^-TOLSHIFT (parameter `tolshift`, default 40)
    static TOLSHIFT: std::cell::Cell<i32> = std::cell::Cell::new(40);
}
fn set_tol(p: &Params) {
    TOLSHIFT.with(|t| t.set(p.get("tolshift", 40) as i32));
}

fn fit_pre<F: SS, D: Dst<F>>(dist: &D, c0: &Array2<F>, x: &Array2<F>, iters: u64, runs: usize) -> KMeans<F, D> {
    let ds = DatasetBase::from(x.clone());
    KMeans::params_with(c0.nrows(), Xoshiro256Plus::seed_from_u64(42), dist.clone())
        .init_method(KMeansInit::Precomputed(c0.clone()))
        .n_runs(runs)
        .max_n_iterations(iters)
        .tolerance(tiny::<F>())
        .fit(&ds)
        .expect("k-means fit")
}

/// sum over the rows of x of the minimal reduced distance to a row of cs
fn cost<F: Scalar>(pw: usize, cs: &Array2<F>, x: &Array2<F>) -> F {
    let mut total = F::lit(0.0);
    for i in 0..x.nrows() {
        let xi = row(x, i);
        let mut m = rdist(pw, &row(cs, 0), &xi);
        for j in 1..cs.nrows() {
            m = fmin(m, rdist(pw, &row(cs, j), &xi));
        }
        total = total + m;
    }
    total
}

/// all vectors in {0..k}^n
fn assignments(n: usize, k: usize) -> Vec<Vec<usize>> {
    let mut out = vec![vec![]];
    for _ in 0..n {
        let mut nx = vec![];
        for a in &out {
            for j in 0..k {
                let mut b = a.clone();
                b.push(j);
                nx.push(b);
            }
        }
        out = nx;
    }
    out
}

// ------------------------------------------------------------------------------------------------
/// predict (batch and single observation) and transform against the definition
fn assign_d<F: SS, D: Dst<F>>(p: &Params, dist: D, pw: usize) {
    let (n, q, k, d) = (p.u("n", 2), p.u("q", 1), p.u("k", 2), p.u("d", 1));
    let (src, iters, b) = (p.u("src", 0), p.get("iters", 1) as u64, p.get("B", 64));
    let mutate = p.u("mut", 0);
    let c0 = sym_matrix::<F>("c", k, d, b);
    let x = if src == 1 { sym_matrix::<F>("x", n, d, b) } else { Array2::from_elem((0, d), F::lit(0.0)) };
    let qs = sym_matrix::<F>("q", q, d, b);
    let model = if src == 1 { fit_pre(&dist, &c0, &x, iters, 1) } else { model_with(&dist, &c0) };
    let tol = if src == 1 { tol_for(b, pw, d) } else { 0.0 };
    let cs = model.centroids().clone();
    check_bool("assign.exactly k centroids of the data's dimension", cs.dim() == (k, d));
    if cs.dim() != (k, d) {
        return;
    }
    if src == 0 {
        let same = (0..k).all(|i| (0..d).all(|j| cs[(i, j)].identical(c0[(i, j)])));
        assume_bool(same); // harness plumbing (serde) — not an obligation on linfa
    }
    // points: the new ones, then the training rows
    let mut pts = qs.clone();
    for i in 0..x.nrows() {
        pts.push_row(x.row(i)).unwrap();
    }
    let labels: Array1<usize> = model.predict(&pts);
    let tr: Array1<F> = model.transform(&pts);
    check_bool("assign.one label and one distance per observation", labels.len() == pts.nrows() && tr.len() == pts.nrows());
    for i in 0..pts.nrows() {
        let xi = row(&pts, i);
        let ds: Vec<F> = (0..k).map(|j| rdist(pw, &row(&cs, j), &xi)).collect();
        let mut single = usize::MAX;
        PredictInplace::<ndarray::ArrayBase<ndarray::OwnedRepr<F>, Ix1>, usize>::predict_inplace(&model, &pts.row(i).to_owned(), &mut single);
        for (what, idx) in [("assign.predict picks a centroid at minimal distance", labels[i]), ("assign.predict (single observation) picks a centroid at minimal distance", single)] {
            check_bool("assign.label is a centroid index", idx < k);
            if idx >= k {
                continue;
            }
            for j in 0..k {
                if j != idx {
                    let rhs = if mutate == 1 { ds[j] - F::lit(2.0) } else { ds[j] };
                    check(what, le_tol(ds[idx], rhs, tol));
                }
            }
            observe_usize(idx);
        }
        let mut m = ds[0];
        for j in 1..k {
            m = fmin(m, ds[j]);
        }
        let m = if mutate == 2 { m + F::lit(1.0) } else { m };
        check("assign.transform returns the minimal reduced distance", close(tr[i], m, tol));
        observe(tr[i]);
    }
}
fn assign<F: SS>(p: &Params) {
    set_tol(p);
    with_metric!(p.u("metric", 1), assign_d, p)
}

// ------------------------------------------------------------------------------------------------
/// one Lloyd step from a precomputed start: there is an assignment of every point to a nearest start
/// centroid such that each new centroid is the mean of its points and its previous position
fn lloyd_d<F: SS, D: Dst<F>>(p: &Params, dist: D, pw: usize) {
    let (n, k, d, b) = (p.u("n", 3), p.u("k", 2), p.u("d", 1), p.get("B", 64));
    let mutate = p.u("mut", 0);
    let c0 = sym_matrix::<F>("c", k, d, b);
    let x = sym_matrix::<F>("x", n, d, b);
    let model = fit_pre(&dist, &c0, &x, 1, 1);
    let c1 = model.centroids().clone();
    check_bool("lloyd.exactly k centroids of the data's dimension", c1.dim() == (k, d));
    if c1.dim() != (k, d) {
        return;
    }
    let tol = tol_for(b, 1, 1) * (n as f64 + 1.0);
    // distances of every point to every start centroid (exact terms)
    let dd: Vec<Vec<F>> = (0..n).map(|i| (0..k).map(|j| rdist(pw, &row(&c0, j), &row(&x, i))).collect()).collect();
    let minimal: Vec<Vec<SymB>> = (0..n).map(|i| (0..k).map(|j| SymB::all(&(0..k).filter(|&o| o != j).map(|o| dd[i][j].s_le(dd[i][o])).collect::<Vec<_>>())).collect()).collect();
    let mut options = vec![];
    for a in assignments(n, k) {
        let mut conj: Vec<SymB> = (0..n).map(|i| minimal[i][a[i]]).collect();
        for c in 0..k {
            let cnt = a.iter().filter(|&&v| v == c).count();
            let denom = if mutate == 1 { cnt.max(1) } else { cnt + 1 };
            for j in 0..d {
                let mut s = c0[(c, j)];
                for i in 0..n {
                    if a[i] == c {
                        s = s + x[(i, j)];
                    }
                }
                conj.push(close(c1[(c, j)] * F::lit(denom as f64), s, tol));
            }
        }
        options.push(SymB::all(&conj));
    }
    check("lloyd.new centroid = mean of its nearest points and its previous position", SymB::any(&options));
    for v in c1.iter() {
        observe(*v);
    }
}
fn lloyd<F: SS>(p: &Params) {
    set_tol(p);
    with_metric!(p.u("metric", 1), lloyd_d, p)
}

/// one iteration on a large data set: only the first `sym` rows (and, with csym=1, the start centroids) are
/// symbolic, the other rows are fixed points of the domain.  The nearest centroid of every row is determined by the
/// harness' own comparisons (branches of the same path); paths with a tie are left to the small instances.
fn lloyd_wide_d<F: SS, D: Dst<F>>(p: &Params, dist: D, pw: usize) {
    let (n, k, d, b) = (p.u("n", 600), p.u("k", 2), p.u("d", 1), p.get("B", 64));
    let (sym, csym, iters) = (p.u("sym", 1).min(n), p.u("csym", 0), p.get("m", 1) as u64);
    let span = 2 * b + 1;
    let c0 = if csym == 1 { sym_matrix::<F>("c", k, d, b) } else { Array2::from_shape_fn((k, d), |(c, j)| F::lit((((c as i64 * 2 + 1) * span / (2 * k as i64)) - b + j as i64 + c as i64) as f64 + 0.25 * c as f64)) };
    let xs = sym_matrix::<F>("x", sym, d, b);
    // dup=1: the fixed rows are k distinct points repeated (row i = point i mod k) and the start centroids are these
    // points: every cluster then consists of copies of its own centroid and the update must return it exactly
    let dup = p.u("dup", 0) == 1;
    let point = |c: usize, j: usize| F::lit((1 + 2 * c as i64 + j as i64) as f64);
    let c0 = if dup { Array2::from_shape_fn((k, d), |(c, j)| point(c, j)) } else { c0 };
    let x = Array2::from_shape_fn((n, d), |(i, j)| if i < sym { xs[(i, j)] } else if dup { point(i % k, j) } else { F::lit((((i as i64 * 7 + j as i64 * 13) % span) - b) as f64) });
    let mut cur = c0.clone();
    for it in 0..iters {
        let model = fit_pre(&dist, &cur, &x, 1, 1);
        let c1 = model.centroids().clone();
        check_bool("lloyd_wide.exactly k centroids of the data's dimension", c1.dim() == (k, d));
        if c1.dim() != (k, d) {
            return;
        }
        let mut sums = cur.clone();
        let mut cnt = vec![1usize; k];
        let mut tie = false;
        for i in 0..n {
            let dd: Vec<F> = (0..k).map(|c| rdist(pw, &row(&cur, c), &row(&x, i))).collect();
            let mut best = 0;
            for c in 1..k {
                if dd[c] < dd[best] {
                    best = c;
                }
            }
            tie |= (0..k).any(|c| c != best && dd[c] == dd[best]);
            cnt[best] += 1;
            for j in 0..d {
                sums[(best, j)] = sums[(best, j)] + x[(i, j)];
            }
        }
        assume_bool(!tie);
        let tol = tol_for(b, 1, 1) * (n as f64 + 1.0);
        for c in 0..k {
            for j in 0..d {
                check("lloyd_wide.new centroid * (count + 1) == previous centroid + sum of its nearest points", close(c1[(c, j)] * F::lit(cnt[c] as f64), sums[(c, j)], tol));
                if it + 1 == iters {
                    observe(c1[(c, j)]);
                }
            }
        }
        // initialised from the data: every centroid stays inside the bounding box of the training data -- exactly
        if dup && sym == 0 {
            let inside = (0..k).all(|c| (0..d).all(|j| {
                let col: Vec<f64> = x.column(j).iter().map(|v| v.shadow()).collect();
                let (lo, hi) = (col.iter().cloned().fold(f64::INFINITY, f64::min), col.iter().cloned().fold(f64::NEG_INFINITY, f64::max));
                let v = c1[(c, j)].shadow();
                lo <= v && v <= hi
            }));
            check_bool("lloyd_wide.centroids initialised from the data stay inside its bounding box", inside);
        }
        check_bool("lloyd_wide.counts sum to n", model.cluster_count().iter().map(|v| v.shadow() as usize).sum::<usize>() == n);
        if it + 1 == iters {
            // also used by C20 (cross-process replays under different rayon pools): everything a fit reports
            observe(model.inertia());
            for v in model.cluster_count().iter() {
                observe(*v);
            }
            for l in model.predict(&x).iter().step_by(37) {
                observe_usize(*l);
            }
        }
        cur = c1;
    }
}
fn lloyd_wide<F: SS>(p: &Params) {
    set_tol(p);
    with_metric!(p.u("metric", 3), lloyd_wide_d, p)
}

// ------------------------------------------------------------------------------------------------
/// same precomputed start, budgets m and m+1: the cost of the returned centroids does not increase
fn mono_d<F: SS, D: Dst<F>>(p: &Params, dist: D, pw: usize) {
    let (n, k, d, b) = (p.u("n", 3), p.u("k", 2), p.u("d", 1), p.get("B", 16));
    let m = p.get("m", 1) as u64;
    let mutate = p.u("mut", 0);
    let c0 = sym_matrix::<F>("c", k, d, b);
    let x = sym_matrix::<F>("x", n, d, b);
    let a = fit_pre(&dist, &c0, &x, m, 1);
    let bm = fit_pre(&dist, &c0, &x, m + 1, 1);
    // cost exponent: by default that of the metric; cost=2 with an L1 metric is meaningful for d=1 only, where
    // L1 and L2 induce the same nearest-centroid relation (so the trajectory is the Euclidean one)
    let cpw = p.u("cost", pw);
    assert!(cpw == pw || (cpw == 2 && d == 1), "cost=2 with an L1 metric needs d=1");
    let tol = tol_for(b, cpw, d) * n as f64;
    let (ca, cb) = (cost(cpw, a.centroids(), &x), cost(cpw, bm.centroids(), &x));
    let cb = if mutate == 1 { cb + F::lit(0.5) } else { cb };
    let lemmas = p.u("lemmas", 0);
    if lemmas >= 1 {
        // The same statement, handed to the solver together with the two steps of the textbook argument
        // (L_a: the labels used by iteration m+1 are nearest-centroid labels for the budget-m centroids;
        //  L_b: within each such cluster the mean update does not increase the summed squared distance):
        //    O1 = (L_a and L_b) => statement,   O2 = (L_a and L_b) or statement.
        // Both follow from the statement and together they imply it, so nothing more than the statement is demanded.
        let labels: Array1<usize> = a.predict(&x);
        let (old, new) = (a.centroids().clone(), bm.centroids().clone());
        let t = tol_for(b, cpw, d);
        let mut lem = vec![];
        for i in 0..n {
            for j in 0..k {
                if j != labels[i] {
                    lem.push(le_tol(rdist(cpw, &row(&old, labels[i]), &row(&x, i)), rdist(cpw, &row(&old, j), &row(&x, i)), t));
                }
            }
        }
        for c in 0..k {
            let (mut so, mut sn) = (F::lit(0.0), F::lit(0.0));
            for i in 0..n {
                if labels[i] == c {
                    so = so + rdist(cpw, &row(&old, c), &row(&x, i));
                    sn = sn + rdist(cpw, &row(&new, c), &row(&x, i));
                }
            }
            lem.push(le_tol(sn, so, t));
        }
        let stmt = le_tol(cb, ca, t * (n + k + 1) as f64);
        if lemmas == 4 {
            // one step at a time (`which`), so that a step the solver cannot decide does not take the others with it
            if let Some(l) = lem.get(p.u("which", 0)) {
                check("mono.cost does not increase with the budget [or a step of the textbook argument holds]", l.or(stmt));
            }
            observe(ca);
            observe(cb);
            return;
        }
        let lem = SymB::all(&lem);
        if lemmas != 3 {
            check("mono.cost does not increase with the budget [given the two steps of the textbook argument]", lem.implies(stmt));
        }
        if lemmas != 2 {
            check("mono.cost does not increase with the budget [or a step of the textbook argument holds]", lem.or(stmt));
        }
        observe(ca);
        observe(cb);
        return;
    }
    let name = if cpw == 1 { "mono.cost does not increase with the budget (L1 metric: not a theorem for mean updates)" } else { "mono.cost does not increase with the budget" };
    check(name, le_tol(cb, ca, tol));
    if p.u("start", 0) == 1 {
        // also against the start itself
        check("mono.cost after the first budget does not exceed the cost of the start", le_tol(ca, cost(cpw, &c0, &x), tol));
    }
    observe(ca);
    observe(cb);
}
fn mono<F: SS>(p: &Params) {
    set_tol(p);
    with_metric!(p.u("metric", 4), mono_d, p)
}

// ------------------------------------------------------------------------------------------------
/// exists an assignment with exactly the reported counts in which every point sits at a nearest row of cs
fn counts_realisable<F: Scalar>(pw: usize, cs: &Array2<F>, x: &Array2<F>, counts: &[usize], tol: f64) -> SymB {
    let (n, k) = (x.nrows(), cs.nrows());
    let dd: Vec<Vec<F>> = (0..n).map(|i| (0..k).map(|j| rdist(pw, &row(cs, j), &row(x, i))).collect()).collect();
    let minimal: Vec<Vec<SymB>> = (0..n).map(|i| (0..k).map(|j| SymB::all(&(0..k).filter(|&o| o != j).map(|o| le_tol(dd[i][j], dd[i][o], tol)).collect::<Vec<_>>())).collect()).collect();
    let mut options = vec![];
    for a in assignments(n, k) {
        if (0..k).all(|c| a.iter().filter(|&&v| v == c).count() == counts[c]) {
            options.push(SymB::all(&(0..n).map(|i| minimal[i][a[i]]).collect::<Vec<_>>()));
        }
    }
    SymB::any(&options)
}

fn shadow_counts<F: Scalar, D: Distance<F>>(m: &KMeans<F, D>) -> Vec<usize> {
    m.cluster_count().iter().map(|c| c.shadow() as usize).collect()
}

/// reported inertia / counts against the *returned* centroids.
/// region=0: the last update did not move any centroid (fixed point reached) — everything must agree.
/// region=1: the last update moved a centroid (budget exhausted before convergence).
fn report_d<F: SS, D: Dst<F>>(p: &Params, dist: D, pw: usize) {
    let (n, k, d, b) = (p.u("n", 3), p.u("k", 2), p.u("d", 1), p.get("B", 16));
    let (m, region) = (p.get("m", 1) as u64, p.u("region", 0));
    let mutate = p.u("mut", 0);
    let c0 = sym_matrix::<F>("c", k, d, b);
    let x = sym_matrix::<F>("x", n, d, b);
    let model = fit_pre(&dist, &c0, &x, m, 1);
    let prev = if m == 1 { c0.clone() } else { fit_pre(&dist, &c0, &x, m - 1, 1).centroids().clone() };
    let cur = model.centroids().clone();
    check_bool("report.exactly k centroids of the data's dimension", cur.dim() == (k, d));
    let counts = shadow_counts(&model);
    let counts_are_integers = model.cluster_count().iter().all(|c| c.shadow() >= 0.0 && c.shadow().fract() == 0.0);
    check_bool("report.counts are k non-negative integers summing to n", counts.len() == k && counts_are_integers && counts.iter().sum::<usize>() == n);
    if cur.dim() != (k, d) || counts.len() != k || !counts_are_integers {
        return;
    }
    // budget 1: the previous centroids are inputs (integers), "unchanged" is exact in both semantics;
    // later budgets compare two rounded values: up to 2^-30
    let still_tol = if m == 1 { 0.0 } else { pow2_at_least(1e-9) };
    let still: Vec<SymB> = cur.iter().zip(prev.iter()).map(|(a, b)| close(*a, *b, still_tol)).collect();
    let still = SymB::all(&still);
    if region == 0 {
        assume(still);
    } else if region == 1 {
        assume(still.not());
    }
    let tol = tol_for(b, pw, d) * n as f64;
    let want = cost(pw, &cur, &x);
    let want = if mutate == 1 { want + F::lit(1.0) } else { want };
    let ob = p.u("ob", 0); // 0 = both obligations, 1 = inertia only, 2 = counts only
    if ob != 2 {
        check("report.inertia is the mean minimal distance to the returned centroids", close(model.inertia() * F::lit(n as f64), want, tol));
    }
    let counts_m = if mutate == 2 { let mut c = counts.clone(); c.rotate_left(1); c } else { counts.clone() };
    if ob != 1 {
        check("report.counts are those of a nearest-centroid assignment to the returned centroids", counts_realisable(pw, &cur, &x, &counts_m, tol_for(b, pw, d)));
    }
    observe(model.inertia());
    for c in &counts {
        observe_usize(*c);
    }
}
fn report<F: SS>(p: &Params) {
    set_tol(p);
    with_metric!(p.u("metric", 1), report_d, p)
}

// ------------------------------------------------------------------------------------------------
/// `KMeansInit::Random` with a seeded generator, 1 restart vs 2 restarts from the same seed.
/// part=0: inertia/centroid obligations; part=1/2: the reported counts belong to the returned restart
/// (1: paths on which the last restart is returned, 2: paths on which only an earlier one is).
fn restarts_d<F: SS, D: Dst<F>>(p: &Params, dist: D, pw: usize) {
    let (n, k, d, b) = (p.u("n", 3), p.u("k", 2), p.u("d", 1), p.get("B", 16));
    let (m, seed, part) = (p.get("m", 1) as u64, p.get("seed", 0) as u64, p.u("part", 0));
    let mutate = p.u("mut", 0);
    let x = sym_matrix::<F>("x", n, d, b);
    let ds = DatasetBase::from(x.clone());
    let rng0 = Xoshiro256Plus::seed_from_u64(seed);
    // the generator as the second restart finds it: `random_init` draws `index::sample(rng, n, k)` once per restart
    let mut rng1 = rng0.clone();
    let first_pick = rand::seq::index::sample(&mut rng1, n, k).into_vec();
    let second_pick = rand::seq::index::sample(&mut rng1.clone(), n, k).into_vec();
    let go = |rng: Xoshiro256Plus, runs: usize| {
        KMeans::params_with(k, rng, dist.clone()).init_method(KMeansInit::Random).n_runs(runs).max_n_iterations(m).tolerance(tiny::<F>()).fit(&ds).expect("k-means fit")
    };
    let one = go(rng0.clone(), 1);
    let two = go(rng0.clone(), 2);
    let second = go(rng1.clone(), 1);
    let same_c = |a: &KMeans<F, D>, b: &KMeans<F, D>| a.centroids().dim() == b.centroids().dim() && a.centroids().iter().zip(b.centroids().iter()).all(|(u, v)| u.identical(*v));
    let from_first = same_c(&two, &one);
    let from_second = same_c(&two, &second);
    // (`identical` means "same term" symbolically and "same bits" natively: not an observable)
    for v in two.centroids().iter() {
        observe(*v);
    }
    observe(two.inertia());
    let tol = tol_for(b, pw, d);
    if part == 0 {
        check_bool("restarts.exactly k centroids of the data's dimension", two.centroids().dim() == (k, d));
        let two_i = if mutate == 1 { two.inertia() + F::lit(0.5) } else { two.inertia() };
        check("restarts.more restarts from the same seed never report a higher inertia", le_tol(two_i, one.inertia(), tol));
        check_bool("restarts.the returned centroids are those of one of the restarts", from_first || from_second);
        if from_first || from_second {
            let mn = fmin(one.inertia(), second.inertia());
            let mn = if mutate == 2 { mn + F::lit(0.5) } else { mn };
            check("restarts.the reported inertia is the smaller one of the restarts", close(two.inertia(), mn, tol));
            let own = (from_first && two.inertia().identical(one.inertia())) || (from_second && two.inertia().identical(second.inertia()));
            check_bool("restarts.the reported inertia is that of the returned restart", own);
        }
        // initialised from the data: every centroid stays inside the bounding box of the training data
        for j in 0..d {
            let (mut lo, mut hi) = (x[(0, j)], x[(0, j)]);
            for i in 1..n {
                lo = fmin(lo, x[(i, j)]);
                hi = fmax(hi, x[(i, j)]);
            }
            let hi = if mutate == 3 { hi - F::lit(1.0) } else { hi };
            for c in 0..k {
                let v = two.centroids()[(c, j)];
                check("restarts.centroids stay inside the bounding box of the training data", le_tol(lo, v, tol_for(b, 1, 1)).and(le_tol(v, hi, tol_for(b, 1, 1))));
            }
        }
    } else {
        // which restart do the returned centroids come from?  (if both give identical centroid terms the
        // counts of either are accepted)
        // part=1: the returned centroids are those of the last restart; part=2: of an earlier restart only
        if part == 1 {
            assume_bool(from_second);
        } else if part == 2 {
            assume_bool(from_first && !from_second);
        }
        let c2 = shadow_counts(&two);
        let ok = (from_first && c2 == shadow_counts(&one)) || (from_second && c2 == shadow_counts(&second));
        if from_first || from_second {
            check_bool("restarts.cluster_count is that of the restart whose centroids are returned", ok);
        }
    }
    let _ = (first_pick, second_pick);
}
fn restarts<F: SS>(p: &Params) {
    set_tol(p);
    with_metric!(p.u("metric", 1), restarts_d, p)
}

/// mini-batch update, used by C15 too (kept here next to the other k-means helpers)
pub fn axis_rows<F: Scalar>(m: &Array2<F>, lo: usize, hi: usize) -> Array2<F> {
    m.slice_axis(Axis(0), ndarray::Slice::from(lo..hi)).to_owned()
}

pub fn register(v: &mut Vec<HarnessDef>) {
    harness!(v, "c09.assign", "C09", assign,
        "predict (batch, single observation) and transform of a model with symbolic centroids (src=0: given centroids; src=1: fitted from a precomputed start) on new and training points vs the definition",
        ["linfa_clustering::KMeans::{predict_inplace (Ix2, Ix1), transform, centroids}", "linfa_clustering::k_means::algorithm::{closest_centroid, update_cluster_memberships, update_min_dists}", "linfa_nn::distance::{L1Dist,L2Dist}::rdistance", "KMeansValidParams::fit (src=1)"],
        ["coordinates are integers in [-B,B]", "any centroid at minimal distance is accepted on ties", "src=1: centroids went through divisions, minimality/equality up to 1e-9*(1+scale)", "src=0: the model value is built through KMeans' serde support"]);
    harness!(v, "c09.lloyd", "C09", lloyd,
        "one iteration from a precomputed start: for some nearest-centroid assignment, new_centroid*(count+1) == old_centroid + sum of assigned points",
        ["linfa_clustering::KMeansValidParams::fit", "k_means::algorithm::{update_memberships_and_dists, closest_centroid, compute_centroids}", "KMeansInit::Precomputed (init.rs KMeansInit::run)", "linfa_nn::distance::*::{rdistance,distance}"],
        ["coordinates are integers in [-B,B]", "n_runs=1, max_n_iterations=1, tolerance 2^-tolshift (default 2^-40)", "metric=2: L2Dist::distance concretises; with budget 1 its value cannot change the result (the loop stops after the first iteration in any case)", "cross-multiplied equality up to 1e-9*(1+2B)*(n+1)"]);
    harness!(v, "c09.lloyd_wide", "C09", lloyd_wide,
        "one or more single iterations on a large data set (hundreds of rows) of which only `sym` rows (csym=1: and the start centroids) are symbolic: new_centroid*(count+1) == old_centroid + sum of the rows nearest to it, counts sum to n",
        ["linfa_clustering::KMeansValidParams::fit", "k_means::algorithm::{update_memberships_and_dists, closest_centroid, compute_centroids}", "KMeansInit::Precomputed"],
        ["fixed rows are integers of [-B,B] (i*7 mod (2B+1) - B)", "paths on which some row is equally near to two centroids are discarded (ties are covered by c09.lloyd on small instances)", "cross-multiplied equality up to 1e-9*(1+2B)*(n+1)"]);
    harness!(v, "c09.mono", "C09", mono,
        "budgets m and m+1 from the same precomputed start: the sum of minimal squared distances to the returned centroids does not increase (lemmas=2/4: the same statement submitted together with the two steps of the textbook argument)",
        ["linfa_clustering::KMeansValidParams::fit (iteration loop)", "k_means::algorithm::{update_memberships_and_dists, closest_centroid, compute_centroids}", "KMeans::predict (labels of the budget-m model, lemmas only)"],
        ["coordinates are integers in [-B,B]", "squared Euclidean cost; metric=4: L2Dist::rdistance; metric=3 with cost=2 (d=1 only): L1Dist::rdistance, which induces the same nearest-centroid relation on the line, so path conditions stay linear", "the convergence test never fires (NoStop): budgets m and m+1 are exactly m and m+1 iterations", "with an L1 cost the statement is not a theorem for mean updates (counterexample in the report) and is not registered", "comparison up to 2^-30*(1+scale)*n"]);
    harness!(v, "c09.report", "C09", report,
        "inertia() and cluster_count() against a recomputation from the returned centroids; region 0 = last update was a fixed point, region 1 = it moved a centroid",
        ["linfa_clustering::KMeansValidParams::fit (reporting)", "KMeans::{inertia, cluster_count, centroids}"],
        ["coordinates are integers in [-B,B]", "n_runs=1", "counts: some nearest-centroid assignment to the returned centroids has exactly these counts (ties free)", "region predicate: returned == previous centroid in every coordinate (exactly for budget 1, up to 2^-30 for larger budgets)"]);
    harness!(v, "c09.restarts", "C09", restarts,
        "KMeansInit::Random with a seeded generator: 2 restarts vs 1 restart from the same seed; returned centroids, inertia and counts belong to one and the same restart; centroids inside the bounding box",
        ["linfa_clustering::KMeansValidParams::fit (restart loop, min_inertia/best_centroids, reporting)", "k_means::init::random_init", "k_means::algorithm::{update_memberships_and_dists, compute_centroids}"],
        ["coordinates are integers in [-B,B]", "generator Xoshiro256Plus::seed_from_u64(seed), seeds enumerated", "the second restart is reproduced alone by advancing a clone of the generator with rand::seq::index::sample(rng, n, k), as random_init does"]);
}

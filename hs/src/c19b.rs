//! C19, remaining serialisable types: FastICA parameters (symbolic tolerance, solver-chosen discrete
//! fields) and the f64-only decomposition models (FastICA, PCA, PLS family) as concrete round trips.
use crate::common::*;
use crate::{harness, harness_sym};
use linfa::prelude::*;
use linfa::traits::{Fit, Predict, Transformer};
use ndarray::{Array1, Array2};
use serde::{de::DeserializeOwned, Serialize};

/// `json`: also through serde_json — only for values without f64 payload (serde_json's default float
/// parser is not bit-exact, so JSON is not a lossless format for f64 models; symbolic scalars travel as
/// integer handles and are fine)
fn rt<T: Serialize + DeserializeOwned + Clone>(name: &str, v: &T, json: bool) -> Option<(T, T)> {
    let b = bincode::serialize(v);
    check_bool(&format!("{}.bincode serialises", name), b.is_ok());
    let b = b.ok()?;
    let back: Result<T, _> = bincode::deserialize(&b);
    check_bool(&format!("{}.bincode deserialises", name), back.is_ok());
    let back = back.ok()?;
    check_bool(&format!("{}.bincode re-serialises to the same bytes", name), bincode::serialize(&back).map(|b2| b2 == b).unwrap_or(false));
    if !json {
        return Some((back.clone(), back));
    }
    let j = serde_json::to_string(v);
    check_bool(&format!("{}.json serialises", name), j.is_ok());
    let j = j.ok()?;
    let backj: Result<T, _> = serde_json::from_str(&j);
    check_bool(&format!("{}.json deserialises", name), backj.is_ok());
    let backj = backj.ok()?;
    check_bool(&format!("{}.json re-serialises to the same document", name), serde_json::to_string(&backj).map(|j2| j2 == j).unwrap_or(false));
    Some((back, backj))
}

/// FastICA parameter set: tolerance symbolic on both sides of its bound, discrete fields solver-chosen
/// (random_state incl. 0 and unset, gfunc variants, ncomponents)
fn ica_params<F: Scalar + Serialize + DeserializeOwned>(_p: &Params) {
    use linfa_ica::fast_ica::{FastIca, GFunc};
    let tol = grid::<F>("tol", 2, 2);
    let seed = [None, Some(0usize), Some(1), Some(42)][choice("seed", 4)];
    let gf = [GFunc::Logcosh(1.0), GFunc::Logcosh(1.5), GFunc::Exp, GFunc::Cube][choice("gfunc", 4)];
    let nc = [None, Some(1usize), Some(3)][choice("ncomponents", 3)];
    let mut prm = FastIca::<F>::params().tol(tol).gfunc(gf).max_iter(7);
    if let Some(s) = seed {
        prm = prm.random_state(s);
    }
    if let Some(n) = nc {
        prm = prm.ncomponents(n);
    }
    let checked = prm.clone().check();
    let valid = match checked {
        Ok(v) => v,
        Err(_) => return, // only the checked form is serialisable
    };
    if let Some((b, j)) = rt("FastIcaValidParams", &valid, true) {
        for (form, r) in [("bincode", &b), ("json", &j)] {
            check_bool(&format!("FastIcaValidParams.{}: restored == original", form), *r == valid);
            check_bool(&format!("FastIcaValidParams.{}: random_state restored", form), r.random_state() == valid.random_state());
            check_bool(&format!("FastIcaValidParams.{}: ncomponents, gfunc, max_iter restored", form), r.ncomponents() == valid.ncomponents() && r.gfunc() == valid.gfunc() && r.max_iter() == valid.max_iter());
            check_bool(&format!("FastIcaValidParams.{}: tol restored (same term)", form), r.tol().identical(valid.tol()));
        }
    }
}

fn data(n: usize, d: usize) -> Array2<f64> {
    let a = [0.3, -1.2, 2.5, 0.7, -0.4, 1.9, -2.2, 0.1, 1.1, -0.9, 0.6, 2.0, -1.5, 0.8, 0.2, -0.3, 1.4, -1.1];
    Array2::from_shape_fn((n, d), |(i, j)| a[(i * 5 + j * 3) % 18] + 0.1 * (i as f64) * ((j + 1) as f64))
}

/// CONCRETE (f64 only, one execution per configuration, not solver-decided): fitted decomposition models
fn concrete_models(p: &Params) {
    let which = p.u("which", 0);
    let x = data(8, 3);
    let q = data(3, 3).mapv(|v| v * 0.5 + 0.25);
    match which {
        0 => {
            use linfa_ica::fast_ica::{FastIca, GFunc};
            for seed in [0usize, 1, 42] {
                let m = FastIca::<f64>::params().ncomponents(2).gfunc(GFunc::Cube).random_state(seed).max_iter(50).fit(&DatasetBase::from(x.clone()));
                let m = match m {
                    Ok(m) => m,
                    Err(_) => continue,
                };
                if let Some((b, j)) = rt("FastIca", &m, false) {
                    for r in [&b, &j] {
                        check_bool("FastIca.restored == original", *r == m);
                        check_bool("FastIca.predictions bit-identical", r.predict(&q).iter().zip(m.predict(&q).iter()).all(|(a, b)| a.to_bits() == b.to_bits()));
                    }
                }
            }
        }
        1 => {
            use linfa_reduction::Pca;
            for (k, whiten) in [(1usize, false), (2, false), (2, true), (3, false)] {
                let prm = Pca::params(k).whiten(whiten);
                if let Some((b, _)) = rt("PcaParams", &prm, true) {
                    check_bool("PcaParams.restored == original", b == prm);
                }
                let m = match prm.fit(&DatasetBase::from(x.clone())) {
                    Ok(m) => m,
                    Err(_) => continue,
                };
                if let Some((b, j)) = rt("Pca", &m, false) {
                    for r in [&b, &j] {
                        check_bool("Pca.restored == original", *r == m);
                        check_bool("Pca.components, mean, singular values, explained variance restored", r.components() == m.components() && r.mean() == m.mean() && r.singular_values() == m.singular_values() && r.explained_variance() == m.explained_variance());
                        check_bool("Pca.predictions bit-identical", r.predict(&q).iter().zip(m.predict(&q).iter()).all(|(a, b)| a.to_bits() == b.to_bits()));
                    }
                }
            }
        }
        _ => {
            use linfa_pls::{PlsCanonical, PlsCca, PlsRegression, PlsSvd};
            let y = Array2::from_shape_fn((8, 2), |(i, j)| x[(i, 0)] * (1.0 + j as f64) - 0.5 * x[(i, 2)] + 0.05 * i as f64);
            let ds = Dataset::new(x.clone(), y.clone());
            macro_rules! pls {
                ($t:ident, $name:expr) => {{
                    if let Ok(m) = $t::<f64>::params(2).fit(&ds) {
                        if let Some((b, j)) = rt($name, &m, false) {
                            for r in [&b, &j] {
                                check_bool(concat!($name, ".restored == original"), *r == m);
                                check_bool(concat!($name, ".coefficients restored"), r.coefficients() == m.coefficients());
                                check_bool(concat!($name, ".predictions bit-identical"), r.predict(&q).iter().zip(m.predict(&q).iter()).all(|(a, b)| a.to_bits() == b.to_bits()));
                            }
                        }
                    }
                }};
            }
            pls!(PlsRegression, "PlsRegression");
            pls!(PlsCanonical, "PlsCanonical");
            pls!(PlsCca, "PlsCca");
            let prm = PlsSvd::<f64>::params(2).scale(false);
            if let Some((b, _)) = rt("PlsSvdParams", &prm, true) {
                check_bool("PlsSvdParams.restored == original", b == prm);
            }
            let _ = prm.fit(&ds); // the fitted PlsSvd model itself does not derive serde
        }
    }
}

pub fn register(v: &mut Vec<HarnessDef>) {
    harness!(v, "c19.ica_params", "C19", ica_params,
        "FastIcaValidParams round trip: tolerance symbolic on both sides of its bound, random_state (unset, 0, 1, 42), gfunc and ncomponents solver-chosen",
        ["linfa_ica::FastIcaParams::{tol, gfunc, max_iter, random_state, ncomponents, check}", "serde derive of FastIcaValidParams / GFunc"], []);
    harness_sym!(v, "c19.decomposition_concrete", "C19", concrete_models,
        "CONCRETE f64 round trips (not solver-decided): fitted FastICA (seeds 0, 1, 42), PCA (+ PcaParams), PLS regression / canonical / CCA (+ PlsSvdParams): equality, accessors, bit-identical predictions",
        ["serde derives of linfa_ica::FastIca, linfa_reduction::{Pca, PcaParams}, linfa_pls::{PlsRegression, PlsCanonical, PlsCca, PlsSvdParams}"],
        ["concrete data, one execution per configuration"]);
}

//! C03 — prediction is a per-sample function, identical through every calling form.
use crate::common::*;
use crate::{harness, harness_sym};
use linfa::composing::{MultiClassModel, MultiTargetModel};
use linfa::dataset::Pr;
use linfa::prelude::*;
use linfa::traits::{Fit, FitWith, Predict, PredictInplace};
use ndarray::{Array1, Array2, ArrayBase, Axis, Data, Ix2, ShapeBuilder};

// ---- mock predictor: output is a fixed function of the row (symbolic weights) -------------------
struct RowFn<F> {
    w: Vec<F>,
    b: F,
}
impl<F: Scalar> RowFn<F> {
    fn f(&self, row: &[F]) -> F {
        let mut s = self.b;
        for (a, b) in self.w.iter().zip(row) {
            s = s + *a * *b;
        }
        s
    }
}
impl<F: Scalar, D: Data<Elem = F>> PredictInplace<ArrayBase<D, Ix2>, Array1<F>> for RowFn<F> {
    fn predict_inplace(&self, x: &ArrayBase<D, Ix2>, y: &mut Array1<F>) {
        assert_eq!(x.nrows(), y.len());
        for (r, t) in x.rows().into_iter().zip(y.iter_mut()) {
            *t = self.f(&r.to_vec());
        }
    }
    fn default_target(&self, x: &ArrayBase<D, Ix2>) -> Array1<F> {
        Array1::from_elem(x.nrows(), F::lit(0.0))
    }
}

fn sym_matrix<F: Scalar>(name: &str, n: usize, d: usize, b: i64) -> Array2<F> {
    let mut m = Array2::from_elem((n, d), F::lit(0.0));
    for i in 0..n {
        for j in 0..d {
            m[(i, j)] = int::<F>(&format!("{}{}_{}", name, i, j), -b, b);
        }
    }
    m
}

/// the four blanket `Predict` forms and `predict_inplace` agree; one output per row; the dataset
/// forms hand the records back unchanged
fn forms<F: Scalar>(p: &Params) {
    let (n, d) = (p.u("n", 3), p.u("d", 2));
    let x = sym_matrix::<F>("x", n, d, 64);
    let m = RowFn { w: (0..d).map(|j| int::<F>(&format!("w{}", j), -8, 8)).collect(), b: int::<F>("b", -8, 8) };
    let want: Vec<F> = x.rows().into_iter().map(|r| m.f(&r.to_vec())).collect();
    let same = |got: &Array1<F>| got.len() == n && (0..n).all(|i| got[i].identical(want[i]));
    // &records
    let y1: Array1<F> = m.predict(&x);
    check_bool("forms.borrowed records: one output per row, value of that row", same(&y1));
    // owned records -> dataset
    let ds2 = m.predict(x.clone());
    check_bool("forms.owned records: targets", same(ds2.targets()));
    check_bool("forms.owned records: records handed back unchanged", ds2.records().dim() == (n, d) && ds2.records().iter().zip(x.iter()).all(|(a, b)| a.identical(*b)));
    // &dataset
    let tags = Array1::from_iter((0..n).map(|i| i));
    let ds = DatasetBase::new(x.clone(), tags);
    let y3: Array1<F> = m.predict(&ds);
    check_bool("forms.borrowed dataset", same(&y3));
    // owned dataset
    let ds4 = m.predict(ds);
    check_bool("forms.owned dataset: targets", same(ds4.targets()));
    check_bool("forms.owned dataset: records handed back unchanged", ds4.records().dim() == (n, d) && ds4.records().iter().zip(x.iter()).all(|(a, b)| a.identical(*b)));
    // in place
    let mut y5 = PredictInplace::<Array2<F>, Array1<F>>::default_target(&m, &x);
    m.predict_inplace(&x, &mut y5);
    check_bool("forms.predict_inplace", same(&y5));
    // non-contiguous batch (every second row of a taller matrix) and a view
    if n >= 2 {
        let v = x.slice(ndarray::s![..;2, ..]);
        let yv: Array1<F> = m.predict(&v);
        let rows: Vec<usize> = (0..n).step_by(2).collect();
        check_bool("forms.strided view", yv.len() == rows.len() && rows.iter().enumerate().all(|(k, &i)| yv[k].identical(want[i])));
    }
    for v in &want {
        observe(*v);
    }
}

/// column j of a multi-target wrapper is model j's prediction (non-square shapes)
fn multi_target<F: Scalar>(p: &Params) {
    let (n, d, m) = (p.u("n", 3), p.u("d", 1), p.u("m", 2));
    let x = sym_matrix::<F>("x", n, d, 64);
    let models: Vec<RowFn<F>> = (0..m).map(|k| RowFn { w: (0..d).map(|j| int::<F>(&format!("w{}_{}", k, j), -8, 8)).collect(), b: int::<F>(&format!("b{}", k), -8, 8) }).collect();
    let want: Vec<Vec<F>> = models.iter().map(|mo| x.rows().into_iter().map(|r| mo.f(&r.to_vec())).collect()).collect();
    let mt: MultiTargetModel<Array2<F>, F> = models.into_iter().collect();
    let y: Array2<F> = mt.predict(&x);
    check_bool("multi_target.shape is (rows, models)", y.dim() == (n, m));
    if y.dim() == (n, m) {
        for i in 0..n {
            for k in 0..m {
                check_bool("multi_target.column j is model j's prediction of that row", y[(i, k)].identical(want[k][i]));
                observe(y[(i, k)]);
            }
        }
    }
}

// ---- multi-class wrapper: member models return solver-chosen probabilities ----------------------
struct PrTable {
    pr: Vec<f32>,
}
impl<F, D: Data<Elem = F>> PredictInplace<ArrayBase<D, Ix2>, Array1<Pr>> for PrTable {
    fn predict_inplace(&self, x: &ArrayBase<D, Ix2>, y: &mut Array1<Pr>) {
        assert_eq!(x.nrows(), y.len());
        for (i, t) in y.iter_mut().enumerate() {
            *t = Pr::new(self.pr[i]);
        }
    }
    fn default_target(&self, x: &ArrayBase<D, Ix2>) -> Array1<Pr> {
        Array1::default(x.nrows())
    }
}
fn multi_class(p: &Params) {
    let (n, m, levels) = (p.u("n", 2), p.u("m", 3), p.u("levels", 3));
    let x = Array2::<f64>::zeros((n, 1));
    // probability of model k for row i: solver-chosen level / (levels-1)
    let table: Vec<Vec<usize>> = (0..m).map(|k| (0..n).map(|i| choice(&format!("pr{}_{}", k, i), levels)).collect()).collect();
    let pr = |k: usize, i: usize| table[k][i] as f32 / (levels - 1) as f32;
    let mc: MultiClassModel<Array2<f64>, usize> = (0..m).map(|k| (10 + k, PrTable { pr: (0..n).map(|i| pr(k, i)).collect() })).collect();
    let y: Array1<usize> = mc.predict(&x);
    check_bool("multi_class.one label per row", y.len() == n);
    for i in 0..n.min(y.len()) {
        let best = (0..m).map(|k| table[k][i]).max().unwrap();
        let ok = y[i] >= 10 && y[i] < 10 + m && table[y[i] - 10][i] == best;
        check_bool("multi_class.label of a member model with the highest probability", ok);
    }
}

/// Platt wrapper pairs each decision value with its own row (concrete values; platt_predict works in f32)
fn platt_pairing<F: Scalar>(_p: &Params) {
    use linfa::composing::platt_scaling::{platt_predict, Platt};
    let x = ndarray::arr2(&[[F::lit(-3.0)], [F::lit(0.5)], [F::lit(2.0)], [F::lit(-0.25)]]);
    let inner = RowFn { w: vec![F::lit(2.0)], b: F::lit(1.0) };
    let dec: Vec<F> = x.rows().into_iter().map(|r| inner.f(&r.to_vec())).collect();
    let ds = DatasetBase::new(x.clone(), ndarray::arr1(&[false, true, true, false]));
    let platt = Platt::params().fit_with(inner, &ds);
    check_bool("platt.fit on separable toy data succeeds", platt.is_ok());
    if let Ok(pl) = platt {
        let pr: Array1<Pr> = pl.predict(&x);
        check_bool("platt.one probability per row", pr.len() == 4);
        let mut mono = true;
        for i in 0..4 {
            check_bool("platt.probability in [0,1]", *pr[i] >= 0.0 && *pr[i] <= 1.0);
            for j in 0..4 {
                // a monotone sigmoid of the inner decision value: order of probabilities follows (or
                // reverses, for negative A) the order of decision values consistently
                if dec[i].shadow() < dec[j].shadow() && dec[0].shadow() < dec[1].shadow() {
                    let up = *pr[0] <= *pr[1];
                    if up && *pr[i] > *pr[j] || !up && *pr[i] < *pr[j] {
                        mono = false;
                    }
                }
            }
        }
        check_bool("platt.monotone in the inner decision value", mono);
        let _ = platt_predict::<f64>;
    }
}

// ---- real predictors: batch composition, order and layout do not matter -------------------------
fn batches_agree<F: Scalar, T: Clone, P>(name: &str, model: &P, q: &Array2<F>, big: usize, eq: impl Fn(&T, &T) -> bool)
where
    P: for<'a> Predict<&'a Array2<F>, Array1<T>> + for<'a> Predict<&'a ndarray::ArrayView2<'a, F>, Array1<T>>,
{
    let n = q.nrows();
    let full: Array1<T> = model.predict(q);
    check_bool(&format!("{}.one output per row", name), full.len() == n);
    // each row alone
    for i in 0..n {
        let one = q.slice(ndarray::s![i..i + 1, ..]).to_owned();
        let y: Array1<T> = model.predict(&one);
        check_bool(&format!("{}.row alone == row in batch", name), y.len() == 1 && eq(&y[0], &full[i]));
    }
    // reversed order
    let rev = q.slice(ndarray::s![..;-1, ..]).to_owned();
    let yr: Array1<T> = model.predict(&rev);
    check_bool(&format!("{}.reversed batch", name), yr.len() == n && (0..n).all(|i| eq(&yr[n - 1 - i], &full[i])));
    // duplicated rows
    let mut dup = Array2::from_elem((2 * n, q.ncols()), F::lit(0.0));
    for i in 0..n {
        dup.row_mut(2 * i).assign(&q.row(i));
        dup.row_mut(2 * i + 1).assign(&q.row(i));
    }
    let yd: Array1<T> = model.predict(&dup);
    check_bool(&format!("{}.duplicated rows", name), yd.len() == 2 * n && (0..n).all(|i| eq(&yd[2 * i], &full[i]) && eq(&yd[2 * i + 1], &full[i])));
    // column-major copy
    let mut cm = Array2::from_elem((n, q.ncols()).f(), F::lit(0.0));
    cm.assign(q);
    let yc: Array1<T> = model.predict(&cm);
    check_bool(&format!("{}.column-major copy", name), yc.len() == n && (0..n).all(|i| eq(&yc[i], &full[i])));
    // strided (non-contiguous) view: every second row of the duplicated matrix
    let sv = dup.slice(ndarray::s![..;2, ..]);
    let ys: Array1<T> = model.predict(&sv);
    check_bool(&format!("{}.strided view", name), ys.len() == n && (0..n).all(|i| eq(&ys[i], &full[i])));
    // empty batch
    let empty = Array2::from_elem((0, q.ncols()), F::lit(0.0));
    let ye: Array1<T> = model.predict(&empty);
    check_bool(&format!("{}.empty batch gives no output", name), ye.is_empty());
    // a large batch of concrete rows (code paths selected by the batch size: chunking, fast paths)
    if big > 0 {
        // every ninth row lies far away (x 1e4), every thirteenth very close to the origin (x 1e-6)
        let bq = Array2::from_shape_fn((big, q.ncols()), |(r, j)| F::lit(((((r * 7 + j * 3) % 11) as f64) - 5.0) * if r % 9 == 8 { 1e4 } else if r % 13 == 12 { 1e-6 } else { 1.0 }));
        let yb: Array1<T> = model.predict(&bq);
        check_bool(&format!("{}.large batch: one output per row", name), yb.len() == big);
        for r in 0..big.min(yb.len()) {
            let one = bq.slice(ndarray::s![r..r + 1, ..]).to_owned();
            let y1: Array1<T> = model.predict(&one);
            check_bool(&format!("{}.large batch: row alone == row in batch", name), y1.len() == 1 && eq(&y1[0], &yb[r]));
        }
    }
}

/// values of arithmetic predictors: the same term, or equal up to a relative 1e-9 (a different memory
/// layout may change ndarray's summation order, i.e. the last bits, which the property does not forbid)
fn feq<F: Scalar>(a: &F, b: &F) -> bool {
    if a.identical(*b) {
        return true;
    }
    let tol = F::lit(1e-9) * (F::lit(1.0) + num_traits::Float::abs(*a));
    check("predicted values equal (relative 1e-9)", num_traits::Float::abs(*a - *b).s_le(tol));
    true
}

fn real_models<F: Scalar>(p: &Params) {
    let which = p.u("model", 0);
    let (nq, d) = (p.u("nq", 2), p.u("d", 1));
    let b = p.get("B", 16);
    let sym_train = p.u("symtrain", 0) == 1;
    let big = p.u("big", 0);
    // training data: concrete by default (fits divide; the property is about prediction), symbolic on request
    let nt = p.u("nt", 4);
    let conc: [[f64; 3]; 6] = [[-3.0, 1.0, 2.0], [-1.0, -2.0, 0.0], [0.0, 3.0, -1.0], [2.0, 2.0, 4.0], [3.0, -1.0, 1.0], [5.0, 0.0, -2.0]];
    let mut xt = Array2::from_elem((nt, d), F::lit(0.0));
    for i in 0..nt {
        for j in 0..d {
            xt[(i, j)] = if sym_train { int::<F>(&format!("t{}_{}", i, j), -b, b) } else { F::lit(conc[i % 6][j % 3] + (i / 6) as f64) };
        }
    }
    let labels_u = Array1::from_iter((0..nt).map(|i| (i * 2 / nt).min(1)));
    let labels_b = labels_u.mapv(|l| l == 1);
    let yreg = Array1::from_iter((0..nt).map(|i| F::lit([1.0, -2.0, 0.5, 3.0, 2.0, -1.0][i % 6])));
    let q = sym_matrix::<F>("q", nq, d, b);
    match which {
        0 => {
            use linfa_clustering::{KMeans, KMeansInit};
            if !sym_train {
                // concrete training set on which one Lloyd step divides by 2 and 4 only (dyadic centroids)
                let km: [[f64; 2]; 4] = [[-3.0, 1.0], [2.0, 2.0], [3.0, -1.0], [5.0, 0.0]];
                xt = Array2::from_shape_fn((4, d), |(i, j)| F::lit(km[i][j % 2]));
            }
            let init = Array2::from_shape_fn((2, d), |(k, j)| if sym_train { int::<F>(&format!("c{}_{}", k, j), -b, b) } else { F::lit(if k == 0 { -2.0 } else { 3.0 } + if j % 2 == 1 { k as f64 } else { 0.0 }) });
            let m = KMeans::params_with(2, rand::rngs::mock::StepRng::new(0, 1), linfa_nn::distance::L1Dist).init_method(KMeansInit::Precomputed(init)).n_runs(1).max_n_iterations(1).tolerance(F::lit(1e-9)).fit(&DatasetBase::from(xt.clone()));
            let m = match m {
                Ok(m) => m,
                Err(_) => return,
            };
            batches_agree::<F, usize, _>("kmeans", &m, &q, big, |a, b| a == b);
        }
        1 => {
            let m = linfa_linear::LinearRegression::default().fit(&Dataset::new(xt.clone(), yreg.clone())).expect("ols fit");
            batches_agree::<F, F, _>("ols", &m, &q, big, feq::<F>);
        }
        2 => {
            let m = linfa_elasticnet::ElasticNet::<F>::params().penalty(F::lit(0.25)).l1_ratio(F::lit(0.5)).max_iterations(20).fit(&Dataset::new(xt.clone(), yreg.clone())).expect("enet fit");
            batches_agree::<F, F, _>("elasticnet", &m, &q, big, feq::<F>);
        }
        3 => {
            let m = linfa_trees::DecisionTree::<F, usize>::params().fit(&Dataset::new(xt.clone(), labels_u.clone())).expect("tree fit");
            batches_agree::<F, usize, _>("tree", &m, &q, big, |a, b| a == b);
        }
        4 => {
            let m = linfa_bayes::GaussianNb::<F, usize>::params().fit(&Dataset::new(xt.clone(), labels_u.clone())).expect("gnb fit");
            batches_agree::<F, usize, _>("gaussian_nb", &m, &q, big, |a, b| a == b);
        }
        5 => {
            let xa = xt.mapv(|v| num_traits::Float::abs(v));
            let qa = q.mapv(|v| num_traits::Float::abs(v));
            let m = linfa_bayes::MultinomialNb::<F, usize>::params().fit(&Dataset::new(xa, labels_u.clone())).expect("mnb fit");
            batches_agree::<F, usize, _>("multinomial_nb", &m, &qa, big, |a, b| a == b);
        }
        6 => {
            let m = linfa_svm::Svm::<F, bool>::params().linear_kernel().fit(&Dataset::new(xt.clone(), labels_b.clone())).expect("svm fit");
            batches_agree::<F, bool, _>("svm", &m, &q, big, |a, b| a == b);
        }
        _ => {
            // multi-task elastic net: Array2 outputs, checked row by row
            let y2 = Array2::from_shape_fn((nt, 2), |(i, k)| yreg[i] * F::lit(1.0 + k as f64));
            let m = linfa_elasticnet::MultiTaskElasticNet::<F>::params().penalty(F::lit(0.25)).l1_ratio(F::lit(0.5)).max_iterations(20).fit(&Dataset::new(xt.clone(), y2)).expect("mt enet fit");
            let full: Array2<F> = m.predict(&q);
            check_bool("mt_elasticnet.one output row per input row", full.nrows() == nq);
            for i in 0..nq {
                let one = q.slice(ndarray::s![i..i + 1, ..]).to_owned();
                let y: Array2<F> = m.predict(&one);
                for k in 0..2 {
                    feq(&y[(0, k)], &full[(i, k)]);
                }
            }
            let rev = q.slice(ndarray::s![..;-1, ..]).to_owned();
            let yr: Array2<F> = m.predict(&rev);
            for i in 0..nq {
                for k in 0..2 {
                    feq(&yr[(nq - 1 - i, k)], &full[(i, k)]);
                }
            }
        }
    }
    let _ = Axis(0);
}


/// same batch-independence obligations for predictors given as a closure from a batch (any layout) to one
/// output vector per row
fn batches_agree_fn<F: Scalar, T: Clone>(name: &str, q: &Array2<F>, big: usize, pred: &dyn Fn(ndarray::ArrayView2<F>) -> Vec<Vec<T>>, eq: impl Fn(&T, &T) -> bool) {
    let n = q.nrows();
    let same = |a: &Vec<T>, b: &Vec<T>| a.len() == b.len() && a.iter().zip(b).all(|(x, y)| eq(x, y));
    let full = pred(q.view());
    check_bool(&format!("{}.one output per row", name), full.len() == n);
    if full.len() != n {
        return;
    }
    for i in 0..n {
        let one = q.slice(ndarray::s![i..i + 1, ..]).to_owned();
        let y = pred(one.view());
        check_bool(&format!("{}.row alone == row in batch", name), y.len() == 1 && same(&y[0], &full[i]));
    }
    let rev = q.slice(ndarray::s![..;-1, ..]).to_owned();
    let yr = pred(rev.view());
    check_bool(&format!("{}.reversed batch", name), yr.len() == n && (0..n).all(|i| same(&yr[n - 1 - i], &full[i])));
    let mut dup = Array2::from_elem((2 * n, q.ncols()), F::lit(0.0));
    for i in 0..n {
        dup.row_mut(2 * i).assign(&q.row(i));
        dup.row_mut(2 * i + 1).assign(&q.row(i));
    }
    let yd = pred(dup.view());
    check_bool(&format!("{}.duplicated rows", name), yd.len() == 2 * n && (0..n).all(|i| same(&yd[2 * i], &full[i]) && same(&yd[2 * i + 1], &full[i])));
    let mut cm = Array2::from_elem((n, q.ncols()).f(), F::lit(0.0));
    cm.assign(q);
    let yc = pred(cm.view());
    check_bool(&format!("{}.column-major copy", name), yc.len() == n && (0..n).all(|i| same(&yc[i], &full[i])));
    let sv = dup.slice(ndarray::s![..;2, ..]);
    let ys = pred(sv);
    check_bool(&format!("{}.strided view", name), ys.len() == n && (0..n).all(|i| same(&ys[i], &full[i])));
    let empty = Array2::from_elem((0, q.ncols()), F::lit(0.0));
    check_bool(&format!("{}.empty batch gives no output", name), pred(empty.view()).is_empty());
    if big > 0 {
        // every ninth row lies far away (x 1e4), every thirteenth very close to the origin (x 1e-6)
        let bq = Array2::from_shape_fn((big, q.ncols()), |(r, j)| F::lit(((((r * 7 + j * 3) % 11) as f64) - 5.0) * if r % 9 == 8 { 1e4 } else if r % 13 == 12 { 1e-6 } else { 1.0 }));
        let yb = pred(bq.view());
        check_bool(&format!("{}.large batch: one output per row", name), yb.len() == big);
        for r in 0..big.min(yb.len()) {
            let one = bq.slice(ndarray::s![r..r + 1, ..]).to_owned();
            let y1 = pred(one.view());
            check_bool(&format!("{}.large batch: row alone == row in batch", name), y1.len() == 1 && same(&y1[0], &yb[r]));
        }
    }
}

/// predictors whose `fit` exists for primitive floats only but whose `predict` is generic: fitted on concrete
/// f64 data, re-typed over the scalar through serde (`symx::to_scalar_model`), queried on symbolic rows
fn retyped_models<F: Scalar + serde::Serialize + serde::de::DeserializeOwned>(p: &Params) {
    let which = p.u("model", 0);
    let (nq, d) = (p.u("nq", 2), p.u("d", 2));
    let b = p.get("B", 8);
    let big = p.u("big", 0);
    let a: [[f64; 3]; 8] = [[-3.0, 1.0, 2.0], [-1.0, -2.0, 0.0], [0.0, 3.0, -1.0], [2.0, 2.0, 4.0], [3.0, -1.0, 1.0], [5.0, 0.0, -2.0], [1.0, 1.5, 0.5], [-2.0, 0.5, 3.0]];
    let nt = 8;
    let xt = Array2::from_shape_fn((nt, d), |(i, j)| a[i][j % 3]);
    let q = sym_matrix::<F>("q", nq, d, b);
    let rows2 = |y: Array2<F>| -> Vec<Vec<F>> { y.rows().into_iter().map(|r| r.to_vec()).collect() };
    match which {
        0 => {
            let m64 = linfa_reduction::Pca::params(d.min(2)).fit(&DatasetBase::from(xt.clone())).expect("pca fit");
            let m: linfa_reduction::Pca<F> = symx::to_scalar_model(&m64);
            batches_agree_fn::<F, F>("pca", &q, big, &|x| rows2(m.predict(&x)), feq::<F>);
        }
        1 => {
            let y2 = Array2::from_shape_fn((nt, 2), |(i, k)| a[i][0] * (1.0 + k as f64) - 0.5 * a[i][1] + 0.05 * i as f64);
            let m64 = linfa_pls::PlsRegression::<f64>::params(d.min(2)).fit(&Dataset::new(xt.clone(), y2)).expect("pls fit");
            let m: linfa_pls::PlsRegression<F> = symx::to_scalar_model(&m64);
            batches_agree_fn::<F, F>("pls_regression", &q, big, &|x| rows2(m.predict(&x)), feq::<F>);
        }
        _ => {
            use linfa_clustering::GaussianMixtureModel;
            let m64 = GaussianMixtureModel::params(2).n_runs(1).max_n_iterations(20).fit(&DatasetBase::from(xt.clone())).expect("gmm fit");
            let m: GaussianMixtureModel<F> = symx::to_scalar_model(&m64);
            batches_agree_fn::<F, usize>("gmm", &q, big, &|x| m.predict(&x).iter().map(|v| vec![*v]).collect(), |a, b| a == b);
        }
    }
}

pub fn register(v: &mut Vec<HarnessDef>) {
    harness!(v, "c03.forms", "C03", forms,
        "the four blanket Predict forms, predict_inplace and a strided view agree on a per-row mock predictor",
        ["linfa::traits::Predict blanket impls (src/dataset/impl_dataset.rs)", "PredictInplace::default_target"],
        ["mock predictor: affine function of the row with symbolic weights"]);
    harness!(v, "c03.multi_target", "C03", multi_target,
        "MultiTargetModel: column j is model j's prediction",
        ["linfa::composing::MultiTargetModel::{from_iter, predict_inplace, default_target}"], []);
    harness_sym!(v, "c03.multi_class", "C03", multi_class,
        "MultiClassModel returns the label of a member with the highest probability (probabilities chosen by the solver on a small grid)",
        ["linfa::composing::MultiClassModel::{from_iter, predict_inplace}"], ["probabilities on the grid j/(levels-1)"]);
    harness!(v, "c03.platt_pairing", "C03", platt_pairing,
        "Platt wrapper: one probability in [0,1] per row, monotone in the inner decision value (concrete toy data, one path)",
        ["linfa::composing::platt_scaling::{Platt::fit_with, Platt::predict_inplace, platt_predict}"], ["concrete data (platt_predict computes in f32)"]);
    harness!(v, "c03.batches", "C03", real_models,
        "real fitted predictors: a row's prediction does not depend on batch composition, order, duplication or memory layout",
        ["KMeans::predict_inplace", "FittedLinearRegression::predict_inplace", "ElasticNet::predict_inplace", "MultiTaskElasticNet::predict_inplace", "DecisionTree::predict_inplace / make_prediction", "GaussianNb / MultinomialNb::predict_inplace (base_nb)", "Svm<F,bool>::predict_inplace / weighted_sum"],
        ["query rows symbolic integers in [-B,B]; training data concrete unless symtrain=1", "arithmetic outputs compared in exact arithmetic (summation order may differ between layouts)"]);
    harness!(v, "c03.batches_retyped", "C03", retyped_models,
        "predictors whose fit is tied to f64 but whose predict is generic over linfa::Float (PCA, PLS regression, Gaussian mixture; Tweedie and isotonic regression bound their predict to argmin's float trait and cannot be re-typed) are fitted on concrete data, re-typed over the symbolic scalar through serde and queried on symbolic rows: batch composition, order, duplication and layout do not matter",
        ["Pca::predict_inplace", "PlsRegression::predict_inplace (Pls::predict)", "GaussianMixtureModel::predict_inplace (estimate_log_prob_resp)"],
        ["fitted parameters are concrete f64 constants (non-dyadic: products are inexact, outputs compared to a relative 1e-9)", "query rows symbolic integers in [-B,B]"]);
}

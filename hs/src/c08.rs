//! C08 — DBSCAN and OPTICS against the density-clustering definitions, recomputed by the harness from
//! the same symbolic coordinates (integration layer: the three real neighbour indices) or from a
//! symbolic distance table (contract layer: mock index answering in another order).
//!
//! Conventions used by every harness here
//! * "within the tolerance" is strict (`d < tolerance`), as in all three `within_range` implementations.
//! * `ties`: 0 = assume the tolerance differs from every inter-point distance, 1 = no restriction
//!   (superset of 0), 2 = assume at least one inter-point distance equals the tolerance.
//! * `part` (bit mask) selects obligation groups so that a recorded finding can live in a job of its own
//!   while the other groups are still explored exhaustively (the explorer stops at the first violation).
//! * `mut` is a hidden parameter that breaks the oracle / the observed output on purpose (used once to
//!   see every obligation fail; never registered).
use crate::common::*;
use crate::harness;
use linfa::traits::Transformer;
use linfa::{Float, ParamGuard};
use linfa_clustering::{Dbscan, Optics};
use linfa_nn::distance::{Distance, L1Dist, L2Dist, LInfDist};
use linfa_nn::{BuildError, CommonNearestNeighbour, NearestNeighbour, NearestNeighbourIndex, NnError};
use ndarray::{Array2, ArrayBase, ArrayView, ArrayView1, ArrayView2, Data, Dimension, Ix2};

type NnBox<'a, F> = Box<dyn 'a + Send + Sync + NearestNeighbourIndex<F>>;

// ---------------------------------------------------------------------------------------------
// neighbour indices handed to linfa

fn index_kind(i: usize) -> CommonNearestNeighbour {
    match i {
        0 => CommonNearestNeighbour::BallTree,
        1 => CommonNearestNeighbour::KdTree,
        _ => CommonNearestNeighbour::LinearSearch,
    }
}

/// One of linfa's three real indices.  DBSCAN/OPTICS build the index with `from_batch` (leaf size 16, so
/// for n <= 16 both trees are a single leaf); `leaf > 0` makes the same real index code build a real tree
/// (leaf size `leaf`), `leaf == 0` is linfa's own default.
#[derive(Debug, Clone)]
struct RealIndex {
    kind: CommonNearestNeighbour,
    leaf: usize,
}
impl NearestNeighbour for RealIndex {
    fn from_batch_with_leaf_size<'a, F: Float, DT: Data<Elem = F>, D: 'a + Distance<F>>(
        &self,
        batch: &'a ArrayBase<DT, Ix2>,
        leaf_size: usize,
        dist_fn: D,
    ) -> Result<NnBox<'a, F>, BuildError> {
        let leaf = if self.leaf == 0 { leaf_size } else { self.leaf };
        self.kind.from_batch_with_leaf_size(batch, leaf, dist_fn)
    }
}

/// Mock index of the contract layer: the answer *set* is the definition (`rdistance < dist_to_rdist(range)`
/// over all rows, like the linear scan), the answer *order* is the parameter:
/// 0 row order, 1 reversed row order, 2 ascending distance, 3 descending distance, 4 by `rank` (a permutation
/// picked by the solver).  `NearestNeighbourIndex::within_range` documents "not guaranteed to be in any order".
#[derive(Debug, Clone)]
struct MockNn {
    order: usize,
    rank: Vec<usize>,
}
struct MockIndex<'a, F: Float, D: Distance<F>> {
    pts: ArrayView2<'a, F>,
    dist: D,
    order: usize,
    rank: Vec<usize>,
}
impl<F: Float, D: Distance<F>> NearestNeighbourIndex<F> for MockIndex<'_, F, D> {
    fn k_nearest(&self, _point: ArrayView1<'_, F>, _k: usize) -> Result<Vec<(ArrayView1<F>, usize)>, NnError> {
        panic!("mock index: k_nearest is not part of the DBSCAN/OPTICS contract")
    }
    fn within_range(&self, point: ArrayView1<'_, F>, range: F) -> Result<Vec<(ArrayView1<F>, usize)>, NnError> {
        if self.pts.ncols() != point.len() {
            return Err(NnError::WrongDimension);
        }
        let r = self.dist.dist_to_rdist(range);
        let mut v: Vec<(usize, F)> = Vec::new();
        for (i, pt) in self.pts.rows().into_iter().enumerate() {
            let d = self.dist.rdistance(point.reborrow(), pt.reborrow());
            if d < r {
                v.push((i, d));
            }
        }
        match self.order {
            1 => v.reverse(),
            2 | 3 => {
                // insertion sort with the scalar's own comparisons
                for a in 1..v.len() {
                    let mut b = a;
                    while b > 0 && v[b].1 < v[b - 1].1 {
                        v.swap(b, b - 1);
                        b -= 1;
                    }
                }
                if self.order == 3 {
                    v.reverse();
                }
            }
            4 => v.sort_by_key(|(i, _)| self.rank[*i]),
            _ => {}
        }
        Ok(v.into_iter().map(|(i, _)| (self.pts.row(i), i)).collect())
    }
}
impl NearestNeighbour for MockNn {
    fn from_batch_with_leaf_size<'a, F: Float, DT: Data<Elem = F>, D: 'a + Distance<F>>(
        &self,
        batch: &'a ArrayBase<DT, Ix2>,
        _leaf_size: usize,
        dist_fn: D,
    ) -> Result<NnBox<'a, F>, BuildError> {
        if batch.ncols() == 0 {
            return Err(BuildError::ZeroDimension);
        }
        Ok(Box::new(MockIndex { pts: batch.view(), dist: dist_fn, order: self.order, rank: self.rank.clone() }))
    }
}

/// Mock metric of the contract layer: points are 1-D *constants* (their row number) and the distance is
/// looked up in a symbolic table (symmetric, zero diagonal).
#[derive(Clone)]
struct TableDist<F> {
    n: usize,
    t: Vec<F>,
}
impl<F: Scalar> Distance<F> for TableDist<F> {
    fn distance<D: Dimension>(&self, a: ArrayView<F, D>, b: ArrayView<F, D>) -> F {
        // the coordinates are constants (row ids), reading them is not a concretisation
        let i = a.iter().next().expect("1-D point").shadow() as usize;
        let j = b.iter().next().expect("1-D point").shadow() as usize;
        self.t[i * self.n + j]
    }
}

// ---------------------------------------------------------------------------------------------
// inputs

thread_local! {
    /// `sym` (rows that are symbolic; the others are fixed points of the domain) and `tolc` (fixed tolerance, 0 = symbolic)
    static WIDE: std::cell::Cell<(usize, i64)> = std::cell::Cell::new((usize::MAX, 0));
}
/// wide / shallow instances: `sym=s` makes only the first s points symbolic, the remaining ones are fixed
/// (an ascending run with gaps of 3, then points inside the gaps, one duplicate), `tolc=t` fixes the tolerance
fn set_wide(p: &Params) {
    WIDE.with(|w| w.set((p.get("sym", -1).max(-1) as usize, p.get("tolc", 0))));
}
fn coordinates<F: Scalar>(n: usize, d: usize, b: i64) -> Array2<F> {
    let sym = WIDE.with(|w| w.get().0);
    let mut pts = Array2::from_elem((n, d), F::lit(0.0));
    for i in 0..n {
        for j in 0..d {
            pts[(i, j)] = if i < sym {
                int::<F>(&format!("p{}_{}", i, j), -b, b)
            } else {
                // an ascending run (gaps of 3) followed by points inside its gaps, the last one a duplicate of the first:
                // in row order a neighbourhood starts sorted by distance and nearer points come later
                let (k, f) = ((i - sym) as i64, (n - sym) as i64);
                let m = (2 * f + 2) / 3;
                let v = if f >= 4 && k == f - 1 { -b } else if k < m { -b + 3 * k } else { -b + 3 * (k - m) + 1 };
                F::lit((v + j as i64 * 3).clamp(-b, b) as f64)
            };
        }
    }
    pts
}

/// harness-side distance matrix from the coordinate terms.  metric 1: L1, 2: *squared* L2, 3: Linf
fn dist_matrix<F: Scalar>(metric: usize, pts: &Array2<F>) -> Vec<Vec<F>> {
    let (n, d) = pts.dim();
    let mut m = vec![vec![F::lit(0.0); n]; n];
    for i in 0..n {
        for j in i + 1..n {
            let mut s = F::lit(0.0);
            for k in 0..d {
                let e = pts[(i, k)] - pts[(j, k)];
                match metric {
                    1 => s = s + num_traits::Float::abs(e),
                    2 => s = s + e * e,
                    _ => s = num_traits::Float::max(s, num_traits::Float::abs(e)),
                }
            }
            m[i][j] = s;
            m[j][i] = s;
        }
    }
    m
}

/// symbolic distance table (contract layer): integers 0..=b, symmetric, zero diagonal; optionally a metric
fn table<F: Scalar>(n: usize, b: i64, tri: bool) -> Vec<Vec<F>> {
    let mut m = vec![vec![F::lit(0.0); n]; n];
    for i in 0..n {
        for j in i + 1..n {
            let t = int::<F>(&format!("d{}_{}", i, j), 0, b);
            m[i][j] = t;
            m[j][i] = t;
        }
    }
    if tri {
        for i in 0..n {
            for j in i + 1..n {
                for k in 0..n {
                    if k != i && k != j {
                        assume(m[i][j].s_le(m[i][k] + m[k][j]));
                    }
                }
            }
        }
    }
    m
}

fn tie_domain<F: Scalar>(ties: usize, d: &[Vec<F>], thr: F) {
    let n = d.len();
    let mut eqs = vec![];
    for i in 0..n {
        for j in i + 1..n {
            eqs.push(d[i][j].s_eq(thr));
        }
    }
    match ties {
        0 => {
            for e in eqs {
                assume(e.not());
            }
        }
        2 => assume(SymB::any(&eqs)),
        _ => {}
    }
}

// ---------------------------------------------------------------------------------------------
// oracle: density structure straight from the definition

struct Density {
    within: Vec<Vec<bool>>,
    core: Vec<bool>,
    /// component number of every core point (density-connected components of the core graph)
    comp: Vec<usize>,
}

/// `d` and `thr` may both be "reduced" (squared for L2); the comparisons below are recorded branches of the
/// path, so everything derived from them is decided on the path.
fn density<F: Scalar>(d: &[Vec<F>], thr: F, mp: usize, mutation: usize) -> Density {
    let n = d.len();
    let mut within = vec![vec![false; n]; n];
    for i in 0..n {
        within[i][i] = true; // d(i,i) = 0 < tolerance (domain: tolerance >= 1)
        for j in i + 1..n {
            let w = if mutation == 1 { d[i][j] <= thr } else { d[i][j] < thr };
            within[i][j] = w;
            within[j][i] = w;
        }
    }
    let core: Vec<bool> = (0..n)
        .map(|i| {
            let c = within[i].iter().filter(|w| **w).count();
            if mutation == 2 {
                c - 1 >= mp
            } else {
                c >= mp
            }
        })
        .collect();
    let mut comp = vec![usize::MAX; n];
    let mut nc = 0;
    for s in 0..n {
        if !core[s] || comp[s] != usize::MAX {
            continue;
        }
        let mut stack = vec![s];
        comp[s] = nc;
        while let Some(x) = stack.pop() {
            for y in 0..n {
                if core[y] && within[x][y] && comp[y] == usize::MAX {
                    comp[y] = nc;
                    stack.push(y);
                }
            }
        }
        nc += 1;
    }
    Density { within, core, comp }
}

fn check_dbscan(den: &Density, labels: &[Option<usize>]) {
    let n = den.core.len();
    check_bool("dbscan.one label slot per sample", labels.len() == n);
    if labels.len() != n {
        return;
    }
    for i in 0..n {
        let reachable = den.core[i] || (0..n).any(|j| den.core[j] && den.within[i][j]);
        check_bool("dbscan.a point is labelled exactly when it is core or within the tolerance of a core point", labels[i].is_some() == reachable);
    }
    for i in 0..n {
        for j in i + 1..n {
            if !(den.core[i] && den.core[j]) {
                continue;
            }
            if let (Some(a), Some(b)) = (labels[i], labels[j]) {
                if den.within[i][j] {
                    check_bool("dbscan.two core points within the tolerance of each other carry the same label", a == b);
                }
                if den.comp[i] != den.comp[j] {
                    check_bool("dbscan.core points of different density-connected components carry different labels", a != b);
                }
            }
        }
    }
    for i in 0..n {
        if let (false, Some(l)) = (den.core[i], labels[i]) {
            let ok = (0..n).any(|j| den.core[j] && den.within[i][j] && labels[j] == Some(l));
            check_bool("dbscan.a border point carries the label of some core point that reaches it", ok);
        }
    }
    let mut used: Vec<usize> = labels.iter().flatten().copied().collect();
    used.sort_unstable();
    used.dedup();
    check_bool("dbscan.labels are 0..c-1 without gaps", used.iter().enumerate().all(|(k, l)| k == *l));
}

/// what the statement requires to be independent of the index: who is labelled, and which core points share a label
fn check_dbscan_same(den: &Density, a: &[Option<usize>], b: &[Option<usize>]) {
    let n = den.core.len();
    let mut same = a.len() == n && b.len() == n;
    if same {
        for i in 0..n {
            same &= a[i].is_some() == b[i].is_some();
            for j in i + 1..n {
                if den.core[i] && den.core[j] {
                    same &= (a[i] == a[j]) == (b[i] == b[j]);
                }
            }
        }
    }
    check_bool("dbscan.labelled set and co-clustering of core points do not depend on the neighbour index", same);
}

fn mutate_labels(mutation: usize, den: &Density, labels: &mut [Option<usize>]) {
    match mutation {
        3 => {
            // give the last labelled point a fresh label
            let c = labels.iter().flatten().max().map(|m| m + 1).unwrap_or(0);
            if let Some(l) = labels.iter_mut().rev().find(|l| l.is_some()) {
                *l = Some(c);
            }
        }
        4 => labels.iter_mut().for_each(|l| *l = l.map(|x| x + 1)),
        5 => labels.iter_mut().for_each(|l| *l = l.map(|x| if x == 1 { 0 } else { x })),
        6 => {
            // a border point is moved to the next cluster
            if let Some(i) = (0..labels.len()).find(|&i| !den.core[i] && labels[i].is_some()) {
                labels[i] = labels[i].map(|x| x + 1);
            }
        }
        _ => {}
    }
}

fn observe_labels(labels: &[Option<usize>]) {
    for l in labels {
        observe_usize(l.map(|x| x + 1).unwrap_or(0));
    }
}

// ---------------------------------------------------------------------------------------------
// DBSCAN

fn run_dbscan<F: Scalar, N: NearestNeighbour>(nn: N, metric: usize, mp: usize, tol: F, pts: &Array2<F>) -> Vec<Option<usize>> {
    macro_rules! go {
        ($m:expr) => {
            Dbscan::params_with(mp, $m, nn).tolerance(tol).check().expect("valid hyper-parameters").transform(pts).to_vec()
        };
    }
    match metric {
        1 => go!(L1Dist),
        2 => go!(L2Dist),
        _ => go!(LInfDist),
    }
}

fn tol_input<F: Scalar>(metric: usize, d: usize, b: i64) -> F {
    // large enough to exceed every inter-point distance of the domain
    let hi = match metric {
        1 => 2 * b * d.max(1) as i64 + 1,
        _ => 2 * b + 1,
    };
    let tolc = WIDE.with(|w| w.get().1);
    if tolc > 0 {
        return F::lit(tolc as f64);
    }
    int::<F>("tolerance", 1, if metric == 2 { 2 * b * d.max(1) as i64 + 1 } else { hi })
}

/// integration layer: real coordinates, real indices.  kind = 0 ball tree, 1 k-d tree, 2 linear scan,
/// -1 all three in one run plus the index-independence obligation.
fn dbscan<F: Scalar>(p: &Params) {
    set_wide(p);
    let (n, d, mp) = (p.u("n", 3), p.u("d", 1), p.u("mp", 2));
    let (metric, leaf, b, ties, mutation) = (p.u("metric", 1), p.u("leaf", 0), p.get("B", 1024), p.u("ties", 1), p.u("mut", 0));
    let kinds: Vec<usize> = match p.get("kind", -1) {
        -1 => vec![0, 1, 2],
        x => vec![x as usize],
    };
    let pts = coordinates::<F>(n, d, b);
    let tol = tol_input::<F>(metric, d, b);
    let dm = dist_matrix(metric, &pts);
    let thr = if metric == 2 { tol * tol } else { tol };
    tie_domain(ties, &dm, thr);
    let mut results = vec![];
    for &k in &kinds {
        let labels = run_dbscan(RealIndex { kind: index_kind(k), leaf }, metric, mp, tol, &pts);
        observe_labels(&labels);
        results.push(labels);
    }
    let den = density(&dm, thr, mp, mutation);
    if mutation == 8 {
        // hidden: only the index-independence obligation, with the last answer perturbed
        let last = results.len() - 1;
        mutate_labels(5, &den, &mut results[last]);
    } else {
        for labels in results.iter_mut() {
            mutate_labels(mutation, &den, labels);
            check_dbscan(&den, labels);
        }
    }
    for r in &results[1..] {
        check_dbscan_same(&den, &results[0], r);
    }
}

fn solver_permutation(n: usize) -> Vec<usize> {
    // Lehmer code picked by the solver -> rank of every row
    let mut free: Vec<usize> = (0..n).collect();
    let mut rank = vec![0; n];
    for r in 0..n {
        let c = choice(&format!("perm{}", r), free.len());
        rank[free.remove(c)] = r;
    }
    rank
}

/// contract layer: symbolic distance table, mock index answering in order `order`
fn dbscan_contract<F: Scalar>(p: &Params) {
    let (n, mp, order) = (p.u("n", 3), p.u("mp", 2), p.u("order", 1));
    let (b, ties, tri, mutation) = (p.get("B", 1024), p.u("ties", 1), p.u("tri", 1), p.u("mut", 0));
    let t = table::<F>(n, b, tri == 1);
    let tol = int::<F>("tolerance", 1, b + 1);
    tie_domain(ties, &t, tol);
    let rank = if order == 4 { solver_permutation(n) } else { (0..n).collect() };
    let pts = Array2::from_shape_fn((n, 1), |(i, _)| F::lit(i as f64));
    let dist = TableDist { n, t: t.iter().flatten().copied().collect() };
    let mut labels = Dbscan::params_with(mp, dist, MockNn { order, rank }).tolerance(tol).check().expect("valid hyper-parameters").transform(&pts).to_vec();
    observe_labels(&labels);
    let den = density(&t, tol, mp, mutation);
    mutate_labels(mutation, &den, &mut labels);
    check_dbscan(&den, &labels);
}

// ---------------------------------------------------------------------------------------------
// OPTICS

#[derive(Clone, Copy)]
struct Opt<F> {
    idx: usize,
    core: Option<F>,
    reach: Option<F>,
}

fn run_optics<F: Scalar, D: Distance<F>, N: NearestNeighbour>(nn: N, dist: D, mp: usize, tol: F, pts: &Array2<F>) -> Vec<Opt<F>> {
    let a = Optics::params_with(mp, dist, nn).tolerance(tol).check().expect("valid hyper-parameters").transform(pts.view());
    a.iter().map(|s| Opt { idx: s.index(), core: *s.core_distance(), reach: *s.reachability_distance() }).collect()
}

fn run_optics_metric<F: Scalar, N: NearestNeighbour>(nn: N, metric: usize, mp: usize, tol: F, pts: &Array2<F>) -> Vec<Opt<F>> {
    match metric {
        1 => run_optics(nn, L1Dist, mp, tol, pts),
        _ => run_optics(nn, LInfDist, mp, tol, pts),
    }
}

fn k_subsets(n: usize, k: usize) -> Vec<Vec<usize>> {
    fn rec(start: usize, n: usize, k: usize, cur: &mut Vec<usize>, out: &mut Vec<Vec<usize>>) {
        if cur.len() == k {
            out.push(cur.clone());
            return;
        }
        for i in start..n {
            cur.push(i);
            rec(i + 1, n, k, cur, out);
            cur.pop();
        }
    }
    let mut out = vec![];
    rec(0, n, k, &mut vec![], &mut out);
    out
}

fn at_least(k: usize, bs: &[SymB]) -> SymB {
    if k == 0 {
        return SymB::k(true);
    }
    if k > bs.len() {
        return SymB::k(false);
    }
    let alts: Vec<SymB> = k_subsets(bs.len(), k).iter().map(|s| SymB::all(&s.iter().map(|&i| bs[i]).collect::<Vec<_>>())).collect();
    SymB::any(&alts)
}

/// v is the k-th smallest (k >= 1) of the multiset `row`: fewer than k elements are < v and at least k are <= v
fn is_kth_smallest<F: Scalar>(v: F, row: &[F], k: usize) -> SymB {
    let lt: Vec<SymB> = row.iter().map(|&s| s.s_lt(v)).collect();
    let le: Vec<SymB> = row.iter().map(|&s| s.s_le(v)).collect();
    at_least(k, &lt).not().and(at_least(k, &le))
}

const P_STRUCT: usize = 1; // listed once, core distance defined exactly for core points
const P_CORE: usize = 2; // value of the core distance
const P_REACH: usize = 4; // reachability = max(core(o), d(o,p)) for some core o within the tolerance
const P_ORDER: usize = 8; // ... and that o is listed no later than p

fn mutate_optics<F: Scalar>(mutation: usize, out: &mut Vec<Opt<F>>) {
    match mutation {
        3 => {
            // duplicate the first entry over the last
            if out.len() > 1 {
                let f = out[0];
                *out.last_mut().unwrap() = f;
            }
        }
        4 => out.reverse(),
        5 => out.iter_mut().for_each(|o| o.core = o.core.map(|c| c + F::lit(1.0))),
        6 => out.iter_mut().for_each(|o| o.reach = o.reach.map(|c| c + F::lit(1.0))),
        7 => out.iter_mut().for_each(|o| o.core = None),
        _ => {}
    }
}

/// `d` are true distances here (L1 / Linf / table), `den` the density structure for the same tolerance
fn check_optics<F: Scalar>(part: usize, den: &Density, d: &[Vec<F>], mp: usize, out: &[Opt<F>]) -> bool {
    let n = den.core.len();
    let mut pos = vec![usize::MAX; n];
    let mut once = out.len() == n;
    for (k, o) in out.iter().enumerate() {
        if o.idx >= n || pos[o.idx] != usize::MAX {
            once = false;
        } else {
            pos[o.idx] = k;
        }
    }
    if part & P_STRUCT != 0 {
        check_bool("optics.every sample is listed exactly once", once);
    }
    if !once {
        return false;
    }
    for o in out {
        if part & P_STRUCT != 0 {
            check_bool("optics.core distance is defined exactly when min_points points (itself included) lie within the tolerance", o.core.is_some() == den.core[o.idx]);
        }
        if let (Some(c), true) = (o.core, part & P_CORE != 0) {
            check("optics.core distance equals the distance to the min_points-th nearest neighbour", is_kth_smallest(c, &d[o.idx], mp));
        }
    }
    for s in out {
        let r = match s.reach {
            Some(r) => r,
            None => continue,
        };
        let mut any_o = vec![];
        let mut earlier_o = vec![];
        for o in out {
            if let (Some(c), true) = (o.core, den.within[o.idx][s.idx]) {
                let e = r.s_eq(num_traits::Float::max(c, d[o.idx][s.idx]));
                any_o.push(e);
                if pos[o.idx] <= pos[s.idx] {
                    earlier_o.push(e);
                }
            }
        }
        if part & P_REACH != 0 {
            check("optics.reachability is undefined or max(core distance of o, distance to o) for a core point o within the tolerance", SymB::any(&any_o));
        }
        if part & P_ORDER != 0 {
            check("optics.reachability is undefined or max(core distance of o, distance to o) for a core point o within the tolerance listed no later than the sample", SymB::any(&earlier_o));
        }
    }
    true
}

fn observe_optics<F: Scalar>(out: &[Opt<F>]) {
    for o in out {
        observe_usize(o.idx);
        for v in [o.core, o.reach] {
            match v {
                Some(x) => {
                    observe_usize(1);
                    observe(x);
                }
                None => observe_usize(0),
            }
        }
    }
}

/// integration layer, one index kind against the definition
fn optics<F: Scalar>(p: &Params) {
    set_wide(p);
    let (n, d, mp, kind) = (p.u("n", 3), p.u("d", 1), p.u("mp", 2), p.u("kind", 1));
    let (metric, leaf, b, ties, part, mutation) = (p.u("metric", 1), p.u("leaf", 0), p.get("B", 1024), p.u("ties", 1), p.u("part", 15), p.u("mut", 0));
    assert!(metric == 1 || metric == 3, "OPTICS calls Distance::distance, which concretises for L2");
    let pts = coordinates::<F>(n, d, b);
    let tol = tol_input::<F>(metric, d, b);
    let dm = dist_matrix(metric, &pts);
    tie_domain(ties, &dm, tol);
    let mut out = run_optics_metric(RealIndex { kind: index_kind(kind), leaf }, metric, mp, tol, &pts);
    mutate_optics(mutation, &mut out);
    observe_optics(&out);
    let den = density(&dm, tol, mp, if mutation <= 2 { mutation } else { 0 });
    check_optics(part, &den, &dm, mp, &out);
}

/// index independence of the core distances: `pair` 0 = k-d tree vs ball tree, 1 = k-d tree vs linear scan,
/// 2 = ball tree vs linear scan
fn optics_index<F: Scalar>(p: &Params) {
    set_wide(p);
    let (n, d, mp, pair) = (p.u("n", 3), p.u("d", 1), p.u("mp", 2), p.u("pair", 0));
    let (metric, leaf, b, ties, mutation) = (p.u("metric", 1), p.u("leaf", 0), p.get("B", 1024), p.u("ties", 1), p.u("mut", 0));
    assert!(metric == 1 || metric == 3, "OPTICS calls Distance::distance, which concretises for L2");
    let (ka, kb) = match pair {
        0 => (1, 0),
        1 => (1, 2),
        _ => (0, 2),
    };
    let pts = coordinates::<F>(n, d, b);
    let tol = tol_input::<F>(metric, d, b);
    let dm = dist_matrix(metric, &pts);
    tie_domain(ties, &dm, tol);
    let a = run_optics_metric(RealIndex { kind: index_kind(ka), leaf }, metric, mp, tol, &pts);
    let mut bb = run_optics_metric(RealIndex { kind: index_kind(kb), leaf }, metric, mp, tol, &pts);
    mutate_optics(mutation, &mut bb);
    observe_optics(&a);
    observe_optics(&bb);
    let core_of = |out: &[Opt<F>], i: usize| out.iter().find(|o| o.idx == i).map(|o| o.core);
    for i in 0..n {
        match (core_of(&a, i), core_of(&bb, i)) {
            (Some(Some(x)), Some(Some(y))) => check("optics.core distances do not depend on the neighbour index", x.s_eq(y)),
            (Some(None), Some(None)) => check_bool("optics.core distances do not depend on the neighbour index", true),
            (Some(_), Some(_)) => check_bool("optics.core distances do not depend on the neighbour index", false),
            _ => check_bool("optics.every sample is listed exactly once", false),
        }
    }
}

/// contract layer: symbolic distance table, mock index answering in order `order`
fn optics_contract<F: Scalar>(p: &Params) {
    let (n, mp, order) = (p.u("n", 3), p.u("mp", 2), p.u("order", 2));
    let (b, ties, tri, part, mutation) = (p.get("B", 1024), p.u("ties", 1), p.u("tri", 1), p.u("part", 15), p.u("mut", 0));
    let t = table::<F>(n, b, tri == 1);
    let tol = int::<F>("tolerance", 1, b + 1);
    tie_domain(ties, &t, tol);
    let rank = if order == 4 { solver_permutation(n) } else { (0..n).collect() };
    let pts = Array2::from_shape_fn((n, 1), |(i, _)| F::lit(i as f64));
    let dist = TableDist { n, t: t.iter().flatten().copied().collect() };
    let mut out = run_optics(MockNn { order, rank }, dist, mp, tol, &pts);
    mutate_optics(mutation, &mut out);
    observe_optics(&out);
    let den = density(&t, tol, mp, if mutation <= 2 { mutation } else { 0 });
    check_optics(part, &den, &t, mp, &out);
}

// ---------------------------------------------------------------------------------------------
// zero features: all points coincide (every distance is the empty sum 0 < tolerance)

fn zero_features<F: Scalar>(p: &Params) {
    let (n, mp, kind, part) = (p.u("n", 3), p.u("mp", 2), p.u("kind", 1), p.u("part", 1));
    let tol = int::<F>("tolerance", 1, 1024);
    let pts = Array2::<F>::from_elem((n, 0), F::lit(0.0));
    let labels = run_dbscan(RealIndex { kind: index_kind(kind), leaf: 0 }, 1, mp, tol, &pts);
    observe_labels(&labels);
    let out = run_optics_metric(RealIndex { kind: index_kind(kind), leaf: 0 }, 1, mp, tol, &pts);
    observe_optics(&out);
    let mut seen = vec![false; n];
    let mut once = out.len() == n;
    for o in &out {
        if o.idx >= n || seen[o.idx] {
            once = false;
        } else {
            seen[o.idx] = true;
        }
    }
    if part & 1 != 0 {
        check_bool("zero_features.dbscan returns one label slot per sample", labels.len() == n);
        check_bool("zero_features.optics lists every sample exactly once", once);
        if n < mp {
            check_bool("zero_features.fewer than min_points samples: all noise, no core distance", labels.iter().all(|l| l.is_none()) && out.iter().all(|o| o.core.is_none() && o.reach.is_none()));
        }
    }
    // n >= min_points coincident samples (every distance is 0 < tolerance): all core, one cluster, core distance 0
    if part & 2 != 0 && n >= mp {
        check_bool("zero_features.dbscan puts n >= min_points coincident samples into one cluster", labels.len() == n && labels.iter().all(|l| *l == Some(0)));
    }
    if part & 4 != 0 && n >= mp && once {
        for o in &out {
            check_bool("zero_features.optics gives n >= min_points coincident samples a core distance", o.core.is_some());
            if let Some(c) = o.core {
                check("zero_features.optics core distance of coincident samples is 0", c.s_eq(F::lit(0.0)));
            }
        }
    }
}

pub fn register(v: &mut Vec<HarnessDef>) {
    harness!(v, "c08.dbscan", "C08", dbscan,
        "DBSCAN over the real neighbour indices vs the density clustering recomputed from the coordinate terms (kind=-1: all three indices in one run + index independence)",
        ["linfa_clustering::DbscanParams::{tolerance,check}", "linfa_clustering::DbscanValidParams::transform (search_queue/search_found growth loop, current_cluster_id)", "linfa_clustering::DbscanValidParams::find_neighbors", "linfa_nn::CommonNearestNeighbour::from_batch_with_leaf_size", "linfa_nn::{LinearSearchIndex,KdTreeIndex,BallTreeIndex}::within_range", "linfa_nn::distance::{L1Dist,L2Dist,LInfDist}::{rdistance,dist_to_rdist}"],
        ["coordinates are integers in [-B,B], tolerance an integer >= 1 (exact in f64)", "n <= 5 (1-D), n <= 4 (2-D)", "'within the tolerance' is strict (d < tolerance), as in every within_range implementation", "leaf=0: linfa's own from_batch (leaf size 16: single-leaf trees at these n); leaf>0: the same index code built with that leaf size", "L2 through rdistance only (linear scan, k-d tree); BallTree x L2 concretises (ndarray_stats::l2_dist) and is not run", "ties=0 assumes tolerance != every inter-point distance; ties=1 assumes nothing; ties=2 assumes some inter-point distance equals the tolerance"]);
    harness!(v, "c08.dbscan_contract", "C08", dbscan_contract,
        "DBSCAN over a mock metric (symbolic distance table) and a mock index answering within_range in another order (order: 0 row, 1 reversed, 2 ascending, 3 descending, 4 solver-chosen permutation)",
        ["linfa_clustering::DbscanValidParams::transform", "linfa_clustering::DbscanValidParams::find_neighbors"],
        ["distance table: symmetric, zero diagonal, integer entries in [0,B]; tri=1 assumes the triangle inequality (then the table is an Linf point set in n-1 dimensions)", "the mock index returns exactly the rows with distance < tolerance"]);
    harness!(v, "c08.optics", "C08", optics,
        "OPTICS over one real neighbour index vs the definitions (part bits: 1 listed once + core defined, 2 core distance value, 4 reachability formula, 8 ... with o listed no later)",
        ["linfa_clustering::OpticsParams::{tolerance,check}", "linfa_clustering::OpticsValidParams::transform (processed/seeds ordering loop)", "linfa_clustering::OpticsValidParams::{find_neighbors,set_core_distance,get_seeds}", "linfa_clustering::Sample::cmp", "linfa_nn::{LinearSearchIndex,KdTreeIndex,BallTreeIndex}::within_range", "linfa_nn::distance::{L1Dist,LInfDist}::distance"],
        ["coordinates are integers in [-B,B], tolerance an integer >= 1 (exact in f64)", "L1 and Linf only: OPTICS calls L2Dist::distance (ndarray_stats::l2_dist), which concretises", "the min_points-th nearest neighbour counts the sample itself (neighbors.get(min_points-1) on a range answer that contains the sample; Sample::core_distance doc)", "reachability is checked against the *reported* core distance of o; together with the core-distance obligation this is the statement"]);
    harness!(v, "c08.optics_index", "C08", optics_index,
        "OPTICS core distances under two neighbour index kinds on the same input (pair: 0 k-d tree/ball tree, 1 k-d tree/linear scan, 2 ball tree/linear scan)",
        ["linfa_clustering::OpticsValidParams::{transform,find_neighbors,set_core_distance}", "linfa_nn::{LinearSearchIndex,KdTreeIndex,BallTreeIndex}::within_range"],
        ["coordinates are integers in [-B,B], tolerance an integer >= 1", "only core distances are compared: order and reachability may legitimately differ between valid OPTICS runs"]);
    harness!(v, "c08.optics_contract", "C08", optics_contract,
        "OPTICS over a mock metric (symbolic distance table) and a mock index answering within_range in order `order` (0 row, 1 reversed, 2 ascending, 3 descending, 4 solver-chosen permutation)",
        ["linfa_clustering::OpticsValidParams::{transform,find_neighbors,set_core_distance,get_seeds}", "linfa_clustering::Sample::cmp"],
        ["distance table: symmetric, zero diagonal, integer entries in [0,B]; tri=1 assumes the triangle inequality", "the mock index returns exactly the rows with distance < tolerance"]);
    harness!(v, "c08.zero_features", "C08", zero_features,
        "DBSCAN and OPTICS on n samples with zero features (part 1: shape of the answer and n < min_points, 2: DBSCAN clustering of n >= min_points coincident samples, 4: OPTICS core distance of them)",
        ["linfa_clustering::DbscanValidParams::transform (BuildError::ZeroDimension arm)", "linfa_clustering::OpticsValidParams::transform (BuildError::ZeroDimension arm)"],
        ["with zero features every distance is the empty sum 0, i.e. all samples coincide"]);
}
